#!/venv/bin/python
"""Systematic mutation sweep (development / measurement aid, not a registered check).

  tools_sweep.py gen                 generate single-point mutants (source edits) in the functions the checks analyse -> sweep/mutants.json
  tools_sweep.py analyse             run all 20 checks on every mutant in memory -> sweep/analysed.json (which checks report it)
  tools_sweep.py suite               run the pinned test-suite on the mutants NO check reports -> sweep/survivors.json
                                     (a mutant the suite notices is not interesting: the tests already settle it)
  tools_sweep.py stats               numbers for DESIGN.md

Mutation operators (each applied at one site, the edit is a textual splice at the AST node's position):
  NEG   negate the test of an if / while / conditional expression / assert
  CMP   is<->is not, ==<->!=, in<->not in, <<->=, ><->=
  BOOL  and<->or
  CONST True<->False, None->0 (call arguments and returns), 0->1, ''->'x'
  DEL   delete an expression statement or an attribute / subscript assignment (replaced by `pass`)
  RET   `return X` -> `return None`
  JMP   continue<->break
  ARG   drop a keyword argument of a call
  EXC   `except A` -> `except Exception` / `except (A, B)` -> `except A`
The survivors are handed to independent sub-agents for triage (equivalent / irrelevant to the 20 properties / violates property X,
with a demonstration); confirmed violations become seeds.  Nothing here is a verdict about /repo.
"""
import ast
import json
import os
import subprocess
import sys

HERE = os.path.dirname(os.path.abspath(__file__))
sys.path.insert(0, HERE)
OUT = os.path.join(HERE, 'sweep')
PROPS = [f'C{i:02d}' for i in range(1, 21)]


def analysed_functions():
    """qualified names of the functions listed in the evidence files (what the checks say they looked at)"""
    fs = set()
    for p in PROPS:
        j = json.load(open(os.path.join(HERE, 'evidence', f'{p}.json')))
        for q in (j.get('coverage', {}) or {}).get('functions_analysed', []) or []:
            fs.add(q)
    return fs


def dotted_name(e):
    parts = []
    while isinstance(e, ast.Attribute):
        parts.append(e.attr)
        e = e.value
    if isinstance(e, ast.Name):
        parts.append(e.id)
        return '.'.join(reversed(parts))
    return None


def _segments(src):
    lines = src.split('\n')
    offs = [0]
    for ln in lines:
        offs.append(offs[-1] + len(ln) + 1)

    def pos(lineno, col):
        # col is a utf8 byte offset; the package sources are ascii in the relevant places
        return offs[lineno - 1] + col
    return pos


def gen():
    from pjx.model import Program
    prog = Program()
    os.makedirs(OUT, exist_ok=True)
    GEN2 = os.environ.get('SWEEP_GEN') == '2'
    wanted = set() if GEN2 else analysed_functions()
    SCOPE2 = ('pjrpc.common', 'pjrpc.server', 'pjrpc.client.client', 'pjrpc.client.retry', 'pjrpc.client.tracer', 'pjrpc.client.integrations.pytest',
              'pjrpc.client.validators')
    prev = {(m['file'], m['start'], m['end'], m['new']) for m in (json.load(open(os.path.join(OUT, 'mutants.json'))) if GEN2 else [])}
    muts = []
    for m in prog.modules.values():
        if GEN2 and not m.name.startswith(SCOPE2):
            continue
        src = m.source
        pos = _segments(src)
        funcs = [f for f in prog.funcs.values() if f.module is m and isinstance(f.node, (ast.FunctionDef, ast.AsyncFunctionDef))]
        for f in funcs:
            root_q = f.qualname
            top = f
            while top.parent is not None:
                top = top.parent
            if wanted and top.qualname not in wanted and f.qualname not in wanted:
                continue

            def seg(n):
                return pos(n.lineno, n.col_offset), pos(n.end_lineno, n.end_col_offset)

            def add(op, node, new, note=''):
                a, b = seg(node)
                old = src[a:b]
                if old == new:
                    return
                muts.append({'id': None, 'op': op, 'file': m.rel, 'func': root_q, 'line': node.lineno, 'start': a, 'end': b, 'old': old, 'new': new, 'note': note})
            own = []
            parents = {}
            stack = list(f.node.body)
            while stack:
                n = stack.pop()
                own.append(n)
                for ch in ast.iter_child_nodes(n):
                    parents[id(ch)] = n
                    if isinstance(ch, (ast.FunctionDef, ast.AsyncFunctionDef, ast.ClassDef)):
                        continue
                    stack.append(ch)
            for n in own:
                if isinstance(n, (ast.If, ast.While, ast.IfExp, ast.Assert)):
                    t = n.test
                    a, b = seg(t)
                    add('NEG', t, f'(not ({src[a:b]}))')
                if isinstance(n, ast.Compare) and len(n.ops) == 1:
                    l_a, l_b = seg(n.left)
                    r_a, r_b = seg(n.comparators[0])
                    opmap = {ast.Is: 'is not', ast.IsNot: 'is', ast.Eq: '!=', ast.NotEq: '==', ast.In: 'not in', ast.NotIn: 'in',
                             ast.Lt: '<=', ast.LtE: '<', ast.Gt: '>=', ast.GtE: '>'}
                    o = opmap.get(type(n.ops[0]))
                    if o:
                        add('CMP', n, f'{src[l_a:l_b]} {o} {src[r_a:r_b]}')
                if isinstance(n, ast.BoolOp) and len(n.values) == 2:
                    a1, b1 = seg(n.values[0])
                    a2, b2 = seg(n.values[1])
                    o = 'or' if isinstance(n.op, ast.And) else 'and'
                    add('BOOL', n, f'{src[a1:b1]} {o} {src[a2:b2]}')
                if isinstance(n, ast.Constant):
                    if n.value is True:
                        add('CONST', n, 'False')
                    elif n.value is False:
                        add('CONST', n, 'True')
                    elif n.value == 0 and isinstance(n.value, int) and not isinstance(n.value, bool):
                        add('CONST', n, '1')
                    elif n.value == 1 and isinstance(n.value, int) and not isinstance(n.value, bool):
                        add('CONST', n, '0')
                if isinstance(n, ast.Expr) and isinstance(n.value, (ast.Call, ast.Await)) and not (isinstance(n.value, ast.Call) and 'logger' in src[seg(n)[0]:seg(n)[1]][:10]):
                    add('DEL', n, 'pass')
                if isinstance(n, ast.Assign) and len(n.targets) == 1 and isinstance(n.targets[0], (ast.Attribute, ast.Subscript)):
                    add('DEL', n, 'pass')
                if isinstance(n, ast.Return) and n.value is not None and not (isinstance(n.value, ast.Constant) and n.value.value is None):
                    add('RET', n, 'return None')
                if isinstance(n, ast.Continue):
                    add('JMP', n, 'break')
                if isinstance(n, ast.Break):
                    add('JMP', n, 'continue')
                if isinstance(n, ast.Call) and n.keywords:
                    for kw in n.keywords:
                        if kw.arg is None:
                            continue
                        # drop the keyword: rebuild the call text without it
                        fa, fb = seg(n.func)
                        parts = []
                        for a_ in n.args:
                            sa, sb = seg(a_)
                            parts.append(src[sa:sb])
                        for k2 in n.keywords:
                            if k2 is kw:
                                continue
                            sa, sb = seg(k2.value)
                            parts.append((f'{k2.arg}=' if k2.arg else '**') + src[sa:sb])
                        add('ARG', n, f'{src[fa:fb]}({", ".join(parts)})', note=f'drop {kw.arg}=')
                if GEN2 and isinstance(n, ast.Call) and isinstance(n.func, ast.Name) and n.func.id in ('list', 'tuple', 'set', 'str', 'sorted', 'reversed', 'dict', 'frozenset', 'bool') \
                        and len(n.args) == 1 and not n.keywords and not isinstance(n.args[0], (ast.GeneratorExp, ast.Starred)):
                    a1, b1 = seg(n.args[0])
                    add('UNWRAP', n, src[a1:b1], note=f'{n.func.id}(x) -> x')
                if GEN2 and isinstance(n, ast.Call) and dotted_name(n.func) in ('copy.deepcopy', 'copy.copy') and len(n.args) == 1:
                    a1, b1 = seg(n.args[0])
                    add('UNWRAP', n, src[a1:b1], note='copy removed')
                if GEN2 and isinstance(n, ast.Call) and len(n.args) >= 2 and not any(isinstance(a_, ast.Starred) for a_ in n.args[:2]):
                    a1, b1 = seg(n.args[0])
                    a2, b2 = seg(n.args[1])
                    if src[a1:b1] != src[a2:b2]:
                        fa, fb = seg(n.func)
                        rest = []
                        for a_ in n.args[2:]:
                            sa, sb = seg(a_)
                            rest.append(src[sa:sb])
                        for k2 in n.keywords:
                            sa, sb = seg(k2.value)
                            rest.append((f'{k2.arg}=' if k2.arg else '**') + src[sa:sb])
                        add('SWAP', n, f'{src[fa:fb]}({", ".join([src[a2:b2], src[a1:b1]] + rest)})', note='first two arguments swapped')
                if GEN2 and isinstance(n, ast.Constant) and isinstance(n.value, str) and n.value and len(n.value) < 40:
                    par = parents.get(id(n))
                    gpar = parents.get(id(par)) if par is not None else None
                    in_msg = isinstance(par, ast.JoinedStr) or isinstance(par, ast.Call) and (
                        'logger' in (dotted_name(par.func) or '') or 'Error' in (dotted_name(par.func) or '') or 'Exception' in (dotted_name(par.func) or '')
                        or (dotted_name(par.func) or '').endswith(('warn', 'warning', 'debug', 'info', 'error', 'exception')))
                    is_doc = isinstance(par, ast.Expr)
                    if not in_msg and not is_doc and not isinstance(par, (ast.Assert, ast.Raise)):
                        add('STR', n, repr(n.value + '_'), note='string constant changed')
                if GEN2 and isinstance(n, ast.Constant) and isinstance(n.value, int) and not isinstance(n.value, bool) and n.value not in (0, 1):
                    add('CONST', n, repr(n.value + 1))
                if isinstance(n, ast.ExceptHandler) and n.type is not None:
                    if isinstance(n.type, ast.Tuple) and len(n.type.elts) >= 2:
                        a0, b0 = seg(n.type.elts[0])
                        add('EXC', n.type, src[a0:b0], note='first of tuple only')
                    elif not (isinstance(n.type, ast.Name) and n.type.id in ('Exception', 'BaseException')):
                        add('EXC', n.type, 'Exception', note='widened')
    # de-duplicate, number
    seen = set(prev)
    out = []
    base_n = 2000 if GEN2 else 0
    for mu in muts:
        key = (mu['file'], mu['start'], mu['end'], mu['new'])
        if key in seen:
            continue
        seen.add(key)
        mu['id'] = f'M{base_n + len(out):04d}'
        out.append(mu)
    # only mutants that still parse
    ok = []
    for mu in out:
        mod = [x for x in prog.modules.values() if x.rel == mu['file']][0]
        new_src = mod.source[:mu['start']] + mu['new'] + mod.source[mu['end']:]
        try:
            ast.parse(new_src)
        except SyntaxError:
            continue
        ok.append(mu)
    if GEN2:
        old = json.load(open(os.path.join(OUT, 'mutants.json')))
        old = [m_ for m_ in old if not m_['id'] >= 'M2000']
        json.dump(old + ok, open(os.path.join(OUT, 'mutants.json'), 'w'), indent=0)
    else:
        json.dump(ok, open(os.path.join(OUT, 'mutants.json'), 'w'), indent=0)
    by = {}
    for mu in ok:
        by[mu['op']] = by.get(mu['op'], 0) + 1
    print(len(ok), 'mutants', by, 'in', len({mu['func'] for mu in ok}), 'functions')


def _override(prog, mu):
    mod = [x for x in prog.modules.values() if x.rel == mu['file']][0]
    return {mu['file']: mod.source[:mu['start']] + mu['new'] + mod.source[mu['end']:]}


def analyse():
    from pjx.model import Program
    from pjx.mutate import eval_variants
    from pjx.report import load_known
    prog = Program()
    muts = json.load(open(os.path.join(OUT, 'mutants.json')))
    known = {(k['rule'], k['function'], k['construct']) for k in load_known() if k.get('status') == 'known'}
    base = eval_variants(prog, [{}], PROPS)[0]
    base_keys = {p: ({(r, fn, c) for r, fn, c, _ in v} if isinstance(v, list) else set()) for p, v in base.items()}
    done_path = os.path.join(OUT, 'analysed.json')
    done = json.load(open(done_path)) if os.path.exists(done_path) else {}
    todo = [mu for mu in muts if mu['id'] not in done]
    CH = 96
    for i in range(0, len(todo), CH):
        chunk = todo[i:i + CH]
        res = eval_variants(prog, [_override(prog, mu) for mu in chunk], PROPS)
        for mu, r in zip(chunk, res):
            rep = {}
            for p, v in r.items():
                if isinstance(v, str):
                    rep[p] = ['ANALYSIS-ERROR']
                else:
                    new = sorted({rule for rule, fn, c, _ in v if (rule, fn, c) not in base_keys[p] and (rule, fn, c) not in known})
                    if new:
                        rep[p] = new
            done[mu['id']] = rep
        json.dump(done, open(done_path, 'w'))
        n_rep = sum(1 for v in done.values() if v)
        print(f'{len(done)}/{len(muts)} analysed, {n_rep} reported by some check', flush=True)


def _suite_one(args):
    mu, src_root = args
    import shutil
    import tempfile
    import re
    tmp = tempfile.mkdtemp(prefix='pjx_sweep_', dir='/tmp')
    try:
        shutil.copytree(os.path.join('/repo', 'pjrpc'), os.path.join(tmp, 'pjrpc'))
        shutil.copytree(os.path.join('/repo', 'tests'), os.path.join(tmp, 'tests'))
        for extra in ('setup.cfg', 'pyproject.toml', 'pytest.ini', 'tox.ini', 'conftest.py'):
            if os.path.exists(os.path.join('/repo', extra)):
                shutil.copy(os.path.join('/repo', extra), tmp)
        p = os.path.join(tmp, mu['file'])
        s = open(p).read()
        open(p, 'w').write(s[:mu['start']] + mu['new'] + s[mu['end']:])
        r = subprocess.run('/venv/bin/python -m pytest -q -p no:cacheprovider --timeout=300 --continue-on-collection-errors 2>&1 | tail -5',
                           shell=True, cwd=tmp, env={**os.environ, 'PYTHONPATH': tmp}, capture_output=True, text=True, timeout=1800)
        out = r.stdout
        m = re.search(r'(\d+) failed, (\d+) passed', out)
        return mu['id'], (int(m.group(2)), int(m.group(1))) if m else (None, out[-200:])
    except Exception as e:
        return mu['id'], (None, repr(e))
    finally:
        shutil.rmtree(tmp, ignore_errors=True)


def suite():
    from concurrent.futures import ProcessPoolExecutor
    muts = {mu['id']: mu for mu in json.load(open(os.path.join(OUT, 'mutants.json')))}
    done = json.load(open(os.path.join(OUT, 'analysed.json')))
    quiet = [muts[i] for i, rep in done.items() if not rep and i in muts]
    path = os.path.join(OUT, 'suite.json')
    res = json.load(open(path)) if os.path.exists(path) else {}
    todo = [mu for mu in quiet if mu['id'] not in res]
    print(len(quiet), 'unreported mutants,', len(todo), 'to run through the suite', flush=True)
    with ProcessPoolExecutor(15) as ex:
        for k, (mid, r) in enumerate(ex.map(_suite_one, [(mu, '/repo') for mu in todo])):
            res[mid] = r
            if k % 20 == 0:
                json.dump(res, open(path, 'w'))
                print(k, '/', len(todo), flush=True)
    json.dump(res, open(path, 'w'))
    surv = [muts[i] for i, r in res.items() if r and r[0] == 219 and r[1] == 44 and i in muts]
    json.dump(surv, open(os.path.join(OUT, 'survivors.json'), 'w'), indent=0)
    print(len(surv), 'survive both the checks and the suite')


def suite_all():
    """the test-suite on the mutants the checks DO report (for the comparison table only)"""
    from concurrent.futures import ProcessPoolExecutor
    muts = {mu['id']: mu for mu in json.load(open(os.path.join(OUT, 'mutants.json')))}
    done = json.load(open(os.path.join(OUT, 'analysed.json')))
    path = os.path.join(OUT, 'suite_reported.json')
    res = json.load(open(path)) if os.path.exists(path) else {}
    todo = [muts[i] for i, rep in done.items() if rep and i in muts and i not in res]
    with ProcessPoolExecutor(12) as ex:
        for k, (mid, r) in enumerate(ex.map(_suite_one, [(mu, '/repo') for mu in todo])):
            res[mid] = r
            if k % 40 == 0:
                json.dump(res, open(path, 'w'))
    json.dump(res, open(path, 'w'))
    blind = sum(1 for r in res.values() if r and r[0] == 219 and r[1] == 44)
    print(len(res), 'reported mutants run through the suite;', blind, 'of them the suite does not notice')


def stats():
    muts = json.load(open(os.path.join(OUT, 'mutants.json')))
    done = json.load(open(os.path.join(OUT, 'analysed.json')))
    rep = sum(1 for v in done.values() if v)
    print('mutants', len(muts), 'analysed', len(done), 'reported by a check', rep, f'({100 * rep // max(1, len(done))}%)')
    by = {}
    for mu in muts:
        if mu['id'] in done:
            k = mu['op']
            a, b = by.get(k, (0, 0))
            by[k] = (a + 1, b + (1 if done[mu['id']] else 0))
    print({k: f'{b}/{a}' for k, (a, b) in sorted(by.items())})
    p = os.path.join(OUT, 'suite.json')
    if os.path.exists(p):
        res = json.load(open(p))
        same = sum(1 for r in res.values() if r and r[0] == 219 and r[1] == 44)
        print('unreported', len(res), 'suite also blind', same)


if __name__ == '__main__':
    {'gen': gen, 'analyse': analyse, 'suite': suite, 'suite_all': suite_all, 'stats': stats}[sys.argv[1]]()
