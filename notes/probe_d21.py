import json
from pjrpc.common import UNSET
from pjrpc.server.dispatcher import Method
from pjrpc.server.specs import JSONEncoder, openrpc
from pjrpc.server.specs.extractors.docstring import DocstringSchemaExtractor

def add(a, b):
    """
    Adds two numbers.

    Parameters
    ----------
    a : int
    b : int
        second term

    Returns
    -------
    int
    """

def contains_unset(obj, path='$'):
    if obj is UNSET:
        return [path]
    out = []
    if isinstance(obj, dict):
        for k, v in obj.items():
            out += contains_unset(v, f'{path}.{k}')
    if isinstance(obj, (list, tuple, set)):
        for i, v in enumerate(obj):
            out += contains_unset(v, f'{path}[{i}]')
    return out

spec = openrpc.OpenRPC(info=openrpc.Info(title='api', version='1.0'), schema_extractor=DocstringSchemaExtractor())
doc = spec.schema(path='/api', methods_map={'': [Method(add)]})
print('UNSET at:', contains_unset(doc))
try:
    json.dumps(doc, cls=JSONEncoder)
    print('encodes')
except Exception as e:
    print('json.dumps fails:', type(e).__name__, e)
