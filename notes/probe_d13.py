import gc, weakref, logging; logging.disable(logging.CRITICAL)
import pjrpc.server
from pjrpc.server import Dispatcher
from pjrpc.server.dispatcher import default_validator
d = Dispatcher()
class V(pjrpc.server.ViewMixin):
    def __init__(self, context): self.context = context
    def m(self, a): return a
d._registry.view(V, context='ctx')
class Ctx: pass
refs = []
before = default_validator.signature.cache_info().currsize
for i in range(100):
    c = Ctx(); refs.append(weakref.ref(c))
    d.dispatch('{"jsonrpc":"2.0","id":1,"method":"m","params":[1]}', context=c)
    del c
gc.collect()
print('cache entries added:', default_validator.signature.cache_info().currsize - before, ' contexts still alive:', sum(r() is not None for r in refs))
