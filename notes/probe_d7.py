from pjrpc.client import AbstractClient
from pjrpc.common import generators
class C(AbstractClient):
    def _request(self, text, is_notification=False, **kw):
        return '{"jsonrpc":"2.0","id":1,"result":5}'
try:
    print(C(id_gen_impl=generators.uuid, strict=False).call('m'))
except Exception as e:
    print('RAISED', type(e).__name__, e)
