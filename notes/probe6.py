import json, logging, warnings
warnings.simplefilter('ignore'); logging.disable(logging.CRITICAL)
import werkzeug, flask
from werkzeug.test import Client
from pjrpc.server.integration import werkzeug as wz, flask as fl
app = wz.JsonRPC('/api')
app.dispatcher.add(lambda: 1, name='m')
c = Client(app)
body = json.dumps({'jsonrpc':'2.0','id':1,'method':'m'})
for ct in ['application/json', 'application/json; charset=utf-8', 'application/json-rpc', 'text/plain', None]:
    try:
        r = c.post('/api', data=body, content_type=ct)
        print('werkzeug', ct, r.status_code, r.get_data(as_text=True)[:60])
    except Exception as e: print('werkzeug', ct, 'RAISED', type(e).__name__)
fapp = flask.Flask(__name__); j = fl.JsonRPC('/api'); j.dispatcher.add(lambda: 1, name='m'); j.init_app(fapp)
fc = fapp.test_client()
for ct in ['application/json', 'application/json; charset=utf-8', 'application/json-rpc', 'application/jsonrequest', 'text/plain', None]:
    r = fc.post('/api', data=body, content_type=ct)
    print('flask', ct, r.status_code, r.get_data(as_text=True)[:60])
