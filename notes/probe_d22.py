import json, pathlib
import jsonschema
from pjrpc.server.dispatcher import Method
from pjrpc.server.specs import JSONEncoder, openrpc
from pjrpc.server.specs.extractors.docstring import DocstringSchemaExtractor
RES = pathlib.Path('/repo/tests/server/resources')
def div(a, b):
    """
    Divides.

    :param a: dividend
    :param integer b: divisor
    :returns: quotient
    """
meta = json.loads((RES / 'openrpc-1.3.2.json').read_text())
orpc = openrpc.OpenRPC(info=openrpc.Info(title='api', version='1.0'), schema_extractor=DocstringSchemaExtractor())
doc = json.loads(json.dumps(orpc.schema(path='/api', methods_map={'': [Method(div)]}), cls=JSONEncoder))
print(json.dumps(doc['methods'][0]['params'], indent=None)[:300])
print(json.dumps(doc['methods'][0]['result'], indent=None)[:300])
try:
    jsonschema.validate(doc, meta)
    print('VALID')
except jsonschema.ValidationError as e:
    print('INVALID:', e.message[:200], list(e.absolute_path))
