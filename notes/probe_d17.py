import json, logging; logging.disable(logging.CRITICAL)
import pjrpc.server
from pjrpc.server import Dispatcher
from pjrpc.server.specs import openapi, extractors
from pjrpc.server.specs.extractors.pydantic import PydanticSchemaExtractor
d = Dispatcher()
class V(pjrpc.server.ViewMixin):
    def m(self, a: int) -> int: return a
d.view(V)
spec = openapi.OpenAPI(info=openapi.Info(title='t', version='1'), schema_extractor=PydanticSchemaExtractor())
doc = spec.schema(path='/', methods_map={'': d.registry.values()})
params = doc['components']['schemas']['MParameters']
print('documented:', sorted(params['properties']), 'required:', params.get('required'))
print('with self  ->', d.dispatch('{"jsonrpc":"2.0","id":1,"method":"m","params":{"self":1,"a":1}}')[0])
print('without    ->', d.dispatch('{"jsonrpc":"2.0","id":1,"method":"m","params":{"a":1}}')[0])
