import asyncio, logging; logging.disable(logging.CRITICAL)
from pjrpc.server import Dispatcher, AsyncDispatcher
for D in (Dispatcher, AsyncDispatcher):
    d = D()
    def nf(): return 1
    d.add(nf)
    def t(txt):
        try:
            r = d.dispatch(txt)
            if asyncio.iscoroutine(r): r = asyncio.run(r)
            print(D.__name__, repr(txt[:40]), '->', r)
        except BaseException as e:
            print(D.__name__, repr(txt[:40]), 'RAISED', type(e).__name__, str(e)[:60])
    t('{"jsonrpc":"2.0","id":' + '1'*5000 + ',"method":"nf"}')
    t('[{"jsonrpc":"2.0","method":"nf"}]')
    t('[{"jsonrpc":"2.0","method":"nf"},{"jsonrpc":"2.0","method":"nf","id":0}]')
