import json, logging, warnings
warnings.simplefilter('ignore')
logging.disable(logging.CRITICAL)
import pjrpc
from pjrpc.server import Dispatcher, MethodRegistry, ViewMixin
from pjrpc.server.specs import openapi, openrpc, extractors
from pjrpc.server.specs.extractors import pydantic as pex, docstring as dex
from pjrpc.server.validators import pydantic as pval
import pydantic

reg = MethodRegistry()
@reg.add
@openapi.annotate(component_name_prefix='AAA')
def a(x: int) -> int: return x
@reg.add
def b(y: int) -> int: return y
@reg.view(context='ctx')
class V(ViewMixin):
    def __init__(self, ctx): self.ctx = ctx
    def vm(self, z: int) -> int: return z

spec = openapi.OpenAPI(info=openapi.Info(title='t', version='1'), schema_extractor=pex.PydanticSchemaExtractor())
doc = spec.schema('/rpc', {'': reg.values()})
print(sorted(doc['components']['schemas'].keys()))
p = doc['paths']['/rpc#vm']['post']['requestBody']['content']['application/json']['schema']
print(json.dumps(p)[:300])
print({k:v for k,v in doc['components']['schemas'].items() if 'VmParameters' in k})

# OpenRPC default extractor
try:
    print(openrpc.OpenRPC(info=openrpc.Info(title='t', version='1')).schema('/rpc', {'': reg.values()}))
except Exception as e: print('OpenRPC default RAISED', type(e).__name__, e)
try:
    print(str(openrpc.OpenRPC(info=openrpc.Info(title='t', version='1'), schema_extractor=dex.DocstringSchemaExtractor()).schema('/rpc', {'': reg.values()}))[:100])
except Exception as e: print('OpenRPC docstring RAISED', type(e).__name__, e)

# shared errors list
class E1(pjrpc.exc.JsonRpcError): code=1001; message='e1'
shared = [E1]
reg2 = MethodRegistry()
@reg2.add
@openapi.annotate(errors=shared)
def m1():
    """
    :raises MethodNotFoundError: x
    """
@reg2.add
@openapi.annotate(errors=shared)
def m2(): pass
spec = openapi.OpenAPI(info=openapi.Info(title='t', version='1'), schema_extractors=[dex.DocstringSchemaExtractor(), pex.PydanticSchemaExtractor()])
d1 = spec.schema('/rpc', {'': reg2.values()})
print('shared after', shared)
d2 = spec.schema('/rpc', {'': reg2.values()})
print('idempotent', d1 == d2)

# pydantic validator ctx
v = pval.PydanticValidator()
d = Dispatcher()
class M(pydantic.BaseModel):
    a: int
    @pydantic.field_validator('a')
    @classmethod
    def chk(cls, val):
        if val < 0: raise ValueError('neg')
        return val
@v.validate
def pm(m: M) -> int: return m.a
d.add(pm)
try: print(d.dispatch('{"jsonrpc":"2.0","id":1,"method":"pm","params":{"m":{"a":-1}}}'))
except Exception as e: print('pydantic RAISED', type(e).__name__, e)
try: print(d.dispatch('{"jsonrpc":"2.0","id":1,"method":"pm","params":{"m":{"a":"x"}}}'))
except Exception as e: print('pydantic RAISED', type(e).__name__, e)
