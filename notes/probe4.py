import json, logging, warnings
warnings.simplefilter('ignore'); logging.disable(logging.CRITICAL)
from pjrpc.server import MethodRegistry, ViewMixin, Dispatcher
from pjrpc.server.specs import openapi, openrpc
from pjrpc.server.specs.extractors import pydantic as pex
reg = MethodRegistry()
@reg.view(context='ctx')
class V(ViewMixin):
    def __init__(self, ctx): self.ctx = ctx
    def vm(self, z: int, w: int = 2) -> int: return z
spec = openapi.OpenAPI(info=openapi.Info(title='t', version='1'), schema_extractor=pex.PydanticSchemaExtractor())
doc = spec.schema('/rpc', {'': reg.values()})
print(json.dumps(doc['components']['schemas']['VmParameters']))
d = Dispatcher(); d.add_methods(reg)
print(d.dispatch('{"jsonrpc":"2.0","id":1,"method":"vm","params":{"z":1}}', context='C'))
print(d.dispatch('{"jsonrpc":"2.0","id":1,"method":"vm","params":{"z":1,"self":5}}', context='C'))
spec2 = openrpc.OpenRPC(info=openrpc.Info(title='t', version='1'), schema_extractor=pex.PydanticSchemaExtractor())
doc2 = spec2.schema('/rpc', {'': reg.values()})
print([ (p['name'], p['required']) for p in doc2['methods'][0]['params']])
