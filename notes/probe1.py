import json, asyncio, pjrpc, traceback
from pjrpc.server import Dispatcher, AsyncDispatcher
import logging; logging.disable(logging.CRITICAL)
d = Dispatcher()
def echo(*args, **kw): return [list(args), kw]
def f(a, **kw): return [a, kw]
def g(*args): return list(args)
def h(a, /): return a
def nf(): return 1
def tf(): raise TypeError('secret')
d.add(echo); d.add(f); d.add(g); d.add(h); d.add(nf); d.add(tf)
def t(txt):
    try:
        print(repr(txt[:60]), '->', d.dispatch(txt))
    except BaseException as e:
        print(repr(txt[:60]), 'RAISED', type(e).__name__, str(e)[:80])
t('{"jsonrpc":"2.0","id":' + '1'*5000 + ',"method":"nf"}')
t('[{"jsonrpc":"2.0","method":"nf"}]')
t('{"jsonrpc":"2.0","id":1,"method":"f","params":{"a":1,"b":2}}')
t('{"jsonrpc":"2.0","id":1,"method":"g","params":[1,2]}')
t('{"jsonrpc":"2.0","id":1,"method":"h","params":[1]}')
t('{"jsonrpc":"2.0","id":true,"method":"nf"}')
t('{"jsonrpc":"2.0","id":1.5,"method":"nf"}')
t('{"jsonrpc":"2.0","id":1,"method":"tf"}')
t('{"jsonrpc":"2.0","id":1,"method":"echo","params":[NaN]}')
t('{"jsonrpc":"2.0","id":1,"method":"nf","params":null}')
t('"\\ud800"')
t('{"jsonrpc":"2.0","id":1,"method":"nf","extra":1}')
t('[' * 2000 + ']' * 2000)
# Response.from_json
from pjrpc.common import Response, BatchResponse, Request
from pjrpc.common.exceptions import JsonRpcError
for data in [
  {'jsonrpc':'2.0','id':1,'result':0,'error':{'code':1,'message':'m'}},
  {'jsonrpc':'2.0','id':1,'result':None,'error':{'code':1,'message':'m'}},
  {'jsonrpc':'2.0','id':1,'error':{'code':0,'message':'m'}},
  {'jsonrpc':'2.0','id':1,'error':{'code':1,'message':''}},
  {'jsonrpc':'2.0','id':1,'error':{'code':True,'message':'x'}},
  {'jsonrpc':'2.0','id':[1],'result':1},
  {'jsonrpc':'2.0','id':1,'result':1, 'error': None},
]:
    try: print(data, '->', repr(Response.from_json(data)))
    except BaseException as e: print(data, 'RAISED', type(e).__name__, e)
for data in [ {'jsonrpc':'2.0','id':1,'result':1}, 5, [5], [], {'jsonrpc':'2.0', 'error': 5}, {'error':{}}]:
    try: print(data, '->', repr(BatchResponse.from_json(data)))
    except BaseException as e: print(data, 'RAISED', type(e).__name__, e)
# error registry & BatchResponse error class
class MyErr(pjrpc.exc.JsonRpcError):
    code = 2001; message='my'
r = BatchResponse.from_json([{'jsonrpc':'2.0','id':1,'error':{'code':2001,'message':'my'}}])
print(type(r[0].error))
class Base2(pjrpc.exc.JsonRpcError): pass
r = BatchResponse.from_json([{'jsonrpc':'2.0','id':1,'error':{'code':7,'message':'my'}}], error_cls=Base2)
print(type(r[0].error))
r = Response.from_json({'jsonrpc':'2.0','id':1,'error':{'code':7,'message':'my'}}, error_cls=Base2)
print(type(r.error))
# uuid
import pjrpc.common.generators as gen
try: print(json.dumps(Request('m', id=next(gen.uuid())), cls=pjrpc.JSONEncoder))
except BaseException as e: print('uuid RAISED', type(e).__name__, e)
# request roundtrip with empty params
print(Request('m', params=[], id=1).to_json(), Request.from_json({'jsonrpc':'2.0','method':'m','id':1}).params)
