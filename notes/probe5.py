import json, logging, warnings
warnings.simplefilter('ignore'); logging.disable(logging.CRITICAL)
import pjrpc
from pjrpc.client import AbstractClient, retry
class C(AbstractClient):
    def __init__(self, reply, **kw):
        super().__init__(**kw); self.reply = reply; self.sent=[]
    def _request(self, text, is_notification=False, **kw):
        self.sent.append(text); return self.reply(text)
def rev(text):
    reqs = json.loads(text)
    return json.dumps([{'jsonrpc':'2.0','id':r['id'],'result':r['method']} for r in reversed(reqs) if 'id' in r])
c = C(rev)
print('batch order:', c.batch('a')('b')('c').call())
# retry + notification
c2 = C(lambda t: None, retry_strategy=retry.RetryStrategy(backoff=retry.PeriodicBackoff(attempts=2, interval=0), codes={1}))
try: print(c2.notify('x'))
except Exception as e: print('notify+retry RAISED', type(e).__name__, e, 'sent', len(c2.sent))
# mocker id 0
from pjrpc.client.integrations.pytest import PjRpcMocker
class R(AbstractClient):
    def __init__(self): super().__init__(); self._endpoint='http://e'
    def _request(self, text, is_notification=False, **kw): raise RuntimeError
with PjRpcMocker('__main__.R._request') as m:
    m.add('http://e', 'meth', result=5)
    r = R()
    print(r._request(json.dumps({'jsonrpc':'2.0','id':0,'method':'meth'})))
    print(r._request(json.dumps({'jsonrpc':'2.0','id':'','method':'meth'})))
    print(r._request(json.dumps([{'jsonrpc':'2.0','method':'meth'}, {'jsonrpc':'2.0','id':3,'method':'meth'}])))
