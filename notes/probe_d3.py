import json, logging; logging.disable(logging.CRITICAL)
from pjrpc.server import Dispatcher
import pjrpc.server
d = Dispatcher()
def f(a, **kw): return [a, kw]
def g(*args): return list(args)
def h(a, /): return a
for fn in (f, g, h): d.add(fn)
class V(pjrpc.server.ViewMixin):
    def m(self, *args): return list(args)
d.view(V)
for txt in ('{"jsonrpc":"2.0","id":1,"method":"f","params":{"a":1,"b":2}}',
            '{"jsonrpc":"2.0","id":1,"method":"g","params":[1,2]}',
            '{"jsonrpc":"2.0","id":1,"method":"h","params":[1]}',
            '{"jsonrpc":"2.0","id":1,"method":"m","params":[1,2]}'):
    print(txt, '->', d.dispatch(txt)[0])
print('direct:', f(a=1, b=2), g(1, 2), h(1))
