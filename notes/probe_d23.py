# D23 probe: the starlette integration compares the Content-Type header as sent with the documented media types (C18).
# starlette is not installed in this environment, so a minimal stand-in for the starlette API used by
# pjrpc.server.integration.starlette is installed into sys.modules (Starlette.add_route, Request.headers/body(),
# Response(content, status_code, media_type), HTTPException(status_code)).
import asyncio
import json
import sys
import types

sys.path.insert(0, '/repo')


class HTTPException(Exception):
    def __init__(self, status_code, detail=None):
        super().__init__(status_code, detail)
        self.status_code = status_code


class Starlette:
    def __init__(self):
        self.routes = []
        self.handlers = {}

    def add_route(self, path, route, methods=None, **kwargs):
        for method in (methods or ['GET']):
            self.handlers[(method, path)] = route


class Headers(dict):
    def __getitem__(self, key):
        return dict.__getitem__(self, key.lower())


class Request:
    def __init__(self, headers, body):
        self.headers = Headers({k.lower(): v for k, v in headers.items()})
        self._body = body

    async def body(self):
        return self._body


class Response:
    def __init__(self, content=b'', status_code=200, headers=None, media_type=None):
        self.body = content.encode() if isinstance(content, str) else (content or b'')
        self.status_code = status_code
        self.media_type = media_type


class Mount:
    def __init__(self, *args, **kwargs):
        pass


class StaticFiles:
    def __init__(self, *args, **kwargs):
        pass


def module(name, **attrs):
    mod = types.ModuleType(name)
    mod.__dict__.update(attrs)
    sys.modules[name] = mod
    return mod


exceptions = module('starlette.exceptions', HTTPException=HTTPException)
routing = module('starlette.routing', Mount=Mount)
module('starlette.applications', Starlette=Starlette)
module('starlette.requests', Request=Request)
module('starlette.responses', Response=Response)
module('starlette.staticfiles', StaticFiles=StaticFiles)
module('starlette', exceptions=exceptions, routing=routing)

import pjrpc  # noqa: E402
import pjrpc.server  # noqa: E402
from pjrpc.server.integration import starlette as integration  # noqa: E402

calls = []
methods = pjrpc.server.MethodRegistry()


@methods.add
async def add(a, b):
    calls.append((a, b))
    return a + b


app = integration.Application('/api')
app.dispatcher.add_methods(methods)
handler = app.app.handlers[('POST', '/api')]
BODY = json.dumps({'jsonrpc': '2.0', 'id': 7, 'method': 'add', 'params': [1, 2]}).encode()


def post(content_type):
    """Returns (status, media type, body) the way starlette's exception middleware would answer."""
    try:
        response = asyncio.run(handler(Request({'Content-Type': content_type}, BODY)))
    except HTTPException as e:
        return e.status_code, None, b''
    return response.status_code, response.media_type, response.body



# the handler below is /repo's real pjrpc.server.integration.starlette.Application._rpc_handle; only the framework is a stand-in
# whose Request.headers[...] returns the header as sent, as starlette's does.
for content_type in ('application/json', 'application/json; charset=utf-8', 'application/json-rpc;charset=UTF-8', 'Application/JSON'):
    del calls[:]
    status, media_type, body = post(content_type)
    print('%-40s -> HTTP %s, executed %r' % (content_type, status, calls))
try:
    asyncio.run(handler(Request({}, BODY)))
except KeyError as e:
    print('%-40s -> KeyError %s escapes the handler (500)' % ('<no Content-Type header>', e))
except HTTPException as e:
    print('%-40s -> HTTP %s' % ('<no Content-Type header>', e.status_code))
