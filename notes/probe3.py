import warnings; warnings.simplefilter('ignore')
from pjrpc.server.validators import pydantic as pval
v = pval.PydanticValidator()
def pm(a: int) -> int: return a
import traceback
try: print(v.validate_method(pm, {'a': 1}))
except Exception as e: traceback.print_exc()
