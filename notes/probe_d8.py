import json
from pjrpc.client import AbstractClient
class C(AbstractClient):
    def _request(self, text, is_notification=False, **kw):
        reqs = json.loads(text)
        # a server that answers in reverse order (allowed by JSON-RPC 2.0)
        return json.dumps([{'jsonrpc': '2.0', 'id': r['id'], 'result': r['params'][0]} for r in reversed(reqs)])
c = C()
print('calls a(1), b(2), c(3) ->', c.batch.add('a', 1).add('b', 2).add('c', 3).call())
