#!/venv/bin/python
"""Development aid: run properties on an in-memory patched program.  tools_one.py <seeded|seeded_neutral>/<name> C01 [C02 ...]"""
import sys, os, traceback
HERE = os.path.dirname(os.path.abspath(__file__))
sys.path.insert(0, HERE)
from pjx.model import Program, AnalysisError
from pjx.mutate import apply_unified
from pjx.report import Check, load_known
import importlib
base = Program()
name = sys.argv[1]
if name == 'base':
    prog = base
else:
    ov = apply_unified(base, open(os.path.join(HERE, name, 'patch.diff')).read())
    prog = Program(overrides=ov)
from pjx.normal import normalised
prog = normalised(prog)
known = {(k['rule'], k['function'], k['construct']) for k in load_known() if k.get('status') == 'known'}
for p in sys.argv[2:]:
    mod = importlib.import_module(f'pjx.props.{p.lower()}')
    ck = Check(p, 'quick', 0)
    try:
        from pjx.props import run_check
        run_check(mod, ck, prog)
    except AnalysisError as e:
        print(p, 'ANALYSIS-ERROR:', e)
        continue
    except Exception:
        traceback.print_exc()
        continue
    fs = [f for f in ck.findings if f.key not in known]
    print(p, 'SILENT' if not fs else f'{len(fs)} finding(s)')
    for f in fs:
        print(f'   {f.file}:{f.line}: [{f.rule}] {f.func}: {f.message[:260]}')
        for w in f.witness[:6]:
            print('        ' + w[:200])
