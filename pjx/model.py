"""Program model of /repo's pjrpc package: modules, classes, functions, name resolution.

Everything here is computed from the source text of the current working tree with ``ast``.
Nothing imports or executes pjrpc.
"""
from __future__ import annotations

import ast
import builtins
import os
from dataclasses import dataclass, field
from typing import Dict, Iterator, List, Optional, Tuple

REPO = os.environ.get('PJX_REPO', '/repo')
PKG = 'pjrpc'


class AnalysisError(Exception):
    """The analysis cannot be carried out (anchor missing, unknown idiom). Never a verdict."""


# ----------------------------------------------------------------------------------------------
# entities
# ----------------------------------------------------------------------------------------------

@dataclass
class Module:
    name: str
    path: str
    rel: str
    source: str
    tree: ast.Module
    is_pkg: bool
    ns: Dict[str, 'Binding'] = field(default_factory=dict)

    def __hash__(self) -> int:
        return hash(self.name)


@dataclass
class Binding:
    kind: str  # 'import' | 'class' | 'func' | 'assign'
    target: object  # dotted str for import; ClassInfo; FuncInfo; ast.expr for assign
    node: Optional[ast.AST] = None


@dataclass(eq=False)
class ClassInfo:
    qualname: str
    name: str
    module: Module
    node: ast.ClassDef
    outer: Optional['ClassInfo'] = None
    methods: Dict[str, 'FuncInfo'] = field(default_factory=dict)
    attrs: Dict[str, ast.expr] = field(default_factory=dict)  # class-level assignments
    attr_ann: Dict[str, ast.expr] = field(default_factory=dict)
    nested: Dict[str, 'ClassInfo'] = field(default_factory=dict)
    base_exprs: List[ast.expr] = field(default_factory=list)
    bases: List[object] = field(default_factory=list)  # ClassInfo or str (external dotted)

    def __repr__(self) -> str:
        return f'<class {self.qualname}>'


@dataclass(eq=False)
class FuncInfo:
    qualname: str
    name: str
    module: Module
    node: ast.AST  # FunctionDef | AsyncFunctionDef | Lambda
    cls: Optional[ClassInfo] = None
    parent: Optional['FuncInfo'] = None
    nested: Dict[str, 'FuncInfo'] = field(default_factory=dict)
    decorators: List[ast.expr] = field(default_factory=list)

    @property
    def is_async(self) -> bool:
        return isinstance(self.node, ast.AsyncFunctionDef)

    @property
    def kind(self) -> str:
        for d in self.decorators:
            n = dotted(d)
            if n in ('classmethod', 'staticmethod', 'property'):
                return n
            if n and n.endswith('.setter'):
                return 'setter'
        return 'method' if self.cls is not None and self.parent is None else 'function'

    @property
    def params(self) -> List[ast.arg]:
        a = self.node.args
        return list(a.posonlyargs) + list(a.args) + ([a.vararg] if a.vararg else []) + list(a.kwonlyargs) + \
            ([a.kwarg] if a.kwarg else [])

    def param_default(self, name: str) -> Optional[ast.expr]:
        a = self.node.args
        pos = list(a.posonlyargs) + list(a.args)
        defaults = [None] * (len(pos) - len(a.defaults)) + list(a.defaults)
        for p, d in zip(pos, defaults):
            if p.arg == name:
                return d
        for p, d in zip(a.kwonlyargs, a.kw_defaults):
            if p.arg == name:
                return d
        return None

    def param_ann(self, name: str) -> Optional[ast.expr]:
        for p in self.params:
            if p.arg == name:
                return p.annotation
        return None

    @property
    def loc(self) -> str:
        return f'{self.module.rel}:{self.node.lineno}'

    def __repr__(self) -> str:
        return f'<func {self.qualname}>'


def dotted(e: ast.AST) -> Optional[str]:
    """'a.b.c' for Name/Attribute chains, else None."""
    parts: List[str] = []
    while isinstance(e, ast.Attribute):
        parts.append(e.attr)
        e = e.value
    if isinstance(e, ast.Name):
        parts.append(e.id)
        return '.'.join(reversed(parts))
    return None


def src(node: ast.AST) -> str:
    try:
        return ast.unparse(node)
    except Exception:  # pragma: no cover
        return '<?>'


def norm(node: ast.AST) -> str:
    """Normalised text of a construct (used as a stable key: no line numbers, no layout)."""
    return ' '.join(src(node).split())


# ----------------------------------------------------------------------------------------------
# exception hierarchy helpers for builtins / stdlib (introspection of the *standard library only*)
# ----------------------------------------------------------------------------------------------

_STDLIB_EXC: Dict[str, type] = {}


def _stdlib_exc(q: str) -> Optional[type]:
    if q in _STDLIB_EXC:
        return _STDLIB_EXC[q]
    obj: Optional[type] = None
    if '.' not in q:
        cand = getattr(builtins, q, None)
        if isinstance(cand, type) and issubclass(cand, BaseException):
            obj = cand
    else:
        modname, _, attr = q.rpartition('.')
        if modname in ('json', 'json.decoder', 'asyncio', 'asyncio.exceptions', 'concurrent.futures'):
            import importlib
            try:
                cand = getattr(importlib.import_module(modname), attr, None)
            except Exception:
                cand = None
            if isinstance(cand, type) and issubclass(cand, BaseException):
                obj = cand
    if obj is not None:
        _STDLIB_EXC[q] = obj
    return obj


# third-party exception classes the integrations use: name -> bases (trusted four-line table)
THIRD_PARTY_EXC: Dict[str, Tuple[str, ...]] = {
    'werkzeug.exceptions.HTTPException': ('Exception',),
    'werkzeug.exceptions.UnsupportedMediaType': ('werkzeug.exceptions.HTTPException',),
    'werkzeug.exceptions.BadRequest': ('werkzeug.exceptions.HTTPException',),
    'aiohttp.web.HTTPException': ('Exception',),
    'aiohttp.web.HTTPUnsupportedMediaType': ('aiohttp.web.HTTPException',),
    'aiohttp.web.HTTPBadRequest': ('aiohttp.web.HTTPException',),
    'jsonschema.ValidationError': ('Exception',),
    'jsonschema.exceptions.ValidationError': ('Exception',),
    'pydantic.ValidationError': ('ValueError',),
}


# ----------------------------------------------------------------------------------------------
# program
# ----------------------------------------------------------------------------------------------

_PARSE_CACHE: Dict[Tuple[str, int], ast.Module] = {}   # trees are never mutated after parsing


class Program:
    def __init__(self, repo: str = REPO, pkg: str = PKG, overrides: Optional[Dict[str, str]] = None,
                 tree_overrides: Optional[Dict[str, ast.Module]] = None):
        self.repo = repo
        self.pkg = pkg
        self.overrides = overrides or {}
        self.tree_overrides = tree_overrides or {}   # rel -> already-built module tree (used by the helper inliner)
        self.modules: Dict[str, Module] = {}
        self.classes: Dict[str, ClassInfo] = {}
        self.funcs: Dict[str, FuncInfo] = {}
        self._load()
        self._link()

    # -- loading -------------------------------------------------------------------------------
    def _load(self) -> None:
        root = os.path.join(self.repo, self.pkg)
        if not os.path.isdir(root):
            raise AnalysisError(f'package directory {root} not found')
        for dirpath, dirnames, filenames in os.walk(root):
            dirnames[:] = sorted(d for d in dirnames if d != '__pycache__')
            for fn in sorted(filenames):
                if not fn.endswith('.py'):
                    continue
                path = os.path.join(dirpath, fn)
                rel = os.path.relpath(path, self.repo)
                parts = rel[:-3].split(os.sep)
                is_pkg = parts[-1] == '__init__'
                if is_pkg:
                    parts = parts[:-1]
                name = '.'.join(parts)
                if rel in self.overrides:
                    source = self.overrides[rel]
                else:
                    with open(path, encoding='utf-8') as f:
                        source = f.read()
                if rel in self.tree_overrides:
                    tree = self.tree_overrides[rel]
                else:
                    ck_ = (path, hash(source))
                    tree = _PARSE_CACHE.get(ck_)
                    if tree is None:
                        try:
                            tree = ast.parse(source, filename=path)
                        except SyntaxError as e:
                            raise AnalysisError(f'{rel}: does not parse: {e}')
                        _PARSE_CACHE[ck_] = tree
                self.modules[name] = Module(name, path, rel, source, tree, is_pkg)
        # files that exist only in the overrides (a patch that adds a module)
        known_rel = {m.rel for m in self.modules.values()}
        for rel, source in sorted(self.overrides.items()):
            if rel in known_rel or not rel.endswith('.py') or not rel.startswith(self.pkg + os.sep):
                continue
            parts = rel[:-3].split(os.sep)
            is_pkg = parts[-1] == '__init__'
            if is_pkg:
                parts = parts[:-1]
            name = '.'.join(parts)
            path = os.path.join(self.repo, rel)
            if rel in self.tree_overrides:
                tree = self.tree_overrides[rel]
            else:
                try:
                    tree = ast.parse(source, filename=path)
                except SyntaxError as e:
                    raise AnalysisError(f'{rel}: does not parse: {e}')
            self.modules[name] = Module(name, path, rel, source, tree, is_pkg)
        for m in self.modules.values():
            self._index_module(m)

    def _index_module(self, m: Module) -> None:
        def abs_from(node: ast.ImportFrom) -> str:
            if node.level == 0:
                return node.module or ''
            base = m.name.split('.') if m.is_pkg else m.name.split('.')[:-1]
            if node.level > 1:
                base = base[:-(node.level - 1)]
            return '.'.join(base + ([node.module] if node.module else []))

        def visit_body(body: List[ast.stmt]) -> None:
            for st in body:
                if isinstance(st, ast.Import):
                    for a in st.names:
                        if a.asname:
                            m.ns[a.asname] = Binding('import', a.name, st)
                        else:
                            top = a.name.split('.')[0]
                            m.ns[top] = Binding('import', top, st)
                elif isinstance(st, ast.ImportFrom):
                    base = abs_from(st)
                    for a in st.names:
                        m.ns[a.asname or a.name] = Binding('import', f'{base}.{a.name}' if base else a.name, st)
                elif isinstance(st, ast.ClassDef):
                    m.ns[st.name] = Binding('class', self._index_class(m, st, None, m.name), st)
                elif isinstance(st, (ast.FunctionDef, ast.AsyncFunctionDef)):
                    m.ns[st.name] = Binding('func', self._index_func(m, st, None, None, m.name), st)
                elif isinstance(st, ast.Assign):
                    for t in st.targets:
                        if isinstance(t, ast.Name):
                            m.ns[t.id] = Binding('assign', st.value, st)
                elif isinstance(st, ast.AnnAssign) and isinstance(st.target, ast.Name) and st.value is not None:
                    m.ns[st.target.id] = Binding('assign', st.value, st)
                elif isinstance(st, ast.Try):
                    visit_body(st.body)
                elif isinstance(st, ast.If):
                    visit_body(st.body)
                    visit_body(st.orelse)

        visit_body(m.tree.body)

    def _index_class(self, m: Module, node: ast.ClassDef, outer: Optional[ClassInfo], prefix: str) -> ClassInfo:
        q = f'{prefix}.{node.name}'
        ci = ClassInfo(q, node.name, m, node, outer=outer, base_exprs=list(node.bases))
        self.classes[q] = ci
        for st in node.body:
            if isinstance(st, (ast.FunctionDef, ast.AsyncFunctionDef)):
                fi = self._index_func(m, st, ci, None, q)
                # property setter shares the name; keep getter under the name, setter under name.setter
                if fi.kind == 'setter':
                    ci.methods[st.name + '.setter'] = fi
                else:
                    ci.methods[st.name] = fi
            elif isinstance(st, ast.ClassDef):
                ci.nested[st.name] = self._index_class(m, st, ci, q)
            elif isinstance(st, ast.Assign):
                for t in st.targets:
                    if isinstance(t, ast.Name):
                        ci.attrs[t.id] = st.value
            elif isinstance(st, ast.AnnAssign) and isinstance(st.target, ast.Name):
                ci.attr_ann[st.target.id] = st.annotation
                if st.value is not None:
                    ci.attrs[st.target.id] = st.value
        return ci

    def _index_func(self, m: Module, node: ast.AST, cls: Optional[ClassInfo], parent: Optional[FuncInfo],
                    prefix: str) -> FuncInfo:
        q = f'{prefix}.{node.name}'
        decos = list(getattr(node, 'decorator_list', []))
        if q in self.funcs:  # property getter/setter pairs: disambiguate
            q2 = q + '.setter'
            q = q2 if q2 not in self.funcs else f'{q}@{node.lineno}'
        fi = FuncInfo(q, node.name, m, node, cls=cls, parent=parent, decorators=decos)
        self.funcs[q] = fi

        def scan(body: List[ast.stmt]) -> None:
            for st in body:
                if isinstance(st, (ast.FunctionDef, ast.AsyncFunctionDef)):
                    fi.nested[st.name] = self._index_func(m, st, cls, fi, q)
                elif isinstance(st, ast.ClassDef):
                    pass
                else:
                    for fld in ('body', 'orelse', 'finalbody'):
                        sub = getattr(st, fld, None)
                        if isinstance(sub, list) and sub and isinstance(sub[0], ast.stmt):
                            scan(sub)
                    if isinstance(st, ast.Try):
                        for h in st.handlers:
                            scan(h.body)
        scan(node.body)
        return fi

    # -- linking -------------------------------------------------------------------------------
    def _link(self) -> None:
        for ci in self.classes.values():
            for b in ci.base_exprs:
                if isinstance(b, ast.Subscript):  # Generic[...] / Tracer[ContextType]
                    b = b.value
                ent = self.resolve(ci.module, b, cls_scope=ci.outer)
                if isinstance(ent, ClassInfo):
                    ci.bases.append(ent)
                elif isinstance(ent, str):
                    ci.bases.append(ent)
                else:
                    d = dotted(b)
                    ci.bases.append(d or '<?>')

    # -- resolution ----------------------------------------------------------------------------
    def module_attr(self, m: Module, name: str, _depth: int = 0) -> object:
        """Resolve attribute `name` of module `m` to ClassInfo / FuncInfo / Module / external dotted str /
        ('value', Module, expr) / None."""
        if _depth > 12:
            return None
        b = m.ns.get(name)
        if b is None:
            sub = self.modules.get(f'{m.name}.{name}')
            return sub
        if b.kind == 'class' or b.kind == 'func':
            return b.target
        if b.kind == 'import':
            return self.resolve_dotted_abs(str(b.target), _depth + 1)
        if b.kind == 'assign':
            e = b.target
            d = dotted(e) if isinstance(e, ast.AST) else None
            if d and d != name:
                r = self.resolve(m, e, _depth=_depth + 1)
                if r is not None and not (isinstance(r, tuple) and r[0] == 'value'):
                    return r
            return ('value', m, e)
        return None

    def resolve_dotted_abs(self, d: str, _depth: int = 0) -> object:
        """Resolve an absolute dotted name ('pjrpc.common.exceptions.ParseError', 'json.loads')."""
        parts = d.split('.')
        if parts[0] != self.pkg:
            return d  # external
        # longest module prefix
        for i in range(len(parts), 0, -1):
            mn = '.'.join(parts[:i])
            if mn in self.modules:
                cur: object = self.modules[mn]
                rest = parts[i:]
                break
        else:
            return d
        for p in rest:
            cur = self.attr_of(cur, p, _depth)
            if cur is None:
                return None
        return cur

    def attr_of(self, ent: object, name: str, _depth: int = 0) -> object:
        if isinstance(ent, Module):
            return self.module_attr(ent, name, _depth + 1)
        if isinstance(ent, ClassInfo):
            m = self.find_method(ent, name)
            if m is not None:
                return m
            if name in ent.nested:
                return ent.nested[name]
            for c in self.mro(ent):
                if isinstance(c, ClassInfo) and name in c.attrs:
                    return ('value', c.module, c.attrs[name])
            return None
        if isinstance(ent, str):
            return f'{ent}.{name}'
        return None

    def resolve(self, m: Module, e: ast.AST, cls_scope: Optional[ClassInfo] = None, _depth: int = 0) -> object:
        """Resolve a Name/Attribute chain at module level (no locals)."""
        d = dotted(e)
        if d is None:
            return None
        parts = d.split('.')
        cur: object = None
        sc = cls_scope
        while sc is not None and cur is None:
            if parts[0] in sc.nested:
                cur = sc.nested[parts[0]]
            elif parts[0] == sc.name:
                cur = sc
            sc = sc.outer
        if cur is None:
            if parts[0] in m.ns or f'{m.name}.{parts[0]}' in self.modules:
                cur = self.module_attr(m, parts[0], _depth)
            elif hasattr(builtins, parts[0]):
                cur = parts[0]
            else:
                return None
        for p in parts[1:]:
            cur = self.attr_of(cur, p, _depth)
            if cur is None:
                return None
        return cur

    # -- class hierarchy -----------------------------------------------------------------------
    def mro(self, ci: ClassInfo) -> List[object]:
        out: List[object] = []
        seen = set()

        def go(c: object) -> None:
            key = c.qualname if isinstance(c, ClassInfo) else c
            if key in seen:
                return
            seen.add(key)
            out.append(c)
            if isinstance(c, ClassInfo):
                for b in c.bases:
                    go(b)
        go(ci)
        return out

    def find_method(self, ci: ClassInfo, name: str) -> Optional[FuncInfo]:
        for c in self.mro(ci):
            if isinstance(c, ClassInfo) and name in c.methods:
                return c.methods[name]
        return None

    def defines(self, ci: ClassInfo, name: str) -> bool:
        """Does the class or a repo base define method `name`?"""
        return self.find_method(ci, name) is not None

    def subclasses(self, ci: ClassInfo, strict: bool = False) -> List[ClassInfo]:
        out = []
        for c in self.classes.values():
            if c is ci:
                if not strict:
                    out.append(c)
                continue
            if ci in [x for x in self.mro(c) if isinstance(x, ClassInfo)]:
                out.append(c)
        return out

    def exc_name(self, ent: object) -> Optional[str]:
        if isinstance(ent, ClassInfo):
            return ent.qualname
        if isinstance(ent, str):
            return CANON_EXT.get(ent, ent)
        return None

    def exc_bases(self, q: str) -> List[str]:
        """All (transitive) base-class names of exception class `q`, including itself."""
        out: List[str] = []
        seen = set()

        def go(n: str) -> None:
            n = CANON_EXT.get(n, n)
            if n in seen:
                return
            seen.add(n)
            out.append(n)
            ci = self.classes.get(n)
            if ci is not None:
                for b in ci.bases:
                    go(b.qualname if isinstance(b, ClassInfo) else str(b))
                return
            t = _stdlib_exc(n)
            if t is not None:
                for b in t.__mro__[1:]:
                    if b is object:
                        continue
                    go(b.__name__ if b.__module__ == 'builtins' else f'{b.__module__}.{b.__name__}')
                return
            for b in THIRD_PARTY_EXC.get(n, ()):  # unknown external: assume Exception
                go(b)
            if n not in THIRD_PARTY_EXC and n not in ('BaseException', 'object'):
                go('Exception')
        go(q)
        if 'BaseException' not in out and q != 'object':
            out.append('BaseException')
        return out

    def exc_subclass(self, a: str, b: str) -> bool:
        a = a.rstrip('+')
        b = b.rstrip('+')
        return CANON_EXT.get(b, b) in self.exc_bases(a)

    # -- iteration -----------------------------------------------------------------------------
    def iter_funcs(self) -> Iterator[FuncInfo]:
        return iter(self.funcs.values())

    def func(self, q: str) -> FuncInfo:
        f = self.funcs.get(q)
        if f is None:
            raise AnalysisError(f'anchor function {q} not found in the current tree')
        return f

    def cls(self, q: str) -> ClassInfo:
        c = self.classes.get(q)
        if c is None:
            raise AnalysisError(f'anchor class {q} not found in the current tree')
        return c


CANON_EXT = {
    'json.decoder.JSONDecodeError': 'json.JSONDecodeError',
    'asyncio.exceptions.CancelledError': 'asyncio.CancelledError',
    'jsonschema.exceptions.ValidationError': 'jsonschema.ValidationError',
    'aiohttp.web_exceptions.HTTPException': 'aiohttp.web.HTTPException',
}


_PROGRAM: Optional[Program] = None


def program() -> Program:
    global _PROGRAM
    if _PROGRAM is None:
        _PROGRAM = Program()
    return _PROGRAM
