"""Form-agnostic value flow inside one function.

The rules ask "which expressions can this value be, and under which conditions?" and "how is this sequence built?".
The same answer must come out whether the source says

    x = A if c else B          |  if c: x = A          |  x = B
                               |  else: x = B          |  if c: x = A

or   [f(t) for t in it if p(t)]   |   out = []
                                  |   for t in it:
                                  |       if not p(t): continue
                                  |       out.append(f(t))

so both questions are answered from reaching definitions on the CFG plus the guards of the paths the definitions
travel, never from the statement shapes.
"""
from __future__ import annotations

import ast
from dataclasses import dataclass, field
from typing import Dict, FrozenSet, List, Optional, Sequence, Set, Tuple

from .cfg import CFG, Edge, Node
from .model import AnalysisError, dotted, norm
from .util import assigned_names, guard_edges, node_exprs, walk_no_defs

Guard = Tuple[ast.expr, bool]      # (atomic condition, polarity it has on this path)


@dataclass
class Alt:
    """One thing a value can be."""
    expr: ast.expr                   # leaf expression (never an IfExp; a Name only if it is a parameter / unresolved)
    guards: List[Guard] = field(default_factory=list)
    node: Optional[Node] = None      # CFG node at which `expr` is evaluated
    names: Tuple[str, ...] = ()      # local variables the value travelled through
    built_def: Optional[Node] = None  # for an accumulator variable: the node that initialised it

    def text(self) -> str:
        g = ' and '.join(('' if pol else 'not ') + norm(c) for c, pol in self.guards)
        return norm(self.expr) + (f'  [when {g}]' if g else '')


class Flow:
    def __init__(self, cfg: CFG):
        self.cfg = cfg
        self._rd: Optional[Dict[int, Dict[str, FrozenSet[int]]]] = None
        self._defs: Dict[str, List[Node]] = {}
        for n in cfg.nodes:
            for v in assigned_names(n):
                if '.' not in v:
                    self._defs.setdefault(v, []).append(n)
        self._guards: Dict[int, List[Edge]] = {}

    # -- reaching definitions ---------------------------------------------------------------------
    def _reaching(self) -> Dict[int, Dict[str, FrozenSet[int]]]:
        if self._rd is not None:
            return self._rd
        cfg = self.cfg
        IN: Dict[int, Dict[str, FrozenSet[int]]] = {n.id: {} for n in cfg.nodes}
        work = [cfg.entry]
        gen: Dict[int, Set[str]] = {n.id: {v for v in assigned_names(n) if '.' not in v} for n in cfg.nodes}
        seen_once: Set[int] = set()
        # exception edges exist in the CFG only where a `raises` oracle was supplied; for reaching definitions every node of a
        # try body may (conservatively) transfer to each of its handlers with the definitions that reached it
        extra: Dict[int, List[object]] = {}
        for n in cfg.nodes:
            if n.kind in ('entry', 'exit', 'raise', 'handler'):
                continue
            have = {e.dst.id for e in cfg.succ[n.id] if e.label == 'exc'}
            for fr in n.frames:
                if fr[0] == 'try':
                    for hn in fr[2]:
                        if hn.id not in have:
                            extra.setdefault(n.id, []).append(hn)
        while work:
            n = work.pop()
            out = dict(IN[n.id])
            for v in gen[n.id]:
                out[v] = frozenset([n.id])
            for hn in extra.get(n.id, ()):
                tgt = IN[hn.id]     # type: ignore[attr-defined]
                changed = hn.id not in seen_once     # type: ignore[attr-defined]
                seen_once.add(hn.id)     # type: ignore[attr-defined]
                for v, ds in IN[n.id].items():
                    old = tgt.get(v, frozenset())
                    new = old | ds
                    if new != old:
                        tgt[v] = new
                        changed = True
                if changed:
                    work.append(hn)     # type: ignore[arg-type]
            for e in cfg.succ[n.id]:
                tgt = IN[e.dst.id]
                changed = e.dst.id not in seen_once
                seen_once.add(e.dst.id)
                # an exception edge leaves before the assignment of the raising node took effect
                src_out = out if e.label != 'exc' else IN[n.id]
                for v, ds in src_out.items():
                    old = tgt.get(v, frozenset())
                    new = old | ds
                    if new != old:
                        tgt[v] = new
                        changed = True
                if changed:
                    work.append(e.dst)
        self._rd = IN
        return IN

    def defs_at(self, n: Node, var: str) -> List[Node]:
        ids = self._reaching()[n.id].get(var, frozenset())
        return [self.cfg.nodes[i] for i in sorted(ids)]

    def guards_of(self, n: Node) -> List[Edge]:
        g = self._guards.get(n.id)
        if g is None:
            g = self._guards[n.id] = guard_edges(self.cfg, n)
        return g

    def path_guards(self, d: Node, u: Node, var: str) -> List[Edge]:
        """Cond edges every definition-clear path of `var` from d to u takes."""
        cfg = self.cfg
        others = [x for x in self._defs.get(var, []) if x is not d]
        out: List[Edge] = []
        base = set()
        for e in cfg.succ[d.id]:
            if e.label != 'exc':
                base |= {e.dst.id} | cfg.reachable(e.dst, avoid_nodes=[x for x in others if x is not u])
        if u.id not in base and u is not d:
            return out
        for c in cfg.nodes:
            if c.kind != 'cond' or c.id not in base and c is not d:
                continue
            for e in cfg.succ[c.id]:
                if e.label not in ('T', 'F'):
                    continue
                r: Set[int] = set()
                for s in cfg.succ[d.id]:
                    if s.label == 'exc' or s is e:
                        continue
                    if s.dst in others and s.dst is not u:
                        continue
                    r |= {s.dst.id} | cfg.reachable(s.dst, avoid_nodes=[x for x in others if x is not u], avoid_edges=[e])
                if u.id not in r:
                    out.append(e)
        return out

    # -- what was assigned --------------------------------------------------------------------------
    @staticmethod
    def def_value(d: Node, var: str) -> Tuple[str, Optional[ast.expr]]:
        """('expr', e) | ('elem', iterable) for loop targets | ('unknown', None)."""
        a = d.ast
        if d.kind == 'next':
            if isinstance(a.target, ast.Name) and a.target.id == var:
                return 'elem', a.iter
            return 'unknown', None
        if d.kind in ('with', 'handler'):
            return 'unknown', None
        if isinstance(a, ast.Assign):
            for t in a.targets:
                if isinstance(t, ast.Name) and t.id == var:
                    return 'expr', a.value
                if isinstance(t, (ast.Tuple, ast.List)) and isinstance(a.value, (ast.Tuple, ast.List)) and \
                        len(t.elts) == len(a.value.elts) and not any(isinstance(x, ast.Starred) for x in list(t.elts) + list(a.value.elts)):
                    for te, ve in zip(t.elts, a.value.elts):
                        if isinstance(te, ast.Name) and te.id == var:
                            return 'expr', ve
            return 'unknown', None
        if isinstance(a, ast.AnnAssign) and isinstance(a.target, ast.Name) and a.target.id == var and a.value is not None:
            return 'expr', a.value
        for frag in node_exprs(d):
            for x in walk_no_defs(frag):
                if isinstance(x, ast.NamedExpr) and x.target.id == var:
                    return 'expr', x.value
        return 'unknown', None

    # -- value alternatives ---------------------------------------------------------------------------
    def alts(self, n: Node, e: ast.expr, _depth: int = 0, _seen: Optional[Set[Tuple[int, str]]] = None,
             boolops: bool = False) -> List[Alt]:
        """Leaf alternatives of expression `e` evaluated at node `n` (guards are relative to the function entry)."""
        seen = _seen if _seen is not None else set()
        base = [(g.src.ast, g.label == 'T') for g in self.guards_of(n)]
        return [Alt(a.expr, _dedup(expand_flag_guards(self.cfg.func, base + a.guards)), a.node, a.names, a.built_def) for a in self._alts(n, e, _depth, seen, boolops)]

    def _alts(self, n: Node, e: ast.expr, depth: int, seen: Set[Tuple[int, str]], boolops: bool) -> List[Alt]:
        if depth > 8:
            return [Alt(e, [], n)]
        if isinstance(e, ast.IfExp):
            out = []
            for a in self._alts(n, e.body, depth + 1, seen, boolops):
                out.append(Alt(a.expr, _cond_guards(e.test, True) + a.guards, a.node, a.names, a.built_def))
            for a in self._alts(n, e.orelse, depth + 1, seen, boolops):
                out.append(Alt(a.expr, _cond_guards(e.test, False) + a.guards, a.node, a.names, a.built_def))
            return out
        if boolops and isinstance(e, ast.BoolOp) and isinstance(e.op, ast.Or) and len(e.values) == 2:
            out = [Alt(a.expr, _cond_guards(e.values[0], True) + a.guards, a.node) for a in self._alts(n, e.values[0], depth + 1, seen, boolops)]
            out += [Alt(a.expr, _cond_guards(e.values[0], False) + a.guards, a.node) for a in self._alts(n, e.values[1], depth + 1, seen, boolops)]
            return out
        if isinstance(e, ast.Call) and dotted(e.func) in ('cast', 'typing.cast', 't.cast') and len(e.args) == 2:
            return self._alts(n, e.args[1], depth + 1, seen, boolops)
        if isinstance(e, ast.NamedExpr):
            return self._alts(n, e.value, depth + 1, seen, boolops)
        if isinstance(e, ast.Await) and isinstance(e.value, (ast.Name, ast.IfExp)):
            # awaiting a value held in a local: the value that flows on is the awaited result of what the local holds
            return self._alts(n, e.value, depth + 1, seen, boolops)
        if isinstance(e, ast.Name) and isinstance(e.ctx, ast.Load) and e.id in self._defs:
            ds = self.defs_at(n, e.id)
            # a use inside the defining node (x = f(x)) sees the definitions reaching the node, which is what IN holds
            if not ds:
                return [Alt(e, [], n)]
            out = []
            for d in ds:
                if (d.id, e.id) in seen:
                    out.append(Alt(e, [], n))
                    continue
                kind, v = self.def_value(d, e.id)
                if kind == 'expr' and v is not None and _is_empty_container(v) and self._mutated_between(d, n, e.id):
                    kind = 'built'        # an accumulator: the Name stands for what the loops put into it
                pg = [(g.src.ast, g.label == 'T') for g in self.path_guards(d, n, e.id)]
                dg = [(g.src.ast, g.label == 'T') for g in self.guards_of(d)]
                if kind != 'expr' or v is None:
                    out.append(Alt(ast.copy_location(ast.Name(id=e.id, ctx=ast.Load()), e), dg + pg, n if kind == 'built' else d,
                                   (), d if kind == 'built' else None))
                    continue
                for a in self._alts(d, v, depth + 1, seen | {(d.id, e.id)}, boolops):
                    out.append(Alt(a.expr, dg + pg + a.guards, a.node, (e.id,) + a.names, a.built_def))
            # is the variable possibly undefined / a parameter as well?  (parameters have no def node)
            return out
        return [Alt(e, [], n)]

    def _mutated_between(self, d: Node, n: Node, var: str) -> bool:
        cfg = self.cfg
        after = cfg.reachable(d)
        for m in cfg.stmt_nodes():
            if m.id not in after or m is d:
                continue
            if n.id not in cfg.reachable(m) and m is not n:
                continue
            for frag in node_exprs(m):
                for x in walk_no_defs(frag):
                    if isinstance(x, ast.Call) and isinstance(x.func, ast.Attribute) and dotted(x.func.value) == var and \
                            x.func.attr in ('append', 'extend', 'insert', 'update', 'setdefault', 'add', '__setitem__'):
                        return True
                    if isinstance(x, ast.Subscript) and isinstance(x.ctx, ast.Store) and dotted(x.value) == var:
                        return True
            if isinstance(m.ast, ast.AugAssign) and dotted(m.ast.target) == var:
                return True
        return False

    # -- sequences ------------------------------------------------------------------------------------
    def seq(self, n: Node, e: ast.expr, _depth: int = 0) -> List['SeqSrc']:
        """How the sequence value `e` (evaluated at n) is built."""
        out: List[SeqSrc] = []
        for a in self.alts(n, e):
            out += self._seq_leaf(a, _depth)
        return out

    def _seq_leaf(self, a: Alt, depth: int) -> List['SeqSrc']:
        e, n = a.expr, a.node or self.cfg.entry
        if depth > 4:
            return [SeqSrc('opaque', expr=e, guards=a.guards, node=n)]
        if isinstance(e, ast.Await):
            e = e.value
        if isinstance(e, (ast.Tuple, ast.List)):
            if any(isinstance(x, ast.Starred) for x in e.elts):
                out: List[SeqSrc] = []
                for x in e.elts:
                    if isinstance(x, ast.Starred):
                        out += [s.under(a.guards) for s in self.seq(n, x.value, depth + 1)]
                    else:
                        out.append(SeqSrc('literal', elts=[x], guards=a.guards, node=n))
                return out
            return [SeqSrc('literal', elts=list(e.elts), guards=a.guards, node=n)]
        if isinstance(e, (ast.ListComp, ast.GeneratorExp, ast.SetComp)):
            if len(e.generators) != 1:
                return [SeqSrc('opaque', expr=e, guards=a.guards, node=n)]
            g = e.generators[0]
            filters: List[Guard] = []
            for c in g.ifs:
                filters += _cond_guards(c, True)
            return [SeqSrc('iter', iter=g.iter, target=g.target, elt=[Alt(x.expr, x.guards, n) for x in _expand_ifexp(e.elt)],
                           filters=filters, total=not g.ifs, guards=a.guards, node=n, lazy=isinstance(e, ast.GeneratorExp), comp=e)]
        if isinstance(e, ast.Call):
            fn = dotted(e.func)
            if fn in ('tuple', 'list', 'sorted', 'reversed') and len(e.args) == 1 and not e.keywords:
                inner = self.seq(n, e.args[0], depth + 1)
                for s in inner:
                    s.guards = _dedup(a.guards + s.guards)
                    if fn in ('tuple', 'list'):
                        s.lazy = False
                    else:
                        s.reordered = fn
                return inner
            if fn in ('asyncio.gather', 'gather') and len(e.args) == 1 and isinstance(e.args[0], ast.Starred):
                inner = self.seq(n, e.args[0].value, depth + 1)
                for s in inner:
                    s.guards = _dedup(a.guards + s.guards)
                    s.lazy = False
                    s.via = 'gather'
                return inner
            if fn == 'map' and len(e.args) == 2 and not e.keywords:
                # map(F, X): one F(x) per element of X, in order
                tgt = ast.copy_location(ast.Name(id='_elt', ctx=ast.Store()), e)
                call = ast.copy_location(ast.Call(func=e.args[0], args=[ast.copy_location(ast.Name(id='_elt', ctx=ast.Load()), e)], keywords=[]), e)
                elt_expr: ast.expr = call
                # map(helper, xs) with an expression-like repo helper: the element is the helper's expression
                try:
                    from .inline import _Inliner
                    from .model import FuncInfo as _FI
                    ent = self.cfg.prog.resolve(self.cfg.func.module, e.args[0])
                    if isinstance(ent, _FI) and ent.cls is None:
                        inl = _Inliner(self.cfg.prog, self.cfg.func, set(), [], False)
                        ex = inl._as_expression(call, ent, False)
                        if ex is not None:
                            elt_expr = ex
                except Exception:
                    elt_expr = call
                return [SeqSrc('iter', iter=e.args[1], target=tgt, elt=[Alt(x.expr, x.guards, n) for x in _expand_ifexp(elt_expr)], total=True,
                               guards=a.guards, node=n, lazy=True, comp=e)]
            if fn == 'filter' and len(e.args) == 2 and not e.keywords:
                # filter(lambda p: C(p), X)  ==  (p for p in X if C(p));  filter(None, X)  ==  (p for p in X if p)
                F = e.args[0]
                pn: Optional[str] = None
                body: Optional[ast.expr] = None
                if isinstance(F, ast.Lambda) and len(F.args.args) == 1 and not F.args.posonlyargs and not F.args.kwonlyargs and \
                        not F.args.vararg and not F.args.kwarg and not F.args.defaults:
                    pn, body = F.args.args[0].arg, F.body
                elif isinstance(F, ast.Constant) and F.value is None:
                    pn = '_elt'
                    body = ast.copy_location(ast.Name(id='_elt', ctx=ast.Load()), e)
                elif dotted(F) is not None:
                    # filter(pred, X)  ==  (p for p in X if pred(p))
                    pn = '_elt'
                    body = ast.copy_location(ast.Call(func=F, args=[ast.copy_location(ast.Name(id='_elt', ctx=ast.Load()), e)], keywords=[]), e)
                    ast.fix_missing_locations(body)
                if pn is not None and body is not None:
                    tgt = ast.copy_location(ast.Name(id=pn, ctx=ast.Store()), e)
                    ld = ast.copy_location(ast.Name(id=pn, ctx=ast.Load()), e)
                    return [SeqSrc('iter', iter=e.args[1], target=tgt, elt=[Alt(ld, [], n)], filters=[(body, True)], total=False,
                                   guards=a.guards, node=n, lazy=True, comp=e)]
            if fn in ('filter',) and len(e.args) == 2:
                inner = self.seq(n, e.args[1], depth + 1)
                for s in inner:
                    s.total = False
                    s.filters = s.filters + [(e.args[0], True)]
                    s.lazy = True
                return inner
        if isinstance(e, ast.Name):
            built = self._built_list(n, e.id, a.guards, a.built_def)
            if built is not None:
                return built
        return [SeqSrc('opaque', expr=e, guards=a.guards, node=n)]

    def _built_list(self, n: Node, var: str, guards: List[Guard], d: Optional[Node] = None) -> Optional[List['SeqSrc']]:
        """`var = []` followed by loops that append to it."""
        cfg = self.cfg
        if d is None:
            defs = self.defs_at(n, var)
            if len(defs) != 1:
                return None
            d = defs[0]
        others = [x for x in self._defs.get(var, []) if x is not d]
        kind, v = self.def_value(d, var)
        if kind != 'expr' or v is None:
            return None
        empty = (isinstance(v, (ast.List, ast.Tuple)) and not v.elts) or \
            (isinstance(v, ast.Call) and dotted(v.func) == 'list' and not v.args and not v.keywords)
        if not empty:
            return None
        after = cfg.reachable(d, avoid_nodes=others)
        before_use = {m.id for m in cfg.nodes if n.id in cfg.reachable(m, avoid_nodes=others) or m is n}
        out: List[SeqSrc] = []
        mut_nodes: List[Node] = []
        for m in cfg.stmt_nodes():
            if m.id not in after or m.id not in before_use or m is n:
                continue
            for frag in node_exprs(m):
                for x in walk_no_defs(frag):
                    if isinstance(x, ast.Call) and isinstance(x.func, ast.Attribute) and dotted(x.func.value) == var:
                        if x.func.attr in ('append', 'extend', 'insert', 'remove', 'pop', 'clear', 'sort', 'reverse', '__setitem__'):
                            mut_nodes.append(m)
                    elif isinstance(x, (ast.Subscript,)) and isinstance(x.ctx, (ast.Store, ast.Del)) and dotted(x.value) == var:
                        mut_nodes.append(m)
            if isinstance(m.ast, ast.AugAssign) and dotted(m.ast.target) == var:
                mut_nodes.append(m)
        if not mut_nodes:
            return [SeqSrc('literal', elts=[], guards=guards, node=d)]
        # group the appends by their innermost enclosing for-loop
        loops: Dict[int, List[Node]] = {}
        loop_of: Dict[int, Optional[Node]] = {}
        for m in mut_nodes:
            a = m.ast
            call = a.value if isinstance(a, ast.Expr) else None
            if isinstance(call, ast.Await):
                call = call.value
            if not (isinstance(call, ast.Call) and isinstance(call.func, ast.Attribute) and call.func.attr == 'append'
                    and dotted(call.func.value) == var and len(call.args) == 1 and not call.keywords):
                return None          # some other mutation: not a recognised builder
            lp = self._innermost_loop(m)
            loop_of[m.id] = lp
            loops.setdefault(lp.id if lp is not None else -1, []).append(m)
        for lid, apps in loops.items():
            if lid == -1:
                for m in apps:
                    call = m.ast.value
                    g = [(x.src.ast, x.label == 'T') for x in self.guards_of(m)]
                    out.append(SeqSrc('literal', elts=[call.args[0]], guards=_dedup(guards + g), node=m))
                continue
            nx = cfg.nodes[lid]
            st = nx.ast
            body_edge = [e for e in cfg.succ[nx.id] if e.label == 'body']
            if not body_edge:
                return None
            # every path through the body appends at most once; "total" if exactly once on every path
            start = body_edge[0].dst
            appended_twice = any(nx.id not in cfg.reachable(m, avoid_nodes=[x for x in apps if x is not m]) and
                                 any(x.id in cfg.reachable(m, avoid_nodes=[nx]) for x in apps if x is not m) for m in apps)
            multi = any(any(x.id in cfg.reachable(m, avoid_nodes=[nx]) for x in apps if x is not m) for m in apps)
            if multi:
                return None
            back_without_append = nx.id in ({start.id} | cfg.reachable(start, avoid_nodes=apps, edge_ok=lambda e: e.label != 'exc')) \
                if start not in apps else False
            # a `break` / `return` leaving the loop early truncates the sequence: not a plain builder
            body_nodes = {start.id} | cfg.reachable(start, avoid_nodes=[nx])
            for bid in body_nodes:
                for e in cfg.succ[bid]:
                    if e.label != 'exc' and e.dst.id not in body_nodes and e.dst is not nx:
                        return None
            elts: List[Alt] = []
            filt_sets: List[List[Guard]] = []
            loop_guards = {id(x) for x in self.guards_of(nx)}
            for m in apps:
                call = m.ast.value
                if isinstance(call, ast.Await):
                    call = call.value
                inner_g = [(x.src.ast, x.label == 'T') for x in self.guards_of(m) if id(x) not in loop_guards]
                for al in self._alts(m, call.args[0], 0, set(), False):
                    # guards of definitions inside the loop body are relative to the iteration; drop the loop's own
                    elts.append(Alt(al.expr, _dedup(inner_g + [g for g in al.guards]), m, al.names))
                filt_sets.append(inner_g)
            total = not back_without_append
            filters: List[Guard] = []
            if not total:
                if len(apps) == 1:
                    filters = filt_sets[0]
                else:
                    filters = [(ast.Constant(value='<several conditional appends>'), True)]
            lg = [(x.src.ast, x.label == 'T') for x in self.guards_of(nx)]
            out.append(SeqSrc('iter', iter=st.iter, target=st.target, elt=elts, filters=filters, total=total,
                              guards=_dedup(guards + lg), node=nx, lazy=False, loop=st))
        return out

    def _innermost_loop(self, m: Node) -> Optional[Node]:
        cfg = self.cfg
        best: Optional[Node] = None
        best_size = None
        for nx in cfg.nodes:
            if nx.kind != 'next':
                continue
            body_edge = [e for e in cfg.succ[nx.id] if e.label == 'body']
            if not body_edge:
                continue
            body = {body_edge[0].dst.id} | cfg.reachable(body_edge[0].dst, avoid_nodes=[nx])
            if m.id in body and nx.id in cfg.reachable(m):
                # m inside the loop body (can come back to the loop head)
                st = nx.ast
                inside = any(x is m.ast for b in st.body for x in ast.walk(b))
                if inside and (best_size is None or len(body) < best_size):
                    best, best_size = nx, len(body)
        return best


@dataclass
class SeqSrc:
    kind: str                                   # 'literal' | 'iter' | 'opaque'
    elts: List[ast.expr] = field(default_factory=list)          # literal
    iter: Optional[ast.expr] = None
    target: Optional[ast.expr] = None
    elt: List[Alt] = field(default_factory=list)                # element alternatives (guards relative to the iteration)
    filters: List[Guard] = field(default_factory=list)          # conditions for an element to be included
    total: bool = True                                          # every iteration contributes exactly one element
    guards: List[Guard] = field(default_factory=list)
    node: Optional[Node] = None
    lazy: bool = False
    expr: Optional[ast.expr] = None
    reordered: Optional[str] = None
    via: Optional[str] = None
    comp: Optional[ast.AST] = None
    loop: Optional[ast.AST] = None

    def under(self, guards: List[Guard]) -> 'SeqSrc':
        self.guards = _dedup(guards + self.guards)
        return self

    def text(self) -> str:
        if self.kind == 'literal':
            return '(' + ', '.join(norm(x) for x in self.elts) + ')'
        if self.kind == 'iter':
            f = ' if ' + ' and '.join(('' if p else 'not ') + norm(c) for c, p in self.filters) if self.filters else ''
            return '[' + ' | '.join(a.text() for a in self.elt) + f' for {norm(self.target)} in {norm(self.iter)}{f}]'
        return norm(self.expr) if self.expr is not None else '<?>'


def _is_empty_container(v: ast.expr) -> bool:
    if isinstance(v, (ast.List, ast.Tuple, ast.Set)) and not v.elts:
        return True
    if isinstance(v, ast.Dict) and not v.keys:
        return True
    return isinstance(v, ast.Call) and dotted(v.func) in ('list', 'dict', 'set') and not v.args and not v.keywords


def _cond_guards(c: ast.expr, pol: bool) -> List[Guard]:
    """Decompose a condition known to be `pol` into atomic guards where that is exact."""
    return _cond_guards0(c, pol)


def expand_flag_guards(f, guards: List[Guard]) -> List[Guard]:
    """Replace guards on a boolean flag local (`has_ctx = name is not None`, assigned once) by the guards of its defining
    condition, decomposed where exact."""
    from .util import _flag_expr
    out: List[Guard] = []
    for c, p in guards:
        fe = _flag_expr(f, c) if f is not None else None
        if fe is not None:
            out += expand_flag_guards(f, _cond_guards0(fe, p))
        else:
            out.append((c, p))
    return out


def _cond_guards0(c: ast.expr, pol: bool) -> List[Guard]:
    if isinstance(c, ast.UnaryOp) and isinstance(c.op, ast.Not):
        return _cond_guards(c.operand, not pol)
    if isinstance(c, ast.BoolOp):
        if isinstance(c.op, ast.And) and pol or isinstance(c.op, ast.Or) and not pol:
            out: List[Guard] = []
            for v in c.values:
                out += _cond_guards(v, pol)
            return out
        return [(c, pol)]
    return [(c, pol)]


def _expand_ifexp(e: ast.expr) -> List[Alt]:
    if isinstance(e, ast.IfExp):
        return [Alt(a.expr, _cond_guards(e.test, True) + a.guards) for a in _expand_ifexp(e.body)] + \
               [Alt(a.expr, _cond_guards(e.test, False) + a.guards) for a in _expand_ifexp(e.orelse)]
    return [Alt(e, [])]


def _dedup(gs: List[Guard]) -> List[Guard]:
    seen = set()
    out = []
    for c, p in gs:
        k = (id(c), p)
        k2 = (norm(c), p)
        if k in seen or k2 in seen:
            continue
        seen.add(k)
        seen.add(k2)
        out.append((c, p))
    return out


def guard_holds(guards: List[Guard], pred) -> bool:
    """Is there a guard (cond, polarity) for which pred(cond, polarity) is true?"""
    return any(pred(c, p) for c, p in guards)


_FLOWS: Dict[int, Flow] = {}


def flow_of(cfg: CFG) -> Flow:
    f = _FLOWS.get(id(cfg))
    if f is None or f.cfg is not cfg:
        f = _FLOWS[id(cfg)] = Flow(cfg)
    return f
