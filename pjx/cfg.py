"""Statement-level control-flow graph with exception edges.

Nodes are simple statements, branch conditions (short-circuit operators of `if`/`while` tests are
decomposed), loop heads and handler entries.  Exception edges exist only where the `raises` oracle
gives a non-empty class set for a node; they lead to the innermost handler that may catch the class
(a handler for a *subclass* of the raised class catches "maybe": the residue continues outward) or
to the function's exceptional exit.
"""
from __future__ import annotations

import ast
from typing import Callable, Dict, FrozenSet, Iterable, Iterator, List, Optional, Sequence, Set, Tuple

from .model import AnalysisError, FuncInfo, Program, src

DYNAMIC = '<dynamic>'


class Node:
    __slots__ = ('id', 'kind', 'ast', 'frames', 'handler', 'caught', 'inflow', 'extra')

    def __init__(self, id: int, kind: str, node: Optional[ast.AST]):
        self.id = id
        self.kind = kind      # entry exit raise stmt cond iter next handler with reraise
        self.ast = node
        self.frames: Tuple = ()
        self.handler: Optional['Node'] = None   # enclosing handler entry (for bare raise)
        self.caught: Tuple[str, ...] = ()       # handler: classes named in the except clause
        self.inflow: Set[str] = set()           # handler / reraise: classes that may arrive
        self.extra: Dict = {}

    @property
    def line(self) -> int:
        return getattr(self.ast, 'lineno', 0)

    def __repr__(self) -> str:
        t = src(self.ast).split('\n')[0][:70] if self.ast is not None else ''
        if self.kind == 'next':
            t = 'for ' + src(self.ast.target) + ' in ...'
        if self.kind == 'handler':
            t = 'except ' + ','.join(self.caught)
        return f'<{self.id}:{self.kind}@{self.line} {t}>'


class Edge:
    __slots__ = ('src', 'dst', 'label', 'exc')

    def __init__(self, s: Node, d: Node, label: str = '', exc: FrozenSet[str] = frozenset()):
        self.src = s
        self.dst = d
        self.label = label    # '' T F body exhausted exc
        self.exc = exc

    def __repr__(self) -> str:
        return f'{self.src.id}-{self.label or "."}->{self.dst.id}'


Dangling = List[Tuple[Node, str]]


class CFG:
    def __init__(self, func: FuncInfo, prog: Program,
                 raises: Optional[Callable[['CFG', Node], Set[str]]] = None):
        self.func = func
        self.prog = prog
        self.nodes: List[Node] = []
        self.succ: Dict[int, List[Edge]] = {}
        self.pred: Dict[int, List[Edge]] = {}
        self.by_ast: Dict[int, List[Node]] = {}
        self.entry = self._new('entry', None)
        self.exit = self._new('exit', None)
        self.raise_exit = self._new('raise', None)
        self._raises = raises or default_raises
        self._loop_stack: List[Tuple[Dangling, Node, int]] = []
        body = func.node.body if not isinstance(func.node, ast.Lambda) else [ast.Return(value=func.node.body)]
        out = self._stmts(body, [(self.entry, '')], (), None)
        self._connect(out, self.exit)
        self._exception_edges()

    # -- construction --------------------------------------------------------------------------
    def _new(self, kind: str, node: Optional[ast.AST]) -> Node:
        n = Node(len(self.nodes), kind, node)
        self.nodes.append(n)
        self.succ[n.id] = []
        self.pred[n.id] = []
        if node is not None:
            self.by_ast.setdefault(id(node), []).append(n)
        return n

    def _edge(self, s: Node, d: Node, label: str = '', exc: FrozenSet[str] = frozenset()) -> None:
        for e in self.succ[s.id]:
            if e.dst is d and e.label == label:
                if exc:
                    e.exc = e.exc | exc
                return
        e = Edge(s, d, label, exc)
        self.succ[s.id].append(e)
        self.pred[d.id].append(e)

    def _connect(self, dangling: Dangling, node: Node) -> None:
        for s, label in dangling:
            self._edge(s, node, label)

    def _mk(self, kind: str, node: Optional[ast.AST], incoming: Dangling, frames: Tuple,
            handler: Optional[Node]) -> Node:
        n = self._new(kind, node)
        n.frames = frames
        n.handler = handler
        self._connect(incoming, n)
        return n

    def _cond(self, e: ast.expr, incoming: Dangling, frames: Tuple, handler: Optional[Node]) -> Tuple[Dangling, Dangling]:
        """Build short-circuit condition nodes; returns (true exits, false exits)."""
        if isinstance(e, ast.BoolOp):
            cur = incoming
            t_out: Dangling = []
            f_out: Dangling = []
            for i, v in enumerate(e.values):
                t, f = self._cond(v, cur, frames, handler)
                last = i == len(e.values) - 1
                if isinstance(e.op, ast.And):
                    f_out += f
                    if last:
                        t_out += t
                    else:
                        cur = t
                else:
                    t_out += t
                    if last:
                        f_out += f
                    else:
                        cur = f
            return t_out, f_out
        if isinstance(e, ast.UnaryOp) and isinstance(e.op, ast.Not):
            t, f = self._cond(e.operand, incoming, frames, handler)
            return f, t
        n = self._mk('cond', e, incoming, frames, handler)
        if isinstance(e, ast.Constant):
            return ([(n, 'T')], []) if e.value else ([], [(n, 'F')])
        return [(n, 'T')], [(n, 'F')]

    def _stmts(self, stmts: Sequence[ast.stmt], incoming: Dangling, frames: Tuple, handler: Optional[Node]) -> Dangling:
        cur = incoming
        for st in stmts:
            cur = self._stmt(st, cur, frames, handler)
        return cur

    def _stmt(self, st: ast.stmt, incoming: Dangling, frames: Tuple, handler: Optional[Node]) -> Dangling:
        if isinstance(st, ast.If):
            t, f = self._cond(st.test, incoming, frames, handler)
            out = self._stmts(st.body, t, frames, handler)
            out2 = self._stmts(st.orelse, f, frames, handler) if st.orelse else f
            return out + out2
        if isinstance(st, (ast.For, ast.AsyncFor)):
            it = self._mk('iter', st.iter, incoming, frames, handler)
            nx = self._mk('next', st, [(it, '')], frames, handler)
            breaks: Dangling = []
            self._loop_stack.append((breaks, nx, len(frames)))
            body_out = self._stmts(st.body, [(nx, 'body')], frames, handler)
            self._loop_stack.pop()
            self._connect(body_out, nx)
            out = self._stmts(st.orelse, [(nx, 'exhausted')], frames, handler) if st.orelse else [(nx, 'exhausted')]
            return out + breaks
        if isinstance(st, ast.While):
            head = self._mk('stmt', ast.Pass(), incoming, frames, handler)  # loop head join
            head.extra['loop_head'] = st
            t, f = self._cond(st.test, [(head, '')], frames, handler)
            breaks = []
            self._loop_stack.append((breaks, head, len(frames)))
            body_out = self._stmts(st.body, t, frames, handler)
            self._loop_stack.pop()
            self._connect(body_out, head)
            out = self._stmts(st.orelse, f, frames, handler) if st.orelse else f
            return out + breaks
        if isinstance(st, ast.Break):
            n = self._mk('stmt', st, incoming, frames, handler)
            if not self._loop_stack:
                raise AnalysisError('break outside loop')
            breaks, _, depth = self._loop_stack[-1]
            if any(fr[0] == 'finally' for fr in frames[depth:]):
                raise AnalysisError(f'{self.func.qualname}: break through finally is not modelled')
            breaks.append((n, ''))
            return []
        if isinstance(st, ast.Continue):
            n = self._mk('stmt', st, incoming, frames, handler)
            _, head, depth = self._loop_stack[-1]
            if any(fr[0] == 'finally' for fr in frames[depth:]):
                raise AnalysisError(f'{self.func.qualname}: continue through finally is not modelled')
            self._edge(n, head)
            return []
        if isinstance(st, ast.Return):
            n = self._mk('stmt', st, incoming, frames, handler)
            cur: Dangling = [(n, '')]
            for fr in reversed(frames):
                if fr[0] == 'finally':
                    cur = self._stmts(fr[1].finalbody, cur, self._outer(frames, fr), handler)
            self._connect(cur, self.exit)
            return []
        if isinstance(st, ast.Raise):
            self._mk('stmt', st, incoming, frames, handler)
            return []
        if isinstance(st, (ast.With, ast.AsyncWith)):
            n = self._mk('with', st, incoming, frames, handler)
            return self._stmts(st.body, [(n, '')], frames, handler)
        if isinstance(st, ast.Try) or st.__class__.__name__ == 'TryStar':
            return self._try(st, incoming, frames, handler)
        if isinstance(st, ast.Match):
            raise AnalysisError(f'{self.func.qualname}: match statement is not modelled')
        n = self._mk('stmt', st, incoming, frames, handler)
        return [(n, '')]

    @staticmethod
    def _outer(frames: Tuple, fr: Tuple) -> Tuple:
        i = frames.index(fr)
        return frames[:i]

    def _try(self, st: ast.Try, incoming: Dangling, frames: Tuple, handler: Optional[Node]) -> Dangling:
        inner = frames
        if st.finalbody:
            inner = inner + (('finally', st),)
        hnodes: List[Node] = []
        for h in st.handlers:
            hn = self._new('handler', h)
            hn.frames = inner       # exceptions raised inside a handler body skip sibling handlers
            hn.handler = handler
            hn.caught = self._handler_classes(h)
            hnodes.append(hn)
        body_frames = inner + (('try', st, tuple(hnodes)),) if hnodes else inner
        out = self._stmts(st.body, incoming, body_frames, handler)
        if st.orelse:
            out = self._stmts(st.orelse, out, inner, handler)
        for h, hn in zip(st.handlers, hnodes):
            out = out + self._stmts(h.body, [(hn, '')], inner, hn)
        if st.finalbody:
            out = self._stmts(st.finalbody, out, frames, handler)
        return out

    def _handler_classes(self, h: ast.ExceptHandler) -> Tuple[str, ...]:
        if h.type is None:
            return ('BaseException',)
        elts = h.type.elts if isinstance(h.type, ast.Tuple) else [h.type]
        out = []
        for e in elts:
            ent = self.prog.resolve(self.func.module, e)
            name = self.prog.exc_name(ent)
            if name is None:
                return (DYNAMIC,)
            out.append(name)
        return tuple(out)

    # -- exception edges -----------------------------------------------------------------------
    def _route(self, n: Node, classes: Iterable[str], frames: Tuple, handler: Optional[Node], changed: List[bool]) -> None:
        for R in classes:
            self.route(n, R, changed)

    def route(self, n: Node, R: str, changed: Optional[List[bool]] = None) -> List[Tuple[Node, str]]:
        """Route exception class R raised at node n. R is an exact class 'X' or a downward-closed
        family 'X+' (X or any subclass). Adds the edges and returns [(destination node, class arriving)]."""
        changed = changed if changed is not None else [False]
        prog = self.prog
        frames, handler = n.frames, n.handler
        closed = R.endswith('+')
        base = R[:-1] if closed else R
        dests: List[Tuple[Node, str]] = []
        for i in range(len(frames) - 1, -1, -1):
            fr = frames[i]
            if fr[0] == 'try':
                for hn in fr[2]:
                    full = False
                    for C in hn.caught:
                        if C == DYNAMIC:
                            if prog.exc_subclass(base, 'Exception'):
                                self._flow(n, hn, R, changed)
                                dests.append((hn, R))
                            elif closed and prog.exc_subclass('Exception', base):
                                self._flow(n, hn, 'Exception+', changed)
                                dests.append((hn, 'Exception+'))
                        elif prog.exc_subclass(base, C):
                            self._flow(n, hn, R, changed)
                            dests.append((hn, R))
                            full = True
                            break
                        elif closed and prog.exc_subclass(C, base):
                            self._flow(n, hn, C + '+', changed)
                            dests.append((hn, C + '+'))
                    if full:
                        return dests
            elif fr[0] == 'finally':
                key = ('fin', id(fr[1]))
                rr = None
                for cand in self.nodes:
                    if cand.kind == 'reraise' and cand.extra.get('key') == key:
                        rr = cand
                        break
                if rr is None:
                    first = self._new('stmt', ast.Pass())
                    first.frames = frames[:i]
                    first.handler = handler
                    first.extra['finally_exc_entry'] = True
                    out = self._stmts(fr[1].finalbody, [(first, '')], frames[:i], handler)
                    rr = self._new('reraise', fr[1])
                    rr.frames = frames[:i]
                    rr.handler = handler
                    rr.extra['key'] = key
                    rr.extra['first'] = first
                    self._connect(out, rr)
                    changed[0] = True
                self._edge(n, rr.extra['first'], 'exc', frozenset([R]))
                if R not in rr.inflow:
                    rr.inflow.add(R)
                    changed[0] = True
                dests.append((rr.extra['first'], R))
                return dests
        self._edge(n, self.raise_exit, 'exc', frozenset([R]))
        dests.append((self.raise_exit, R))
        return dests

    def _flow(self, n: Node, hn: Node, cls: str, changed: List[bool]) -> None:
        self._edge(n, hn, 'exc', frozenset([cls]))
        if cls not in hn.inflow:
            hn.inflow.add(cls)
            changed[0] = True

    def _exception_edges(self) -> None:
        for _ in range(20):
            changed = [False]
            for n in list(self.nodes):
                if n.kind in ('entry', 'exit', 'raise', 'handler'):
                    continue
                if n.kind == 'reraise':
                    classes: Set[str] = set(n.inflow)
                else:
                    classes = self._raises(self, n)
                if classes:
                    n.extra['raises'] = set(classes) | n.extra.get('raises', set())
                    self._route(n, classes, n.frames, n.handler, changed)
            if not changed[0]:
                return
        raise AnalysisError(f'{self.func.qualname}: exception-edge fixpoint did not converge')

    # -- queries -------------------------------------------------------------------------------
    def nodes_of(self, a: ast.AST) -> List[Node]:
        return self.by_ast.get(id(a), [])

    def stmt_nodes(self) -> Iterator[Node]:
        for n in self.nodes:
            if n.kind in ('stmt', 'cond', 'iter', 'next', 'with') and n.ast is not None:
                yield n

    def reachable(self, start: Node, avoid_nodes: Iterable[Node] = (), avoid_edges: Iterable[Edge] = (),
                  edge_ok: Optional[Callable[[Edge], bool]] = None) -> Set[int]:
        av = {n.id for n in avoid_nodes}
        ae = {id(e) for e in avoid_edges}
        seen: Set[int] = set()
        if start.id in av:
            return seen
        stack = [start]
        seen.add(start.id)
        while stack:
            n = stack.pop()
            for e in self.succ[n.id]:
                if id(e) in ae or e.dst.id in av or e.dst.id in seen:
                    continue
                if edge_ok is not None and not edge_ok(e):
                    continue
                seen.add(e.dst.id)
                stack.append(e.dst)
        return seen

    def reachable_consistent(self, start: Node, avoid_nodes: Iterable[Node] = (), avoid_edges: Iterable[Edge] = (),
                             max_states: int = 20000) -> Set[int]:
        """Like `reachable`, but a path may not decide the same pure test both ways: two condition nodes with the same text (a type
        test, identity test, truth test or comparison over names and attribute paths, no call but isinstance/len) take the same
        branch along one path, unless a name the test reads was assigned in between.  Prunes the infeasible paths created by
        `if c and d: .. elif c: ..` and by repeated guards."""
        from .model import norm as _norm
        av = {n.id for n in avoid_nodes}
        ae = {id(e) for e in avoid_edges}

        def pure_text(n: Node) -> Optional[Tuple[str, frozenset]]:
            if n.kind != 'cond' or n.ast is None:
                return None
            names = set()
            for x in ast.walk(n.ast):
                if isinstance(x, ast.Call) and not (isinstance(x.func, ast.Name) and x.func.id in ('isinstance', 'len', 'callable', 'issubclass')):
                    return None
                if isinstance(x, (ast.Await, ast.NamedExpr, ast.Yield, ast.Lambda)):
                    return None
                if isinstance(x, ast.Name):
                    names.add(x.id)
            return (_norm(n.ast), frozenset(names))
        texts = {n.id: pure_text(n) for n in self.nodes}
        writes: Dict[int, Set[str]] = {}
        for n in self.nodes:
            w: Set[str] = set()
            if n.ast is not None and n.kind in ('stmt', 'next', 'with', 'handler'):
                tgt_src = [n.ast.target] if n.kind == 'next' else [n.ast]
                for t in tgt_src:
                    for x in ast.walk(t):
                        if isinstance(x, ast.Name) and isinstance(x.ctx, (ast.Store, ast.Del)):
                            w.add(x.id)
                        elif isinstance(x, ast.Attribute) and isinstance(x.ctx, (ast.Store, ast.Del)):
                            w.add('<attr>')
                        elif isinstance(x, ast.ExceptHandler) and x.name:
                            w.add(x.name)
                        elif isinstance(x, ast.Call):
                            w.add('<call>')
            writes[n.id] = w
        seen_states: Set[Tuple[int, frozenset]] = set()
        reached: Set[int] = set()
        if start.id in av:
            return reached
        stack: List[Tuple[Node, frozenset]] = [(start, frozenset())]
        while stack and len(seen_states) < max_states:
            n, dec = stack.pop()
            if (n.id, dec) in seen_states:
                continue
            seen_states.add((n.id, dec))
            reached.add(n.id)
            w = writes.get(n.id) or set()
            if w:
                # a decision is forgotten when a name it reads is assigned; attribute stores / calls invalidate tests on attribute paths
                dec = frozenset((t, lab, nm) for t, lab, nm in dec if not (nm & w) and not (('<attr>' in w or '<call>' in w) and '.' in t))
            pt = texts.get(n.id)
            for e in self.succ[n.id]:
                if id(e) in ae or e.dst.id in av:
                    continue
                nd = dec
                if pt is not None and e.label in ('T', 'F'):
                    other = 'F' if e.label == 'T' else 'T'
                    if (pt[0], other, pt[1]) in dec:
                        continue
                    nd = dec | {(pt[0], e.label, pt[1])}
                stack.append((e.dst, nd))
        if len(seen_states) >= max_states:
            return self.reachable(start, avoid_nodes=avoid_nodes, avoid_edges=avoid_edges)
        return reached

    def live_nodes(self) -> Set[int]:
        return self.reachable(self.entry)

    def dominated_by(self, n: Node, doms: Iterable[Node]) -> bool:
        """Every path entry -> n passes through one of `doms`."""
        return n.id not in self.reachable(self.entry, avoid_nodes=list(doms))

    def dominated_by_edge(self, n: Node, edges: Iterable[Edge]) -> bool:
        return n.id not in self.reachable(self.entry, avoid_edges=list(edges))

    def edges(self) -> Iterator[Edge]:
        for es in self.succ.values():
            yield from es

    def out_edges(self, n: Node, label: Optional[str] = None) -> List[Edge]:
        return [e for e in self.succ[n.id] if label is None or e.label == label]

    def find_path(self, start: Node, goal: Callable[[Node], bool], avoid_nodes: Iterable[Node] = (),
                  avoid_edges: Iterable[Edge] = ()) -> Optional[List[Edge]]:
        av = {n.id for n in avoid_nodes}
        ae = {id(e) for e in avoid_edges}
        prev: Dict[int, Optional[Edge]] = {start.id: None}
        queue = [start]
        while queue:
            n = queue.pop(0)
            if goal(n) and n is not start:
                path = []
                cur: Optional[Edge] = prev[n.id]
                while cur is not None:
                    path.append(cur)
                    cur = prev[cur.src.id]
                return list(reversed(path))
            for e in self.succ[n.id]:
                if id(e) in ae or e.dst.id in av or e.dst.id in prev:
                    continue
                prev[e.dst.id] = e
                queue.append(e.dst)
        return None

    def acyclic_paths(self, start: Node, stop: Callable[[Node], bool], limit: int = 10000,
                      loop_bound: int = 1) -> List[List[Edge]]:
        """All paths from start to a node satisfying stop, each node visited at most loop_bound+1 times."""
        out: List[List[Edge]] = []
        count: Dict[int, int] = {}

        def dfs(n: Node, path: List[Edge]) -> None:
            if len(out) > limit:
                raise AnalysisError(f'{self.func.qualname}: more than {limit} paths')
            if stop(n) and path:
                out.append(list(path))
                return
            for e in self.succ[n.id]:
                c = count.get(e.dst.id, 0)
                if c > loop_bound:
                    continue
                count[e.dst.id] = c + 1
                path.append(e)
                dfs(e.dst, path)
                path.pop()
                count[e.dst.id] = c
        count[start.id] = 1
        dfs(start, [])
        return out

    def describe_path(self, path: List[Edge]) -> str:
        parts = []
        for e in path:
            lab = f'[{e.label}{":" + ",".join(sorted(x.rsplit(".", 1)[-1] for x in e.exc)) if e.exc else ""}]' if e.label else ''
            parts.append(f'{e.src.kind}@{e.src.line}{lab}')
        if path:
            parts.append(f'{path[-1].dst.kind}@{path[-1].dst.line}')
        return ' -> '.join(parts)

    def dump(self) -> str:
        lines = []
        for n in self.nodes:
            lines.append(f'{n!r}  -> ' + ', '.join(
                f'{e.dst.id}{("[" + e.label + ("/" + ",".join(sorted(c.rsplit(".",1)[-1] for c in e.exc)) if e.exc else "") + "]") if e.label else ""}'
                for e in self.succ[n.id]))
        return '\n'.join(lines)


def default_raises(cfg: CFG, n: Node) -> Set[str]:
    """Local raise oracle: explicit `raise` statements and `assert` only."""
    a = n.ast
    if isinstance(a, ast.Raise):
        return raise_classes(cfg, n)
    if isinstance(a, ast.Assert):
        return {'AssertionError'}
    return set()


def raise_classes(cfg: CFG, n: Node) -> Set[str]:
    """Classes raised by a `raise` statement node."""
    a = n.ast
    assert isinstance(a, ast.Raise)
    if a.exc is None:
        return set(n.handler.inflow) if n.handler is not None else {'RuntimeError'}
    exc = a.exc
    if isinstance(exc, ast.Name) and n.handler is not None and isinstance(n.handler.ast, ast.ExceptHandler) \
            and n.handler.ast.name == exc.id:
        return set(n.handler.inflow)
    target = exc.func if isinstance(exc, ast.Call) else exc
    ent = cfg.prog.resolve(cfg.func.module, target)
    name = cfg.prog.exc_name(ent)
    if name is None:
        # `raise self.get_error()` and the like: resolved by the escape analysis; locally unknown
        return {'Exception'}
    return {name}


# ----------------------------------------------------------------------------------------------
# generic forward typestate analysis
# ----------------------------------------------------------------------------------------------

def run_typestate(cfg: CFG, init: object,
                  step: Callable[[object, Edge], Iterable[object]],
                  start: Optional[Node] = None) -> Dict[int, Set[object]]:
    """Forward propagation of abstract states along edges until fixpoint.

    `step(state, edge)` returns the states after taking `edge` (the event of edge.src has been
    accounted for by the caller's convention: events are attached to *leaving* a node).
    Returns node id -> set of states on entry to the node. Parent pointers are kept in
    cfg-level attribute `_ts_parent` for witness reconstruction.
    """
    start = start or cfg.entry
    states: Dict[int, Set[object]] = {n.id: set() for n in cfg.nodes}
    parent: Dict[Tuple[int, object], Optional[Tuple[int, object, Edge]]] = {}
    states[start.id].add(init)
    parent[(start.id, init)] = None
    work: List[Tuple[Node, object]] = [(start, init)]
    steps = 0
    while work:
        n, s = work.pop()
        steps += 1
        if steps > 200000:
            raise AnalysisError(f'{cfg.func.qualname}: typestate exploration exceeded 200000 steps')
        for e in cfg.succ[n.id]:
            for s2 in step(s, e):
                if s2 not in states[e.dst.id]:
                    states[e.dst.id].add(s2)
                    parent[(e.dst.id, s2)] = (n.id, s, e)
                    work.append((e.dst, s2))
    cfg._ts_parent = parent  # type: ignore[attr-defined]
    return states


def witness(cfg: CFG, node: Node, state: object) -> List[Edge]:
    parent = getattr(cfg, '_ts_parent')
    path: List[Edge] = []
    key = (node.id, state)
    while parent.get(key) is not None:
        pid, ps, e = parent[key]
        path.append(e)
        key = (pid, ps)
    return list(reversed(path))
