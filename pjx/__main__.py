"""CLI: python -m pjx <property> [--tier quick|thorough] [--replay file] [--battery]"""
from __future__ import annotations

import argparse
import importlib
import json
import os
import sys
import traceback

from .model import AnalysisError, Program
from .report import Check, finish

PROPS = [f'C{i:02d}' for i in range(1, 21)]


def run_property(prop: str, tier: str, prog: Program) -> Check:
    mod = importlib.import_module(f'pjx.props.{prop.lower()}')
    ck = Check(prop, tier, int(os.environ.get('VERIF_SEED', '0') or 0))
    from .normal import normalised
    from .props import run_check
    run_check(mod, ck, normalised(prog))
    return ck


def main(argv=None) -> int:
    ap = argparse.ArgumentParser(prog='check')
    ap.add_argument('prop', nargs='?')
    ap.add_argument('--tier', default=os.environ.get('VERIF_TIER') or 'quick', choices=['quick', 'thorough'])
    ap.add_argument('--replay')
    ap.add_argument('--battery', action='store_true', help='run only the sensitivity battery; exit 1 on a miss')
    ap.add_argument('--all', action='store_true')
    ap.add_argument('--selftest-engine', action='store_true')
    args = ap.parse_args(argv)
    try:
        if args.selftest_engine:
            from .selftest import selftest
            return selftest()
        if args.all:
            rc = 0
            for p in PROPS:
                try:
                    importlib.import_module(f'pjx.props.{p.lower()}')
                except ModuleNotFoundError:
                    continue
                rc = max(rc, main([p, '--tier', args.tier]))
            return rc
        if not args.prop or args.prop not in PROPS:
            ap.error('property id C01..C20 required')
        prog = Program()
        if args.replay:
            with open(args.replay) as fh:
                rec = json.load(fh)
            ck = run_property(args.prop, args.tier, prog)
            hit = [f for f in ck.findings if (f.rule, f.func, f.construct) == (rec['rule'], rec['function'], rec['construct'])]
            if hit:
                f = hit[0]
                print(f'{f.file}:{f.line}: [{f.rule}] {f.func}: {f.message}')
                for w in f.witness:
                    print('    ' + w)
                print(f'VIOLATION property={args.prop} replay={args.replay}')
                return 1
            print(f'replay: finding {rec["rule"]} / {rec["function"]} / {rec["construct"]} is not reproduced on the current tree')
            return 0
        if args.battery:
            from .mutate import run_battery
            res = run_battery(args.prop, prog)
            print(json.dumps(res, indent=1))
            return 1 if res['missed'] else 0
        ck = run_property(args.prop, args.tier, prog)
        battery = None
        if args.tier == 'thorough':
            from .mutate import run_battery
            from .report import load_known
            known = {(k['rule'], k['function'], k['construct']) for k in load_known() if k.get('status') == 'known'}
            if all(f.key in known for f in ck.findings):
                from .mutate import run_seeded
                battery = run_battery(args.prop, prog, baseline=ck)
                for m in battery['missed']:
                    print(f'BATTERY-MISS property={args.prop} mutant={m}')
                battery['seeded_changes'] = run_seeded(args.prop, prog, baseline=ck)
                for m in battery['seeded_changes']['not_reported']:
                    print(f'SEEDED-MISS property={args.prop} change={m}')
                from .neutral import run_neutral
                neu = run_neutral([args.prop], prog)
                battery['neutral_rewrites'] = {'variants': neu['variants'], 'silent': len(neu['silent']), 'alarms': neu['alarms'], 'skipped': neu['skipped']}
                for k_, v_ in neu['alarms'].items():
                    print(f'NEUTRAL-ALARM property={args.prop} rewrite={k_} {v_[0]}')
            else:
                battery = {'skipped': 'unlisted violation on the real tree'}
        return finish(ck, battery)
    except AnalysisError as e:
        print(f'ANALYSIS-ERROR: {e}')
        return 2
    except Exception:
        traceback.print_exc()
        print('ANALYSIS-ERROR: internal error in the checker')
        return 2


if __name__ == '__main__':
    sys.exit(main())
