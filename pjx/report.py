"""Findings, obligations, known-findings matching, evidence files."""
from __future__ import annotations

import json
import os
import time
from dataclasses import dataclass, field
from typing import Any, Dict, List, Optional, Set, Tuple

VERIF = os.path.dirname(os.path.dirname(os.path.abspath(__file__)))
KNOWN_FILE = os.path.join(VERIF, 'known_findings.json')


@dataclass
class Finding:
    prop: str
    rule: str
    func: str
    construct: str
    file: str
    line: int
    message: str
    witness: List[str] = field(default_factory=list)

    @property
    def key(self) -> Tuple[str, str, str]:
        return (self.rule, self.func, self.construct)

    def to_json(self) -> Dict[str, Any]:
        return dict(property=self.prop, rule=self.rule, function=self.func, construct=self.construct,
                    file=self.file, line=self.line, message=self.message, witness=self.witness)


class Check:
    def __init__(self, prop: str, tier: str, seed: int = 0):
        self.prop = prop
        self.tier = tier
        self.seed = seed
        self.t0 = time.time()
        self.findings: List[Finding] = []
        self.obligations = 0
        self.discharged = 0
        self.evaluations = 0
        self.nontrivial: Set[str] = set()
        self.samples: List[Any] = []
        self.rules: Dict[str, Dict[str, int]] = {}
        self.assumptions: List[str] = []
        self.explanations: List[str] = []
        self.extra: Dict[str, Any] = {}
        self.functions: Set[str] = set()
        self.not_decided: List[str] = []
        self.trusted: List[str] = ['python ast (parser of the repo interpreter)', 'pjx engine (this directory)']

    # one rule instance evaluated
    def ob(self, rule: str, instance: str, ok: bool, nontrivial: bool = True, sample: Any = None) -> None:
        r = self.rules.setdefault(rule, {'instances': 0, 'held': 0})
        r['instances'] += 1
        self.evaluations += 1
        self.obligations += 1
        if ok:
            r['held'] += 1
            self.discharged += 1
        if nontrivial:
            self.nontrivial.add(f'{rule}|{instance}')
        if sample is not None and len([s for s in self.samples if s.get('rule') == rule]) < 3:
            self.samples.append(dict(rule=rule, instance=instance, held=ok, **(sample if isinstance(sample, dict) else {'detail': sample})))

    def finding(self, rule: str, func: str, construct: str, file: str, line: int, message: str,
                witness: Optional[List[str]] = None) -> Finding:
        f = Finding(self.prop, rule, func, construct, file, line, message, witness or [])
        if f.key not in {x.key for x in self.findings}:
            self.findings.append(f)
        return f

    def require(self, rule: str, what: str, found: int, floor: int) -> None:
        """Anchor floor: fewer instances than confirmed by hand -> the analysis is broken, not a pass."""
        from .model import AnalysisError
        if found < floor:
            raise AnalysisError(f'{rule}: found {found} {what}, expected at least {floor} (anchor vanished?)')

    def explain(self, text: str) -> None:
        self.explanations.append(text)

    def assume(self, text: str) -> None:
        if text not in self.assumptions:
            self.assumptions.append(text)


def load_known() -> List[Dict[str, Any]]:
    if not os.path.exists(KNOWN_FILE):
        return []
    with open(KNOWN_FILE) as f:
        return json.load(f).get('findings', [])


def finish(ck: Check, battery: Optional[Dict[str, Any]] = None) -> int:
    """Print verdict lines, write evidence and replay files; returns the exit code."""
    known = [k for k in load_known() if k.get('property') == ck.prop and k.get('status') == 'known']
    known_keys = {(k['rule'], k['function'], k['construct']): k for k in known}
    unlisted: List[Finding] = []
    listed: List[Finding] = []
    for f in ck.findings:
        (listed if f.key in known_keys else unlisted).append(f)
    for f in listed:
        print(f'KNOWN-FINDING: property={ck.prop} rule={f.rule} {f.file}:{f.line} {f.func}: {f.message}')
    rc = 0
    os.makedirs(os.path.join(VERIF, 'replays'), exist_ok=True)
    for i, f in enumerate(unlisted):
        path = os.path.join(VERIF, 'replays', f'{ck.prop}-{f.rule}-{i}.json')
        with open(path, 'w') as fh:
            json.dump(f.to_json(), fh, indent=1)
        print(f'{f.file}:{f.line}: [{f.rule}] {f.func}: {f.message}')
        for w in f.witness[:12]:
            print(f'    {w}')
        print(f'VIOLATION property={ck.prop} replay={path}')
        rc = 1
    stale = [k for key, k in known_keys.items() if key not in {f.key for f in ck.findings}]
    for k in stale:
        print(f'NOTE: known finding no longer reproduced: {k["rule"]} {k["function"]} {k["construct"]}')
    wall = time.time() - ck.t0
    cov: Dict[str, Any] = {
        'explanation': ' '.join(ck.explanations) or f'static rules for {ck.prop}',
        'obligations': ck.obligations,
        'discharged': ck.discharged,
        'evaluations': ck.evaluations,
        'distinct_nontrivial': len(ck.nontrivial),
        'rule': 'one evaluation per (rule, anchored instance) on the current tree; an instance counts as non-trivial '
                'when deciding it needed a path/dominance query, an abstract-interpretation run, a provenance or '
                'type query (anchor-existence checks are trivial and not counted)',
        'samples': ck.samples[:40] or [{'note': 'no instance sampled'}],
        'rules': ck.rules,
        'functions_analysed': sorted(ck.functions),
        'findings': [f.to_json() for f in ck.findings],
        'known_findings_matched': [f.key for f in listed],
        'not_decided': ck.not_decided,
        'trusted_base': ck.trusted,
        'checker_cmd': f'./check {ck.prop} --tier {ck.tier}',
        'exhaustive': False,
    }
    cov.update(ck.extra)
    if battery is not None:
        cov['battery'] = battery
    ev = {
        'property_id': ck.prop,
        'tier': ck.tier,
        'seed': ck.seed,
        'level': 'other',
        'coverage': cov,
        'assumptions': ck.assumptions,
        'wall_s': round(wall, 3),
        'violations': len(unlisted),
    }
    os.makedirs(os.path.join(VERIF, 'evidence'), exist_ok=True)
    with open(os.path.join(VERIF, 'evidence', f'{ck.prop}.json'), 'w') as fh:
        json.dump(ev, fh, indent=1, default=str)
    held = sum(r['held'] for r in ck.rules.values())
    print(f'{ck.prop} [{ck.tier}]: {ck.evaluations} rule instances over {len(ck.functions)} functions, '
          f'{held} held, {len(ck.findings)} finding(s) ({len(listed)} known, {len(unlisted)} unlisted), {wall:.2f}s')
    return rc
