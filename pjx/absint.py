"""Path-sensitive abstract interpretation over the CFG with the *sentinel-kind* domain.

Every tracked variable (local name, `self.attr`, pure attribute chain such as `request.id`) carries a
subset of four kinds:

    U  the UNSET sentinel        N  None        F  any other falsy value        T  any truthy value

An abstract state at a CFG node is a *set* of environments (disjunctive, hence relational enough for
guards such as "not both UNSET").  Branch conditions refine environments; `assert`, `raise`, calls to
repo functions (analysed context-sensitively, depth-bounded), constructor assertions, class
invariants derived from constructors, and a small summary table for external callees produce
exception classes, which are routed through the handler structure of the CFG (cfg.route).

The interpreter is finite-state (finite domain, memoised contexts) and never executes pjrpc.
"""
from __future__ import annotations

import ast
from collections import deque
from dataclasses import dataclass, field
from typing import Callable, Dict, FrozenSet, Iterable, List, Optional, Set, Tuple

from .cfg import CFG, Edge, Node
from .model import AnalysisError, ClassInfo, FuncInfo, Program, dotted, norm
from .types import ANY, NONE, UNSET_Q, CompScope, FuncScope, Scope, Types, members, types_of, walk_own

K_ALL: FrozenSet[str] = frozenset('UNFT')
K_VAL: FrozenSet[str] = frozenset('NFT')
K_FT: FrozenSet[str] = frozenset('FT')
K_T: FrozenSet[str] = frozenset('T')
K_F: FrozenSet[str] = frozenset('F')
K_N: FrozenSet[str] = frozenset('N')
K_U: FrozenSet[str] = frozenset('U')

Env = Tuple[Tuple[str, FrozenSet[str]], ...]
EMPTY_ENV: Env = ()

KIND_WORDS = {'U': 'UNSET', 'N': 'None', 'F': 'falsy value (0, "", [], false)', 'T': 'truthy value'}

# external callees that matter: what they may raise (exact classes unless suffixed '+')
EXT_RAISES: Dict[str, Tuple[str, ...]] = {
    'json.loads': ('json.JSONDecodeError', 'ValueError'),
    'flask.json.loads': ('json.JSONDecodeError', 'ValueError'),
    'inspect.Signature().bind': ('TypeError',),
    'inspect.Signature().bind_partial': ('TypeError',),
    'jsonschema.validate': ('jsonschema.ValidationError',),
    'int': ('ValueError',),
}
INFINITE_ITERS = {'itertools.count', 'itertools.cycle'}
CONTAINER_BASES = {'dict', 'list', 'set', 'tuple', 'str', 'bytes', 'collections.OrderedDict', 'collections.UserDict'}


def env_get(env: Env, key: str) -> Optional[FrozenSet[str]]:
    for k, v in env:
        if k == key:
            return v
    return None


def env_set(env: Env, key: str, kinds: FrozenSet[str]) -> Env:
    d = dict(env)
    d[key] = kinds
    return tuple(sorted(d.items(), key=lambda kv: kv[0]))


def env_kill(env: Env, name: str) -> Env:
    """Forget `name` and every attribute chain rooted at it."""
    pre = name + '.'
    return tuple((k, v) for k, v in env if k != name and not k.startswith(pre))


def env_str(env: Env) -> str:
    return '{' + ', '.join(f'{k}∈{{{",".join(sorted(v))}}}' for k, v in env if not k.startswith('$')) + '}'


@dataclass
class Witness:
    func: str
    rel: str
    line: int
    text: str
    env: str = ''
    via: Optional['Witness'] = None
    note: str = ''
    okey: str = ''

    def innermost(self) -> 'Witness':
        w: Witness = self
        while w.via is not None:
            w = w.via
        return w

    def origin(self) -> str:
        w = self.innermost()
        return f'{w.func}|{w.okey or w.text}'

    def chain(self) -> List[str]:
        out = []
        w: Optional[Witness] = self
        while w is not None:
            out.append(f'{w.rel}:{w.line} {w.func.rsplit(".", 2)[-2] if w.func.count(".") > 1 else ""}.{w.func.rsplit(".", 1)[-1]}: {w.text}'
                       + (f' [{w.env}]' if w.env and w.env != '{}' else '') + (f' ({w.note})' if w.note else ''))
            w = w.via
        return out


@dataclass
class FuncResult:
    func: FuncInfo
    raises: Dict[Tuple[str, str], Witness] = field(default_factory=dict)   # (class, origin) -> witness
    ret: FrozenSet[str] = frozenset()
    exit_envs: Set[Env] = field(default_factory=set)
    cfg: Optional[CFG] = None
    states: Dict[int, Set[Env]] = field(default_factory=dict)
    node_raises: Dict[int, Dict[Tuple[str, str], Witness]] = field(default_factory=dict)
    complete: bool = True

    def raised_classes(self) -> Set[str]:
        return {c for c, _ in self.raises}


@dataclass
class Config:
    # classes a user-supplied callable may raise at a call site (None -> default {'Exception+'})
    user_raises: Optional[Callable[[FuncInfo, ast.Call, Scope], Optional[Set[str]]]] = None
    ext_raises: Dict[str, Tuple[str, ...]] = field(default_factory=lambda: dict(EXT_RAISES))
    # (func, node, class, env) -> lemma text if the raise is infeasible for a stated reason
    infeasible: Optional[Callable[[FuncInfo, Node, str, Env], Optional[str]]] = None
    max_depth: int = 7
    subscript_keyerror: bool = True
    # kinds returned by a user callable at a call site (closure bindings): (func, call) -> kinds | None
    user_returns: Optional[Callable[[FuncInfo, ast.Call], Optional[FrozenSet[str]]]] = None


class Ctx:
    __slots__ = ('f', 'scope', 'recv', 'depth', 'raised', 'node', 'kill', 'stack')

    def __init__(self, f: FuncInfo, scope: Scope, recv: Optional[str], depth: int, node: Optional[Node], stack: Tuple):
        self.f = f
        self.scope = scope
        self.recv = recv
        self.depth = depth
        self.raised: List[Tuple[str, Witness]] = []
        self.node = node
        self.kill: Set[str] = set()
        self.stack = stack


class Interp:
    def __init__(self, prog: Program, config: Optional[Config] = None):
        self.prog = prog
        self.types: Types = types_of(prog)
        self.cfg_ = config or Config()
        self._cfgs: Dict[str, CFG] = {}
        self._memo: Dict[Tuple, FuncResult] = {}
        self._busy: Set[Tuple] = set()
        self._inv: Dict[str, Optional[Set[Env]]] = {}
        self.assumed_total: Dict[str, Set[str]] = {}     # external / unknown callees assumed not to raise
        self.user_calls: Dict[str, str] = {}        # user call sites -> policy applied
        self.lemmas: Dict[str, str] = {}
        self.depth_cutoffs: Set[str] = set()
        self.calls_resolved = 0
        self.contexts = 0
        self.none_derefs: Dict[Tuple[str, str], Witness] = {}   # (func, expr) -> witness: attribute access on a maybe-None value

    # -- helpers -------------------------------------------------------------------------------
    def cfg_for(self, f: FuncInfo) -> CFG:
        c = self._cfgs.get(f.qualname)
        if c is None:
            c = self._cfgs[f.qualname] = CFG(f, self.prog, raises=lambda cfg, n: set())
        return c

    def always_truthy(self, cq: str) -> bool:
        ci = self.prog.classes.get(cq)
        if ci is None:
            return False
        for c in self.prog.mro(ci):
            if isinstance(c, ClassInfo):
                if '__bool__' in c.methods or '__len__' in c.methods:
                    return False
            elif str(c) in CONTAINER_BASES:
                return False
        return True

    def kinds_of_type(self, t: tuple) -> FrozenSet[str]:
        out: Set[str] = set()
        for m in members(t):
            k = m[0]
            if k == 'inst':
                if m[1] == UNSET_Q:
                    out |= K_U
                elif self.always_truthy(m[1]):
                    out |= K_T
                else:
                    out |= K_FT
            elif k == 'none':
                out |= K_N
            elif k in ('b', 'seq', 'dict', 'gen', 'extinst'):
                out |= K_FT if k != 'gen' else K_T
            elif k in ('cls', 'func', 'bound', 'partial', 'lambda', 'mod', 'ext', 'user'):
                out |= K_T
            else:
                out |= K_VAL
        return frozenset(out)

    def const_kinds(self, e: ast.expr, scope: Scope) -> Optional[FrozenSet[str]]:
        if isinstance(e, ast.Constant):
            if e.value is None:
                return K_N
            return K_T if e.value else K_F
        if isinstance(e, ast.UnaryOp) and isinstance(e.op, (ast.USub, ast.UAdd)) and isinstance(e.operand, ast.Constant):
            return K_T if e.operand.value else K_F
        return None

    def class_const(self, cq: Optional[str], attr: str) -> Optional[FrozenSet[str]]:
        ci = self.prog.classes.get(cq) if cq else None
        if ci is None:
            return None
        for c in self.prog.mro(ci):
            if isinstance(c, ClassInfo) and attr in c.attrs:
                k = self.const_kinds(c.attrs[attr], None)  # type: ignore[arg-type]
                if k is not None:
                    return k
                return None
        return None

    def is_unset_name(self, e: ast.expr, cx: Ctx) -> bool:
        if isinstance(e, (ast.Name, ast.Attribute)):
            d = dotted(e)
            if d is None:
                return False
            if isinstance(e, ast.Name) and self.types.local_type(cx.f, e.id) is not None:
                return False
            ent = self.prog.resolve(cx.f.module, e)
            if isinstance(ent, tuple) and ent[0] == 'value':
                v = ent[2]
                if isinstance(v, ast.Call):
                    t = self.prog.resolve(ent[1], v.func)
                    return isinstance(t, ClassInfo) and t.qualname == UNSET_Q
        return False

    def is_unset_type(self, e: ast.expr, cx: Ctx) -> bool:
        ent = self.prog.resolve(cx.f.module, e)
        return isinstance(ent, ClassInfo) and ent.qualname == UNSET_Q

    @staticmethod
    def var_key(e: ast.expr) -> Optional[str]:
        """Key of a trackable l-value/r-value: Name or pure attribute chain."""
        return dotted(e)

    # -- class invariants ----------------------------------------------------------------------
    def invariant(self, cq: str) -> Optional[Set[Env]]:
        if cq in self._inv:
            return self._inv[cq]
        self._inv[cq] = None   # recursion guard
        ci = self.prog.classes.get(cq)
        init = self.prog.find_method(ci, '__init__') if ci else None
        if ci is None or init is None:
            return None
        # attributes written only inside this __init__ (anywhere in the package)
        written_elsewhere: Set[str] = set()
        family = {c.qualname for c in self.prog.subclasses(ci)} | \
                 {c.qualname for c in self.prog.mro(ci) if isinstance(c, ClassInfo)}
        for f in self.prog.iter_funcs():
            if f is init:
                continue
            owner = self.types.self_class(f)
            for n in walk_own(f.node):
                if isinstance(n, ast.Attribute) and isinstance(n.ctx, (ast.Store, ast.Del)):
                    if isinstance(n.value, ast.Name) and n.value.id == 'self' and owner is not None \
                            and owner.qualname not in family:
                        continue
                    written_elsewhere.add(n.attr)
        env0: Env = EMPTY_ENV
        for p in init.params[1:]:
            a = init.node.args
            if (a.vararg and a.vararg.arg == p.arg) or (a.kwarg and a.kwarg.arg == p.arg):
                continue
            env0 = env_set(env0, p.arg, self.kinds_of_type(self.types.param_type(init, p.arg)) |
                           self._default_kinds(init, p.arg))
        res = self.analyze(init, {env0}, recv=cq, depth=1, stack=())
        out: Set[Env] = set()
        for env in res.exit_envs:
            proj = tuple((k, v) for k, v in env if k.startswith('self.') and k.count('.') == 1
                         and k.split('.', 1)[1] not in written_elsewhere)
            out.add(proj)
        self._inv[cq] = out or None
        return self._inv[cq]

    def _default_kinds(self, f: FuncInfo, name: str) -> FrozenSet[str]:
        d = f.param_default(name)
        if d is None:
            return frozenset()
        cx = Ctx(f, FuncScope(f, self.types), None, 99, None, ())
        if self.is_unset_name(d, cx):
            return K_U
        return self.const_kinds(d, cx.scope) or frozenset()

    # -- analysis of one function in one context ----------------------------------------------
    def analyze(self, f: FuncInfo, init_envs: Iterable[Env], recv: Optional[str] = None, depth: int = 0,
                stack: Tuple = ()) -> FuncResult:
        init = frozenset(init_envs)
        key = (f.qualname, recv, init)
        if key in self._memo:
            return self._memo[key]
        if key in self._busy:
            return FuncResult(f, complete=False)
        self._busy.add(key)
        self.contexts += 1
        try:
            res = self._analyze(f, init, recv, depth, stack + (f.qualname,))
        finally:
            self._busy.discard(key)
        self._memo[key] = res
        return res

    def _analyze(self, f: FuncInfo, init: FrozenSet[Env], recv: Optional[str], depth: int, stack: Tuple) -> FuncResult:
        cfg = self.cfg_for(f)
        res = FuncResult(f, cfg=cfg)
        states: Dict[int, Set[Env]] = {n.id: set() for n in cfg.nodes}
        parent: Dict[Tuple[int, Env], Optional[Tuple[int, Env]]] = {}
        work: deque = deque()
        scope = FuncScope(f, self.types)
        ret: Set[str] = set()

        def push(n: Node, env: Env, frm: Optional[Tuple[int, Env]]) -> None:
            st = states.setdefault(n.id, set())
            if env not in st:
                if len(st) > 4000:
                    raise AnalysisError(f'{f.qualname}: more than 4000 abstract environments at one node')
                st.add(env)
                parent[(n.id, env)] = frm
                work.append((n, env))

        for env in init:
            push(cfg.entry, env, None)
        steps = 0
        while work:
            n, env = work.popleft()
            steps += 1
            if steps > 300000:
                raise AnalysisError(f'{f.qualname}: abstract interpretation exceeded 300000 steps')
            cx = Ctx(f, scope, recv, depth, n, stack)
            outs = self.transfer(cfg, n, env, cx, ret)
            here = (n.id, env)
            for e in cfg.succ[n.id]:
                if e.label == 'exc':
                    continue
                for lab, env2 in outs:
                    if lab is None or lab == e.label:
                        push(e.dst, env2, here)
            for R, w in cx.raised:
                if self.cfg_.infeasible is not None:
                    lemma = self.cfg_.infeasible(f, n, R, env)
                    if lemma:
                        self.lemmas[f'{f.qualname}:{norm(n.ast)[:80] if n.ast is not None else n.kind}:{R}'] = lemma
                        continue
                res.node_raises.setdefault(n.id, {}).setdefault((R, w.origin()), w)
                for dst, cls in cfg.route(n, R):
                    if dst is cfg.raise_exit:
                        res.raises.setdefault((cls, w.origin()), w)
                    else:
                        env2 = env_set(env, '$exc', frozenset([cls]))
                        if dst.kind == 'handler' and isinstance(dst.ast, ast.ExceptHandler) and dst.ast.name:
                            env2 = env_kill(env2, dst.ast.name)
                            env2 = env_set(env2, dst.ast.name, K_T)
                        # route() may have created nodes (finally copies)
                        states.setdefault(dst.id, set())
                        push(dst, env2, here)
        for n in cfg.nodes:
            states.setdefault(n.id, set())
        res.states = states
        res.exit_envs = set(states[cfg.exit.id])
        res.ret = frozenset(ret) if ret else (K_N if states[cfg.exit.id] else frozenset())
        if any(isinstance(x, (ast.Yield, ast.YieldFrom)) for x in walk_own(f.node)):
            res.ret = K_T
        return res

    # -- transfer ------------------------------------------------------------------------------
    def transfer(self, cfg: CFG, n: Node, env: Env, cx: Ctx, ret: Set[str]) -> List[Tuple[Optional[str], Env]]:
        a = n.ast
        k = n.kind
        if k in ('entry', 'handler') or a is None:
            return [(None, env)]
        if k == 'reraise':
            for R in sorted(n.inflow):
                cx.raised.append((R, self._w(cx, 'exception propagates after finally', env)))
            return []
        if k == 'cond':
            t, f_ = self.split(a, env, cx)
            return [('T', e) for e in t] + [('F', e) for e in f_]
        if k == 'iter':
            self.ev(a, env, cx)
            return [(None, self._apply_kill(env, cx))]
        if k == 'next':
            it_t = self.types.expr(a.iter, cx.scope)
            el = self.kinds_of_type(self.types.elem(it_t))
            env_b = env
            for nm in _target_names(a.target):
                env_b = env_kill(env_b, nm)
                if isinstance(a.target, ast.Name):
                    env_b = env_set(env_b, nm, el)
            outs: List[Tuple[Optional[str], Env]] = [('body', env_b)]
            infinite = isinstance(a.iter, ast.Call) and any(
                kd == 'ext' and ob in INFINITE_ITERS for kd, ob in self.types.callees(a.iter, cx.scope))
            if not infinite:
                outs.append(('exhausted', env))
            return outs
        if k == 'with':
            env2 = env
            for item in a.items:
                self.ev(item.context_expr, env, cx)
                if item.optional_vars is not None:
                    for nm in _target_names(item.optional_vars):
                        env2 = env_kill(env2, nm)
            return [(None, self._apply_kill(env2, cx))]
        # simple statements
        if isinstance(a, ast.Assign):
            outs_a: List[Tuple[Optional[str], Env]] = []
            for val, en in self._fork_value(a.value, env, cx):
                kinds = self.ev(val, en, cx)
                env2 = self._apply_kill(en, cx)
                for tg in a.targets:
                    env2 = self._assign(tg, val, kinds, env2, en, cx)
                outs_a.append((None, env2))
            return outs_a
        if isinstance(a, ast.AnnAssign):
            if a.value is None:
                return [(None, env)]
            outs_b: List[Tuple[Optional[str], Env]] = []
            for val, en in self._fork_value(a.value, env, cx):
                kinds = self.ev(val, en, cx)
                env2 = self._apply_kill(en, cx)
                outs_b.append((None, self._assign(a.target, val, kinds, env2, en, cx)))
            return outs_b
        if isinstance(a, ast.AugAssign):
            self.ev(a.value, env, cx)
            env2 = self._apply_kill(env, cx)
            key = self.var_key(a.target)
            if key:
                env2 = env_set(env_kill(env2, key), key, K_FT)
            return [(None, env2)]
        if isinstance(a, ast.Expr):
            self.ev(a.value, env, cx)
            return [(None, self._apply_kill(env, cx))]
        if isinstance(a, ast.Return):
            if a.value is not None:
                ret |= self.ev(a.value, env, cx)
            else:
                ret |= K_N
            return [(None, self._apply_kill(env, cx))]
        if isinstance(a, ast.Raise):
            self._raise(a, n, env, cx)
            return []
        if isinstance(a, ast.Assert):
            if self._holds_by_type(cfg, n, a.test, cx):
                return [(None, env)]
            t, f_ = self.split(a.test, env, cx)
            for e in f_:
                cx.raised.append(('AssertionError', self._w(cx, f'assert {norm(a.test)} can fail', e, okey='assert:' + norm(a.test))))
            return [(None, e) for e in t]
        if isinstance(a, ast.Delete):
            env2 = env
            for tg in a.targets:
                key = self.var_key(tg)
                if key:
                    env2 = env_kill(env2, key)
            return [(None, env2)]
        return [(None, env)]

    def _holds_by_type(self, cfg: CFG, n: Node, test: ast.expr, cx: Ctx) -> bool:
        """`assert isinstance(x, C)` cannot fail when every definition of x reaching the assertion has a static type that is an
        instance of a subclass of C (reaching definitions from flow.py, types from the annotations / constructors / handlers)."""
        if not (isinstance(test, ast.Call) and isinstance(test.func, ast.Name) and test.func.id == 'isinstance' and len(test.args) == 2
                and isinstance(test.args[0], ast.Name)):
            return False
        from .flow import flow_of
        from .types import members
        wanted = []
        for x in (test.args[1].elts if isinstance(test.args[1], ast.Tuple) else [test.args[1]]):
            tt = self.types.expr(x, cx.scope)
            for m in members(tt):
                if m[0] == 'cls':
                    wanted.append(m[1])
        if not wanted:
            return False
        try:
            alts = flow_of(cfg).alts(n, test.args[0])
        except Exception:
            return False
        if not alts:
            return False
        for al in alts:
            hn = al.node if getattr(al.node, 'kind', '') == 'handler' else getattr(al.node, 'handler', None)
            if isinstance(al.expr, ast.Name) and hn is not None and getattr(hn.ast, 'name', None) == al.expr.id and hn.caught:
                # the variable bound by the enclosing `except C as e` clause
                if all(any(self.prog.exc_subclass(C, w) for w in wanted) for C in hn.caught):
                    continue
                return False
            ms = members(self.types.expr(al.expr, cx.scope))
            if not ms:
                return False
            for m in ms:
                if m[0] != 'inst':
                    return False
                ci = self.prog.classes.get(m[1])
                if ci is None or not any(getattr(c, 'qualname', None) in wanted for c in self.prog.mro(ci)):
                    return False
        return True

    def _fork_value(self, value: ast.expr, env: Env, cx: Ctx, depth: int = 0) -> List[Tuple[ast.expr, Env]]:
        """`x = A if c else B` is analysed as `if c: x = A else: x = B` (the environments are split on c)."""
        if isinstance(value, ast.IfExp) and depth < 4:
            t, f_ = self.split(value.test, env, cx)
            out: List[Tuple[ast.expr, Env]] = []
            for en in t:
                out += self._fork_value(value.body, en, cx, depth + 1)
            for en in f_:
                out += self._fork_value(value.orelse, en, cx, depth + 1)
            return out
        return [(value, env)]

    def _apply_kill(self, env: Env, cx: Ctx) -> Env:
        for k in cx.kill:
            env = env_kill(env, k)
        return env

    def _assign(self, tg: ast.expr, value: Optional[ast.expr], kinds: FrozenSet[str], env: Env, env_before: Env, cx: Ctx) -> Env:
        if isinstance(tg, (ast.Tuple, ast.List)):
            if isinstance(value, (ast.Tuple, ast.List)) and len(value.elts) == len(tg.elts):
                for t_, v_ in zip(tg.elts, value.elts):
                    sub = Ctx(cx.f, cx.scope, cx.recv, cx.depth, cx.node, cx.stack)
                    env = self._assign(t_, v_, self.ev(v_, env_before, sub), env, env_before, cx)
                return env
            for nm in _target_names(tg):
                env = env_kill(env, nm)
            return env
        key = self.var_key(tg)
        if key is None:
            return env
        env = env_kill(env, key)
        if isinstance(tg, ast.Name) or (isinstance(tg, ast.Attribute) and isinstance(tg.value, ast.Name) and tg.value.id == 'self'):
            env = env_set(env, key, kinds)
        return env

    def _w(self, cx: Ctx, text: str, env: Env, via: Optional[Witness] = None, note: str = '', okey: str = '') -> Witness:
        line = cx.node.line if cx.node is not None else cx.f.node.lineno
        return Witness(cx.f.qualname, cx.f.module.rel, line, text, env_str(env), via, note, okey)

    def _raise(self, a: ast.Raise, n: Node, env: Env, cx: Ctx) -> None:
        if a.exc is None or (isinstance(a.exc, ast.Name) and n.handler is not None and
                             isinstance(n.handler.ast, ast.ExceptHandler) and n.handler.ast.name == a.exc.id):
            cur = env_get(env, '$exc')
            if cur:
                for R in cur:
                    cx.raised.append((R, self._w(cx, f're-raise of caught {R}', env, okey='re-raise:' + R)))
            else:
                cx.raised.append(('RuntimeError', self._w(cx, 'bare raise outside handler', env)))
            return
        exc = a.exc
        if a.cause is not None:
            self.ev(a.cause, env, cx)
        if isinstance(exc, ast.Call):
            ent = self.prog.resolve(cx.f.module, exc.func) if not self._is_local(exc.func, cx) else None
            name = self.prog.exc_name(ent)
            self.ev(exc, env, cx)   # constructor may itself raise (assertions)
            if name is not None:
                cx.raised.append((name, self._w(cx, f'raise {norm(exc)[:90]}', env, okey='raise:' + name)))
                return
        else:
            ent = self.prog.resolve(cx.f.module, exc) if not self._is_local(exc, cx) else None
            name = self.prog.exc_name(ent)
            if name is not None and isinstance(ent, (ClassInfo, str)):
                cx.raised.append((name, self._w(cx, f'raise {norm(exc)[:90]}', env, okey='raise:' + name)))
                return
            self.ev(exc, env, cx)
        # raise <expression>: class from the static type
        t = self.types.expr(exc, cx.scope)
        got = False
        for m in members(t):
            if m[0] == 'inst':
                cx.raised.append((m[1] + '+', self._w(cx, f'raise {norm(exc)[:90]}', env, okey='raise-expr:' + m[1])))
                got = True
            elif m[0] == 'extinst':
                cx.raised.append((m[1] + '+', self._w(cx, f'raise {norm(exc)[:90]}', env, okey='raise-expr:' + m[1])))
                got = True
        if not got:
            cx.raised.append(('Exception+', self._w(cx, f'raise {norm(exc)[:90]} (class unknown)', env)))

    def _is_local(self, e: ast.expr, cx: Ctx) -> bool:
        while isinstance(e, ast.Attribute):
            e = e.value
        if isinstance(e, ast.Name):
            g: Optional[FuncInfo] = cx.f
            while g is not None:
                if self.types.local_type(g, e.id) is not None:
                    return True
                g = g.parent
        return False

    # -- conditions ----------------------------------------------------------------------------
    def split(self, e: ast.expr, env: Env, cx: Ctx) -> Tuple[List[Env], List[Env]]:
        if isinstance(e, ast.UnaryOp) and isinstance(e.op, ast.Not):
            t, f_ = self.split(e.operand, env, cx)
            return f_, t
        if isinstance(e, ast.BoolOp):
            cur = [env]
            t_out: List[Env] = []
            f_out: List[Env] = []
            for i, v in enumerate(e.values):
                nt: List[Env] = []
                nf: List[Env] = []
                for en in cur:
                    t, f_ = self.split(v, en, cx)
                    nt += t
                    nf += f_
                last = i == len(e.values) - 1
                if isinstance(e.op, ast.And):
                    f_out += nf
                    if last:
                        t_out += nt
                    cur = nt
                else:
                    t_out += nt
                    if last:
                        f_out += nf
                    cur = nf
            return _dedup(t_out), _dedup(f_out)
        if isinstance(e, ast.NamedExpr):
            kinds = self.ev(e.value, env, cx)
            env2 = env_set(env_kill(env, e.target.id), e.target.id, kinds)
            return self._split_truth(e.target, env2, cx)
        if isinstance(e, ast.Compare) and len(e.ops) == 1:
            op, left, right = e.ops[0], e.left, e.comparators[0]
            if isinstance(op, (ast.Is, ast.IsNot)):
                which = None
                if isinstance(right, ast.Constant) and right.value is None:
                    which = 'N'
                elif self.is_unset_name(right, cx):
                    which = 'U'
                elif isinstance(left, ast.Constant) and left.value is None:
                    which, left = 'N', right
                elif self.is_unset_name(left, cx):
                    which, left = 'U', right
                if which is not None:
                    t, f_ = self._split_kind(left, frozenset(which), env, cx)
                    return (t, f_) if isinstance(op, ast.Is) else (f_, t)
            self.ev(e, env, cx)
            return [env], [env]
        if isinstance(e, ast.Call) and isinstance(e.func, ast.Name) and e.func.id == 'isinstance' and len(e.args) == 2:
            tp = e.args[1]
            elts = tp.elts if isinstance(tp, ast.Tuple) else [tp]
            if len(elts) == 1 and self.is_unset_type(elts[0], cx):
                return self._split_kind(e.args[0], K_U, env, cx)
            if not any(self.is_unset_type(x, cx) for x in elts):
                # true edge: the value is neither UNSET nor None
                key = self.var_key(e.args[0])
                cur = self.ev(e.args[0], env, cx)
                tk = cur - K_U - K_N
                if all(self._class_always_truthy(x, cx) for x in elts):
                    tk = tk & K_T
                t_envs = [env_set(env, key, tk)] if key and tk else ([env] if tk else [])
                return t_envs, [env]
            return [env], [env]
        if isinstance(e, ast.Constant):
            return ([env], []) if e.value else ([], [env])
        inl = self._inline_predicate(e, env, cx)
        if inl is not None:
            return inl
        return self._split_truth(e, env, cx)

    def _inline_predicate(self, e: ast.expr, env: Env, cx: Ctx, _depth: int = 0) -> Optional[Tuple[List[Env], List[Env]]]:
        """`recv.pred` / `recv.pred()` where pred is a repo property/method whose body is a single
        `return <expr over self attributes>`: split on the returned expression, translating
        `self.x` <-> `recv.x`."""
        if cx.depth + _depth > self.cfg_.max_depth:
            return None
        target = e.func if isinstance(e, ast.Call) and not e.args and not e.keywords else e
        if not isinstance(target, ast.Attribute):
            return None
        rkey = dotted(target.value)
        if rkey is None:
            return None
        bt = self.types.expr(target.value, cx.scope)
        insts = [m[1] for m in members(bt) if m[0] == 'inst']
        if len(insts) != 1 or len(members(bt)) != 1 and not all(m[0] in ('inst', 'none') for m in members(bt)):
            return None
        ci = self.prog.classes.get(insts[0])
        meth = self.prog.find_method(ci, target.attr) if ci else None
        if meth is None or (meth.kind == 'property') == isinstance(e, ast.Call):
            return None
        # overridden in a subclass with a different body -> not inlinable
        for sc in self.prog.subclasses(ci, strict=True):
            if target.attr in sc.methods:
                return None
        body = [st for st in meth.node.body if not (isinstance(st, ast.Expr) and isinstance(st.value, ast.Constant))]
        if len(body) != 1 or not isinstance(body[0], ast.Return) or body[0].value is None:
            return None
        ret_expr = body[0].value
        pre = rkey + '.'
        env_in: Env = tuple(sorted(('self.' + k[len(pre):], v) for k, v in env if k.startswith(pre)))
        recv_cls = cx.recv if rkey == 'self' else insts[0]
        sub = Ctx(meth, FuncScope(meth, self.types), recv_cls, cx.depth + 1, cx.node, cx.stack)
        t, f_ = self.split(ret_expr, env_in, sub)
        cx.raised += sub.raised

        def back(en: Env) -> Env:
            out = tuple((k, v) for k, v in env if not k.startswith(pre))
            out += tuple((pre + k[len('self.'):], v) for k, v in en if k.startswith('self.'))
            return tuple(sorted(out))
        return _dedup([back(x) for x in t]), _dedup([back(x) for x in f_])

    def _class_always_truthy(self, e: ast.expr, cx: Ctx) -> bool:
        ent = self.prog.resolve(cx.f.module, e)
        return isinstance(ent, ClassInfo) and self.always_truthy(ent.qualname)

    def _split_kind(self, operand: ast.expr, kinds: FrozenSet[str], env: Env, cx: Ctx) -> Tuple[List[Env], List[Env]]:
        cur = self.ev(operand, env, cx)
        key = self.var_key(operand)
        yes = cur & kinds
        no = cur - kinds
        if key is None:
            return ([env] if yes else []), ([env] if no else [])
        return ([env_set(env, key, yes)] if yes else []), ([env_set(env, key, no)] if no else [])

    def _split_truth(self, e: ast.expr, env: Env, cx: Ctx) -> Tuple[List[Env], List[Env]]:
        return self._split_kind(e, K_T, env, cx)

    # -- expressions ---------------------------------------------------------------------------
    def ev(self, e: ast.expr, env: Env, cx: Ctx) -> FrozenSet[str]:
        if isinstance(e, ast.Constant):
            return self.const_kinds(e, cx.scope) or K_FT
        if isinstance(e, ast.Name):
            v = env_get(env, e.id)
            if v is not None:
                return v
            if self.is_unset_name(e, cx):
                return K_U
            return self.kinds_of_type(cx.scope.name(e.id))
        if isinstance(e, ast.Attribute):
            return self._ev_attr(e, env, cx)
        if isinstance(e, ast.Await):
            return self.ev(e.value, env, cx)
        if isinstance(e, ast.Call):
            return self._ev_call(e, env, cx)
        if isinstance(e, ast.BoolOp):
            res: Set[str] = set()
            cur = [env]
            for i, v in enumerate(e.values):
                last = i == len(e.values) - 1
                nxt: List[Env] = []
                for en in cur:
                    kinds = self.ev(v, en, cx)
                    if last:
                        res |= kinds
                        continue
                    t, f_ = self.split(v, en, _quiet(cx))
                    if isinstance(e.op, ast.Or):
                        if t:
                            res |= (kinds & K_T) or K_T
                        nxt += f_
                    else:
                        if f_:
                            res |= (kinds - K_T) or K_F
                        nxt += t
                cur = nxt
                if not cur:
                    break
            return frozenset(res) or K_VAL
        if isinstance(e, ast.IfExp):
            t, f_ = self.split(e.test, env, cx)
            res = set()
            for en in t:
                res |= self.ev(e.body, en, cx)
            for en in f_:
                res |= self.ev(e.orelse, en, cx)
            return frozenset(res) or K_VAL
        if isinstance(e, ast.Compare):
            self.ev(e.left, env, cx)
            for c in e.comparators:
                self.ev(c, env, cx)
            return K_FT
        if isinstance(e, ast.UnaryOp):
            self.ev(e.operand, env, cx)
            return K_FT
        if isinstance(e, ast.BinOp):
            self.ev(e.left, env, cx)
            self.ev(e.right, env, cx)
            return K_FT
        if isinstance(e, ast.Subscript):
            self.ev(e.value, env, cx)
            if not isinstance(e.slice, ast.Slice):
                self.ev(e.slice, env, cx)
                if self.cfg_.subscript_keyerror and isinstance(e.ctx, ast.Load):
                    bt = self.types.expr(e.value, cx.scope)
                    if any(m[0] in ('dict', 'any', 'dictget') for m in members(bt)):
                        cx.raised.append(('KeyError', self._w(cx, f'{norm(e)[:60]} (mapping subscript)', env, okey='subscript')))
            v = env_get(env, dotted(e) or '')
            return v or K_VAL
        if isinstance(e, ast.JoinedStr):
            for v in e.values:
                if isinstance(v, ast.FormattedValue):
                    self.ev(v.value, env, cx)
                    # a format specification is interpreted by the value's type: `{x:.16}` is a ValueError for an int, a TypeError
                    # for None / a list / a dict — harmless only where the value is known to be text or a number of the right kind
                    spec = v.format_spec
                    if spec is not None and isinstance(spec, ast.JoinedStr) and spec.values and v.conversion == -1:
                        vt = self.types.expr(v.value, cx.scope)
                        if not all(m[0] == 'b' and m[1] in ('str', 'float') for m in members(vt)):
                            for cls_ in ('TypeError', 'ValueError'):
                                cx.raised.append((cls_, self._w(cx, f'{norm(v.value)[:40]} formatted with a format specification', env, okey='format')))
            return K_FT
        if isinstance(e, (ast.List, ast.Tuple, ast.Set)):
            for x in e.elts:
                self.ev(x.value if isinstance(x, ast.Starred) else x, env, cx)
            if not e.elts:
                return K_F
            return K_T if any(not isinstance(x, ast.Starred) for x in e.elts) else K_FT
        if isinstance(e, ast.Dict):
            for kx in e.keys:
                if kx is not None:
                    self.ev(kx, env, cx)
            for vx in e.values:
                self.ev(vx, env, cx)
            return K_T if any(kx is not None for kx in e.keys) else (K_FT if e.keys else K_F)
        if isinstance(e, (ast.ListComp, ast.SetComp, ast.GeneratorExp, ast.DictComp)):
            self._ev_comp(e, env, cx)
            return K_FT if not isinstance(e, ast.GeneratorExp) else K_T
        if isinstance(e, ast.Lambda):
            return K_T
        if isinstance(e, ast.Starred):
            return self.ev(e.value, env, cx)
        if isinstance(e, ast.NamedExpr):
            return self.ev(e.value, env, cx)
        if isinstance(e, (ast.Yield, ast.YieldFrom)):
            if e.value is not None:
                self.ev(e.value, env, cx)
            return K_VAL
        return K_VAL

    def _ev_comp(self, e: ast.AST, env: Env, cx: Ctx) -> None:
        inner_scope = CompScope(cx.scope, e, self.types)
        sub = Ctx(cx.f, inner_scope, cx.recv, cx.depth, cx.node, cx.stack)
        env2 = env
        for gen in e.generators:
            # the first iterable is evaluated in the enclosing scope
            self.ev(gen.iter, env2, cx if gen is e.generators[0] else sub)
            for nm in _target_names(gen.target):
                env2 = env_kill(env2, nm)
                el = self.kinds_of_type(inner_scope.name(nm))
                env2 = env_set(env2, nm, el)
            for cond in gen.ifs:
                t, _ = self.split(cond, env2, sub)
                if len(t) == 1:
                    env2 = t[0]
        if isinstance(e, ast.DictComp):
            self.ev(e.key, env2, sub)
            self.ev(e.value, env2, sub)
        else:
            self.ev(e.elt, env2, sub)
        cx.raised += sub.raised
        cx.kill |= sub.kill

    def _ev_attr(self, e: ast.Attribute, env: Env, cx: Ctx) -> FrozenSet[str]:
        d = dotted(e)
        if d is not None:
            v = env_get(env, d)
            if v is not None:
                return v
            if self.is_unset_name(e, cx):
                return K_U
        base = e.value
        bkey = dotted(base)
        if bkey is not None and bkey != 'self':
            bk = env_get(env, bkey)
            if bk is not None and ('N' in bk or 'U' in bk) and cx.depth < 90:
                self.none_derefs.setdefault((cx.f.qualname, norm(e)), self._w(
                    cx, f'`{norm(e)}` dereferences `{bkey}`, which can be {" or ".join(KIND_WORDS[k] for k in sorted(bk & frozenset("NU")))} here', env))
        bt = self.types.expr(base, cx.scope)
        # property getters of repo classes are analysed as calls
        out: Set[str] = set()
        handled = False
        for m in members(bt):
            if m[0] == 'inst':
                ci = self.prog.classes.get(m[1])
                meth = self.prog.find_method(ci, e.attr) if ci else None
                if meth is not None and meth.kind == 'property':
                    handled = True
                    targets = [meth]
                    if ci is not None:
                        for sc in self.prog.subclasses(ci, strict=True):
                            g = sc.methods.get(e.attr)
                            if g is not None and g.kind == 'property' and g not in targets:
                                targets.append(g)
                    for g in targets:
                        if _is_abstract(g):
                            continue
                        r = self._call_func(g, None, base, [], {}, env, cx, skip_first=True)
                        out |= r
        if not isinstance(base, ast.Name):
            self.ev(base, env, cx)
        if handled and out:
            return frozenset(out)
        if isinstance(base, ast.Name) and base.id == 'self':
            ck = self.class_const(cx.recv, e.attr)
            if ck is not None:
                return ck
        return self.kinds_of_type(self.types.attr(bt, e.attr))

    # -- calls ---------------------------------------------------------------------------------
    def _ev_call(self, call: ast.Call, env: Env, cx: Ctx) -> FrozenSet[str]:
        pos: List[Optional[FrozenSet[str]]] = []
        star = False
        for a in call.args:
            if isinstance(a, ast.Starred):
                self.ev(a.value, env, cx)
                star = True
                pos.append(None)
            else:
                pos.append(self.ev(a, env, cx))
        kws: Dict[str, FrozenSet[str]] = {}
        dstar = False
        for kw in call.keywords:
            kk = self.ev(kw.value, env, cx)
            if kw.arg is None:
                dstar = True
            else:
                kws[kw.arg] = kk
        func = call.func
        # syntactic special cases
        if isinstance(func, ast.Name) and func.id == 'isinstance':
            return K_FT
        if isinstance(func, ast.Attribute) and func.attr == 'get' and 1 <= len(call.args) <= 2 and not call.keywords:
            bt = self.types.expr(func.value, cx.scope)
            if all(m[0] in ('dict', 'any', 'dictget', 'user') for m in members(bt)):
                self.ev(func.value, env, cx)
                dflt = pos[1] if len(pos) > 1 and pos[1] is not None else K_N
                self.calls_resolved += 1
                return K_VAL | dflt
        if not isinstance(func, (ast.Name, ast.Attribute)):
            self.ev(func, env, cx)
        elif isinstance(func, ast.Attribute) and not isinstance(func.value, ast.Name):
            self.ev(func.value, env, cx)
        targets = self.types.callees(call, cx.scope)
        out: Set[str] = set()
        precise = True
        for kind, obj in targets:
            if kind == 'func':
                f2: FuncInfo = obj  # type: ignore[assignment]
                if _is_abstract(f2) and len(targets) > 1:
                    continue
                self.calls_resolved += 1
                skip = f2.cls is not None and f2.parent is None and f2.kind in ('method', 'classmethod', 'property') \
                    and isinstance(func, ast.Attribute)
                recv_expr = func.value if isinstance(func, ast.Attribute) else None
                out |= self._call_func(f2, call, recv_expr, pos, kws, env, cx, skip_first=skip, star=star or dstar)
            elif kind == 'ctor':
                ci: ClassInfo = obj  # type: ignore[assignment]
                self.calls_resolved += 1
                classes = [ci]
                ft = self.types.expr(func, cx.scope)
                if any(m[0] == 'cls' and len(m) > 2 and m[1] == ci.qualname for m in members(ft)):
                    classes += self.prog.subclasses(ci, strict=True)
                for c in classes:
                    init = self.prog.find_method(c, '__init__')
                    if init is not None:
                        self._call_func(init, call, None, pos, kws, env, cx, skip_first=True, star=star or dstar,
                                        recv_override=c.qualname, ctor=True)
                    out |= K_T if self.always_truthy(c.qualname) else K_FT
            elif kind == 'ext':
                name = str(obj)
                rs = self.cfg_.ext_raises.get(name)
                if name == 'next' and len(call.args) == 1:
                    rs = ('StopIteration',)
                if rs:
                    self.calls_resolved += 1
                    for R in rs:
                        cx.raised.append((R, self._w(cx, f'{norm(call)[:70]} → {name} may raise {R}', env, okey='ext:' + name)))
                else:
                    self.assumed_total.setdefault(name, set()).add(f'{cx.f.qualname}:{norm(call)[:60]}')
                precise = False
            elif kind == 'user':
                rs2: Optional[Set[str]] = None
                if self.cfg_.user_raises is not None:
                    rs2 = self.cfg_.user_raises(cx.f, call, cx.scope)
                site = f'{cx.f.qualname}: {norm(call)[:70]}'
                if rs2 is None:
                    rs2 = {'Exception+'}
                    self.user_calls[site] = 'user code: may raise any Exception'
                else:
                    self.user_calls[site] = 'assumed by the property\'s proviso: ' + (', '.join(sorted(rs2)) or 'does not raise')
                for R in rs2:
                    cx.raised.append((R, self._w(cx, f'{norm(call)[:70]} (user-supplied callable)', env, okey='user-call')))
                if self.cfg_.user_returns is not None:
                    uk = self.cfg_.user_returns(cx.f, call)
                    if uk is not None:
                        out |= uk
                        continue
                precise = False
            elif kind == 'lambda':
                precise = False
            else:
                self.assumed_total.setdefault(f'?{obj}', set()).add(f'{cx.f.qualname}:{norm(call)[:60]}')
                precise = False
        if precise and out:
            return frozenset(out)
        tk = self.kinds_of_type(self.types.call_result(call, cx.scope))
        return frozenset(out | tk)

    def _call_func(self, f2: FuncInfo, call: Optional[ast.Call], recv_expr: Optional[ast.expr],
                   pos: List[Optional[FrozenSet[str]]], kws: Dict[str, FrozenSet[str]], env: Env, cx: Ctx,
                   skip_first: bool, star: bool = False, recv_override: Optional[str] = None,
                   ctor: bool = False) -> FrozenSet[str]:
        if cx.depth >= self.cfg_.max_depth:
            self.depth_cutoffs.add(f2.qualname)
            return self.kinds_of_type(self.types.func_return(f2))
        params = f2.params[1:] if skip_first and f2.params else f2.params
        a = f2.node.args
        env0: Env = EMPTY_ENV
        names = [p.arg for p in params]
        posnames = [p.arg for p in (list(a.posonlyargs) + list(a.args))]
        if skip_first and posnames:
            posnames = posnames[1:]
        bound: Dict[str, FrozenSet[str]] = {}
        for i, kk in enumerate(pos):
            if kk is None:
                break
            if i < len(posnames):
                bound[posnames[i]] = kk
        for k_, v_ in kws.items():
            if k_ in names:
                bound[k_] = v_
        for nm in names:
            if (a.vararg and a.vararg.arg == nm) or (a.kwarg and a.kwarg.arg == nm):
                continue
            if nm in bound:
                env0 = env_set(env0, nm, bound[nm])
            elif not star and f2.param_default(nm) is not None:
                dk = self._default_kinds(f2, nm)
                env0 = env_set(env0, nm, dk or self.kinds_of_type(self.types.param_type(f2, nm)))
            else:
                env0 = env_set(env0, nm, self.kinds_of_type(self.types.param_type(f2, nm)) | (
                    self._default_kinds(f2, nm) if star else frozenset()))
        is_self = isinstance(recv_expr, ast.Name) and recv_expr.id == 'self' and not ctor
        recv = recv_override
        inits: Set[Env] = set()
        if is_self:
            recv = cx.recv
            selfpart = tuple((k, v) for k, v in env if k.startswith('self.'))
            inits.add(tuple(sorted(env0 + selfpart)))
        elif not ctor and recv_expr is not None and f2.cls is not None and f2.kind in ('method', 'property'):
            rt = self.types.expr(recv_expr, cx.scope)
            cands = [m[1] for m in members(rt) if m[0] == 'inst']
            recv = recv or (cands[0] if len(cands) == 1 else f2.cls.qualname)
            inv = self.invariant(recv) if recv else None
            if inv is None and f2.cls is not None:
                inv = self.invariant(f2.cls.qualname)
            # overlay what the caller knows about the receiver's attributes (`response._error`)
            rkey = dotted(recv_expr)
            known: Dict[str, FrozenSet[str]] = {}
            if rkey:
                pre = rkey + '.'
                known = {'self.' + k[len(pre):]: v for k, v in env if k.startswith(pre)}
            for ie in (inv or {EMPTY_ENV}):
                d = dict(ie)
                ok = True
                for k_, v_ in known.items():
                    nv = (d[k_] & v_) if k_ in d else v_
                    if not nv:
                        ok = False
                        break
                    d[k_] = nv
                if ok:
                    inits.add(tuple(sorted(env0 + tuple(d.items()))))
            if not inits:
                return frozenset()
        else:
            inits.add(env0)
            if f2.kind == 'classmethod' and recv_expr is not None:
                rt = self.types.expr(recv_expr, cx.scope)
                cands = [m[1] for m in members(rt) if m[0] == 'cls']
                if len(cands) == 1:
                    recv = cands[0]
        res = self.analyze(f2, inits, recv=recv, depth=cx.depth + 1, stack=cx.stack)
        for (R, _o), w in res.raises.items():
            txt = norm(call)[:70] if call is not None else f'.{f2.name}'
            cx.raised.append((R, self._w(cx, f'{txt} → {f2.qualname.rsplit(".", 2)[-2]}.{f2.name}', env, via=w)))
        if is_self:
            for n in walk_own(f2.node):
                if isinstance(n, ast.Attribute) and isinstance(n.ctx, ast.Store) and isinstance(n.value, ast.Name) \
                        and n.value.id == 'self':
                    cx.kill.add('self.' + n.attr)
        if not res.complete:
            return self.kinds_of_type(self.types.func_return(f2))
        return res.ret or frozenset()


def _quiet(cx: Ctx) -> Ctx:
    q = Ctx(cx.f, cx.scope, cx.recv, cx.depth, cx.node, cx.stack)
    return q


def _dedup(envs: List[Env]) -> List[Env]:
    seen = set()
    out = []
    for e in envs:
        if e not in seen:
            seen.add(e)
            out.append(e)
    return out


def _target_names(tg: ast.expr) -> List[str]:
    if isinstance(tg, ast.Name):
        return [tg.id]
    if isinstance(tg, (ast.Tuple, ast.List)):
        out: List[str] = []
        for el in tg.elts:
            out += _target_names(el.value if isinstance(el, ast.Starred) else el)
        return out
    d = dotted(tg)
    return [d] if d else []


def _is_abstract(f: FuncInfo) -> bool:
    return any((dotted(d) or '').endswith('abstractmethod') for d in f.decorators)
