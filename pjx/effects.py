"""Effect and retention analysis over the call tree of an entry point.

* call tree: transitive closure of resolved repo callees (functions, constructors, property getters)
* long-lived classes: instances reachable from the root object's fields (and module-level instances)
* shared writes: attribute stores / mutating calls whose receiver is a long-lived object, module or class state
* retention: per-request values (entry parameters and anything allocated or derived from them during the
  call) that reach a long-lived sink: attribute/container stores on long-lived objects, or arguments of
  memoised functions (functools.lru_cache / cache keep their arguments as cache keys)
"""
from __future__ import annotations

import ast
from dataclasses import dataclass
from typing import Dict, Iterable, List, Optional, Set, Tuple

from .model import AnalysisError, ClassInfo, FuncInfo, Module, Program, dotted, norm
from .types import ANY, FuncScope, Types, members, types_of, walk_own

MUTATORS = {'add', 'append', 'extend', 'update', 'insert', 'remove', 'discard', 'pop', 'clear', 'setdefault', 'sort',
            'reverse', 'popitem', 'appendleft', '__setitem__', '__delitem__'}
MEMO_DECORATORS = {'functools.lru_cache', 'functools.cache', 'functools.cached_property'}
FRESH_CALLS = {'dict', 'list', 'set', 'tuple', 'copy.deepcopy', 'copy.copy', 'sorted', 'frozenset', 'collections.defaultdict',
               'collections.OrderedDict', 'str', 'int', 'repr'}

PR, LL, MIX = 'per-request', 'long-lived', 'mixed'


@dataclass
class Write:
    func: FuncInfo
    line: int
    text: str
    target: str
    why: str


@dataclass
class Retention:
    func: FuncInfo
    line: int
    text: str
    sink: str
    value: str


LAZY_ITER_CALLS = {'map', 'filter', 'zip', 'iter', 'reversed', 'enumerate', 'itertools.chain', 'it.chain', 'itertools.chain.from_iterable',
                   'it.chain.from_iterable', 'itertools.islice', 'it.islice', 'itertools.count', 'it.count', 'itertools.repeat', 'it.repeat',
                   'itertools.cycle', 'it.cycle', 'itertools.filterfalse', 'it.filterfalse', 'itertools.takewhile', 'it.takewhile',
                   'itertools.dropwhile', 'it.dropwhile', 'itertools.starmap', 'it.starmap', 'itertools.zip_longest', 'it.zip_longest'}


def is_memo_decorated(prog: Program, f: FuncInfo) -> bool:
    for d in f.decorators:
        target = d.func if isinstance(d, ast.Call) else d
        ent = prog.resolve(f.module, target)
        if isinstance(ent, str) and ent in MEMO_DECORATORS:
            return True
    return False


def returns_one_shot_iterator(prog: Program, f: FuncInfo) -> Optional[str]:
    """Why the value `f` returns is an iterator that can be consumed only once (None if it is not known to be one): `f` is a generator
    function, or returns a generator expression, a call of a generator function or of a lazy builtin / itertools object."""
    from .types import walk_own
    if any(isinstance(x, (ast.Yield, ast.YieldFrom)) for x in walk_own(f.node)):
        return 'it is a generator function: each call returns a fresh generator object'
    for x in walk_own(f.node):
        if isinstance(x, ast.Return) and x.value is not None:
            v = x.value
            if isinstance(v, ast.GeneratorExp):
                return f'it returns the generator expression `{norm(v)[:50]}`'
            if isinstance(v, ast.Call):
                d = dotted(v.func)
                if d in LAZY_ITER_CALLS:
                    return f'it returns the lazy iterator `{norm(v)[:50]}`'
                if isinstance(v.func, ast.Name) and v.func.id in f.nested and \
                        any(isinstance(y, (ast.Yield, ast.YieldFrom)) for y in walk_own(f.nested[v.func.id].node)):
                    return f'it returns a generator object (`{norm(v)[:40]}`)'
                if isinstance(v.func, ast.Attribute) and dotted(v.func.value) in ('self', 'cls') and f.cls is not None:
                    m = prog.find_method(f.cls, v.func.attr)
                    if m is not None and m is not f and any(isinstance(y, (ast.Yield, ast.YieldFrom)) for y in walk_own(m.node)):
                        return f'it returns a generator object (`{norm(v)[:40]}`)'
    return None


def memoised_one_shot(prog: Program, f: FuncInfo) -> Optional[str]:
    """A memoised function that returns a one-shot iterator hands the SAME, progressively exhausted iterator to every caller."""
    if not is_memo_decorated(prog, f):
        return None
    why = returns_one_shot_iterator(prog, f)
    if why is None:
        return None
    return (f'{f.qualname} is memoised (lru_cache / cache) and {why}: the cache keeps that one iterator object, so every later call with '
            f'equal arguments receives the same, already (partly) consumed iterator')


class Effects:
    def __init__(self, prog: Program, entries: List[FuncInfo], root_classes: List[ClassInfo]):
        self.prog = prog
        self.ty: Types = types_of(prog)
        self.entries = entries
        self.tree: Dict[str, FuncInfo] = {}
        self.call_sites: Dict[str, List[Tuple[FuncInfo, ast.Call, bool]]] = {}   # callee -> [(caller, call, skip_first)]
        self.unresolved: Set[str] = set()
        self._closure()
        self.long_lived: Set[str] = set()
        self.long_lived_bases: Set[str] = set()      # base classes of long-lived classes: `self` in their methods is such an instance
        self._long_lived(root_classes)
        self._param_taint: Dict[Tuple[str, str], str] = {}
        self.param_why: Dict[Tuple[str, str], str] = {}
        self.param_origins: Dict[Tuple[str, str], list] = {}
        self.param_whys: Dict[Tuple[str, str], List[str]] = {}      # every caller that makes the parameter per-request
        self._taint_fixpoint()

    # -- call tree -----------------------------------------------------------------------------
    def _closure(self) -> None:
        work = list(self.entries)
        while work:
            f = work.pop()
            if f.qualname in self.tree:
                continue
            self.tree[f.qualname] = f
            sc = FuncScope(f, self.ty)
            for x in walk_own(f.node):
                if isinstance(x, ast.Call):
                    for k, o in self.ty.callees(x, sc):
                        if k == 'func' and isinstance(o, FuncInfo):
                            if any((dotted(d) or '').endswith('abstractmethod') for d in o.decorators):
                                continue
                            skip = o.cls is not None and o.parent is None and o.kind in ('method', 'classmethod') and isinstance(x.func, ast.Attribute)
                            self.call_sites.setdefault(o.qualname, []).append((f, x, skip))
                            work.append(o)
                        elif k == 'ctor' and isinstance(o, ClassInfo):
                            classes = [o]
                            ft = self.ty.expr(x.func, sc)
                            if any(m[0] == 'cls' and len(m) > 2 for m in members(ft)):
                                classes += self.prog.subclasses(o, strict=True)
                            for c in classes:
                                init = self.prog.find_method(c, '__init__')
                                if init is not None:
                                    self.call_sites.setdefault(init.qualname, []).append((f, x, True))
                                    work.append(init)
                        elif k == 'unknown':
                            self.unresolved.add(f'{f.qualname}: {o}')
                elif isinstance(x, ast.Attribute) and isinstance(x.ctx, ast.Load):
                    bt = self.ty.expr(x.value, sc)
                    for m in members(bt):
                        if m[0] == 'inst':
                            ci = self.prog.classes.get(m[1])
                            meth = self.prog.find_method(ci, x.attr) if ci else None
                            if meth is not None and meth.kind == 'property':
                                work.append(meth)
            for g in f.nested.values():
                # nested functions defined here may be called here
                work.append(g)

    # -- long-lived classes --------------------------------------------------------------------
    def _long_lived(self, roots: List[ClassInfo]) -> None:
        work = [c.qualname for c in roots]
        # module-level instances in the package (e.g. default_validator = BaseValidator())
        for m in self.prog.modules.values():
            for name, b in m.ns.items():
                if b.kind == 'assign' and isinstance(b.target, ast.Call):
                    ent = self.prog.resolve(m, b.target.func)
                    if isinstance(ent, ClassInfo):
                        work.append(ent.qualname)
        while work:
            q = work.pop()
            if q in self.long_lived:
                continue
            ci = self.prog.classes.get(q)
            if ci is None:
                continue
            self.long_lived.add(q)
            for bc in self.prog.mro(ci):
                if isinstance(bc, ClassInfo):
                    self.long_lived_bases.add(bc.qualname)
            for sc in self.prog.subclasses(ci, strict=True):
                work.append(sc.qualname)
            attrs: Set[str] = set()
            for c in self.prog.mro(ci):
                if isinstance(c, ClassInfo):
                    for fn in c.methods.values():
                        for st in walk_own(fn.node):
                            if isinstance(st, ast.Attribute) and isinstance(st.ctx, ast.Store) and dotted(st.value) == 'self':
                                attrs.add(st.attr)
                    attrs |= set(c.attr_ann) | set(c.attrs)
            for a in attrs:
                t = self.ty.inst_attr(q, a)
                for m in self._flatten(t):
                    if m[0] == 'inst' and m[1] not in self.long_lived:
                        work.append(m[1])

    def _flatten(self, t: tuple) -> List[tuple]:
        out = []
        for m in members(t):
            if m[0] in ('seq', 'dict', 'gen', 'partial') and len(m) > 1 and isinstance(m[1], tuple):
                out += self._flatten(m[1])
            else:
                out.append(m)
        return out

    def is_long_lived_class(self, q: Optional[str]) -> bool:
        return q is not None and q in self.long_lived

    # -- taint ---------------------------------------------------------------------------------
    def _taint_fixpoint(self) -> None:
        for e in self.entries:
            for p in e.params:
                if p.arg in ('self', 'cls'):
                    continue
                self._param_taint[(e.qualname, p.arg)] = PR
        for _ in range(12):
            changed = False
            for q, sites in self.call_sites.items():
                callee = self.tree.get(q)
                if callee is None:
                    continue
                params = callee.params[1:] if (callee.cls is not None and callee.parent is None and callee.kind in ('method', 'classmethod', 'property')) else callee.params
                pnames = [p.arg for p in params]
                a = callee.node.args
                posnames = [p.arg for p in (list(a.posonlyargs) + list(a.args))]
                for caller, call, skip in sites:
                    pn = posnames[1:] if (callee.cls is not None and callee.parent is None and callee.kind in ('method', 'classmethod') and skip) or \
                        (callee.name == '__init__') else posnames
                    binds: List[Tuple[str, ast.expr]] = []
                    for i, arg in enumerate(call.args):
                        if isinstance(arg, ast.Starred):
                            if a.vararg:
                                binds.append((a.vararg.arg, arg.value))
                            break
                        if i < len(pn):
                            binds.append((pn[i], arg))
                        elif a.vararg:
                            binds.append((a.vararg.arg, arg))
                    for kw in call.keywords:
                        if kw.arg and kw.arg in pnames:
                            binds.append((kw.arg, kw.value))
                        elif kw.arg is None and a.kwarg:
                            binds.append((a.kwarg.arg, kw.value))
                        elif kw.arg and a.kwarg:
                            binds.append((a.kwarg.arg, kw.value))
                    for pname, expr in binds:
                        t = self.taint(expr, caller)
                        key = (q, pname)
                        cur = self._param_taint.get(key)
                        new = t if cur is None else (cur if cur == t else MIX)
                        if cur == PR or t == PR or cur == MIX or t == MIX:
                            new = PR if (cur in (PR, MIX) or t in (PR, MIX)) else new
                        if new != cur:
                            self._param_taint[key] = new
                            changed = True
                        if t == PR:
                            why_ = f'{caller.module.rel}:{call.lineno} {caller.qualname.rsplit(".", 2)[-2]}.{caller.name} passes `{norm(expr)[:50]}`'
                            if key not in self.param_why:
                                self.param_why[key] = why_
                            lst_ = self.param_whys.setdefault(key, [])
                            if why_ not in lst_:
                                lst_.append(why_)
                                self.param_origins.setdefault(key, []).append((caller, expr, call.lineno))
            if not changed:
                return

    def taint(self, e: ast.expr, f: FuncInfo, _depth: int = 0) -> str:
        """PR if the value is (derived from) per-request data or freshly allocated during the call; LL otherwise."""
        if _depth > 10:
            return LL
        if isinstance(e, ast.Constant):
            return LL
        if isinstance(e, ast.Await):
            return self.taint(e.value, f, _depth + 1)
        if isinstance(e, ast.Name):
            g: Optional[FuncInfo] = f
            while g is not None:
                if any(p.arg == e.id for p in g.params):
                    if e.id in ('self', 'cls'):
                        ci = self.ty.self_class(g)
                        return LL if ci is None or self.is_long_lived_class(ci.qualname) else PR
                    return self._param_taint.get((g.qualname, e.id), LL)
                vals = []
                for st in walk_own(g.node):
                    if isinstance(st, ast.Assign):
                        for tg in st.targets:
                            if isinstance(tg, ast.Name) and tg.id == e.id:
                                vals.append(st.value)
                            elif isinstance(tg, (ast.Tuple, ast.List)) and any(isinstance(x, ast.Name) and x.id == e.id for x in tg.elts):
                                vals.append(st.value)
                    elif isinstance(st, ast.AnnAssign) and isinstance(st.target, ast.Name) and st.target.id == e.id and st.value is not None:
                        vals.append(st.value)
                    elif isinstance(st, (ast.For, ast.AsyncFor, ast.comprehension)) and any(
                            isinstance(x, ast.Name) and x.id == e.id for x in ast.walk(st.target)):
                        vals.append(st.iter)
                    elif isinstance(st, ast.NamedExpr) and st.target.id == e.id:
                        vals.append(st.value)
                    elif isinstance(st, ast.ExceptHandler) and st.name == e.id:
                        return PR
                if vals:
                    ts = {self.taint(v, g, _depth + 1) for v in vals}
                    return PR if PR in ts else LL
                g = g.parent
            return LL      # module-level name
        if isinstance(e, ast.Attribute):
            return self.taint(e.value, f, _depth + 1)
        if isinstance(e, ast.Subscript):
            return self.taint(e.value, f, _depth + 1)
        if isinstance(e, (ast.BoolOp,)):
            ts = {self.taint(v, f, _depth + 1) for v in e.values}
            return PR if PR in ts else LL
        if isinstance(e, ast.IfExp):
            ts = {self.taint(e.body, f, _depth + 1), self.taint(e.orelse, f, _depth + 1)}
            return PR if PR in ts else LL
        if isinstance(e, (ast.Tuple, ast.List, ast.Set)):
            ts = {self.taint(x.value if isinstance(x, ast.Starred) else x, f, _depth + 1) for x in e.elts}
            return PR if PR in ts else LL       # a fresh tuple of long-lived values is value-like
        if isinstance(e, ast.Dict):
            ts = {self.taint(v, f, _depth + 1) for v in e.values}
            return PR if PR in ts else LL
        if isinstance(e, ast.Call):
            sc = FuncScope(f, self.ty)
            tg = self.ty.callees(e, sc)
            if any(k == 'ctor' for k, _ in tg):
                # constructing an object allocates per-request state unless all inputs are long-lived value-likes
                ent = [o for k, o in tg if k == 'ctor']
                if any(isinstance(o, ClassInfo) and o.qualname not in ('pjrpc.common.common.UnsetType',) for o in ent):
                    return PR
            args = [a.value if isinstance(a, ast.Starred) else a for a in e.args] + [kw.value for kw in e.keywords]
            ts = {self.taint(a, f, _depth + 1) for a in args}
            if isinstance(e.func, ast.Attribute):
                ts.add(self.taint(e.func.value, f, _depth + 1))
            if any(k == 'ext' and str(o) == 'getattr' for k, o in tg):
                return PR if PR in ts else LL
            return PR if PR in ts else LL
        if isinstance(e, (ast.ListComp, ast.SetComp, ast.GeneratorExp, ast.DictComp)):
            ts = {self.taint(g.iter, f, _depth + 1) for g in e.generators}
            return PR if PR in ts else LL
        if isinstance(e, ast.Lambda):
            return PR
        if isinstance(e, ast.JoinedStr):
            return LL
        if isinstance(e, ast.Starred):
            return self.taint(e.value, f, _depth + 1)
        return LL

    # -- sinks ---------------------------------------------------------------------------------
    def is_memoised(self, f: FuncInfo) -> bool:
        for d in f.decorators:
            target = d.func if isinstance(d, ast.Call) else d
            ent = self.prog.resolve(f.module, target)
            if isinstance(ent, str) and ent in MEMO_DECORATORS:
                return True
        return False

    def receiver_state(self, e: ast.expr, f: FuncInfo) -> Optional[str]:
        """Classify the object written to by a store/mutation rooted at expression e:
        'self:<cls>' long-lived receiver, 'module:<name>', 'class:<name>', 'param:<name>' or None (local/fresh)."""
        root = e
        while isinstance(root, (ast.Attribute, ast.Subscript)):
            root = root.value
        if isinstance(root, ast.Call) and dotted(root.func) in ('type',):
            return 'class:type(...)'
        if not isinstance(root, ast.Name):
            return None
        name = root.id
        g: Optional[FuncInfo] = f
        while g is not None:
            if any(p.arg == name for p in g.params):
                if name == 'self':
                    ci = self.ty.self_class(g)
                    if ci is not None and (self.is_long_lived_class(ci.qualname) or ci.qualname in self.long_lived_bases) and \
                            g.name not in ('__init__', '__new__', '__post_init__'):
                        return f'self:{ci.qualname}'
                    return None
                if name in ('cls', 'mcs'):
                    return f'class:{name}'
                t = self._param_taint.get((g.qualname, name))
                tt = self.ty.param_type(g, name)
                if t != PR and any(m[0] == 'inst' and self.is_long_lived_class(m[1]) for m in members(tt)):
                    return f'param:{name}'
                if t == LL and e is not root:
                    return f'param:{name}'
                return None
            # local variable: alias of long-lived state?
            aliased = None
            for st in walk_own(g.node):
                # `for x in (self, other): x.attr.sort()`: the loop variable stands for each element of the display
                if isinstance(st, (ast.For, ast.AsyncFor)) and isinstance(st.target, ast.Name) and st.target.id == name and \
                        isinstance(st.iter, (ast.Tuple, ast.List)):
                    for el in st.iter.elts:
                        if isinstance(el, (ast.Name, ast.Attribute)) and not (isinstance(el, ast.Name) and el.id == name):
                            r_ = self.receiver_state(el if isinstance(el, ast.Attribute) else ast.Attribute(value=el, attr='_', ctx=ast.Load()), g)
                            if r_:
                                return r_
                    return None
            for st in walk_own(g.node):
                if isinstance(st, ast.Assign) and any(isinstance(t, ast.Name) and t.id == name for t in st.targets):
                    v = st.value
                    if isinstance(v, ast.Call) and (dotted(v.func) or '').rsplit('.', 1)[-1] in ('get_meta', 'set_meta') and v.args:
                        # the metadata dictionary kept on a function / method object (pjrpc.server.utils): it belongs to that object,
                        # which is registered once and lives as long as the registry
                        return f'meta:{norm(v.args[0])[:40]}'
                    if isinstance(v, (ast.Attribute, ast.Subscript, ast.Name)) or \
                            (isinstance(v, ast.BoolOp) and isinstance(v.values[0], (ast.Attribute, ast.Subscript, ast.Name, ast.Call))):
                        v0 = v.values[0] if isinstance(v, ast.BoolOp) else v
                        if isinstance(v0, ast.Call) and isinstance(v0.func, ast.Attribute) and v0.func.attr in ('get', 'setdefault', 'pop'):
                            v0 = v0.func.value
                        if isinstance(v0, (ast.Attribute, ast.Subscript, ast.Name)) and v0 is not st.value or isinstance(v, (ast.Attribute, ast.Subscript, ast.Name)):
                            r = self.receiver_state(v0, g) if not (isinstance(v0, ast.Name) and v0.id == name) else None
                            if r:
                                aliased = r
                    return aliased if aliased else None
            if name in g.nested:
                return None
            g = g.parent
        # module-level
        ent = self.prog.resolve(f.module, root)
        if isinstance(ent, ClassInfo):
            return f'class:{ent.qualname}'
        if isinstance(ent, Module):
            return f'module:{ent.name}'
        if ent is not None or name in f.module.ns:
            return f'module:{f.module.name}.{name}'
        return None

    def shared_writes(self, funcs: Optional[Iterable[FuncInfo]] = None) -> List[Write]:
        out: List[Write] = []
        for f in (funcs or self.tree.values()):
            for x in walk_own(f.node):
                if isinstance(x, ast.Global) or isinstance(x, ast.Nonlocal):
                    out.append(Write(f, x.lineno, norm(x), ','.join(x.names), 'rebinding of outer state'))
                elif isinstance(x, (ast.Attribute, ast.Subscript)) and isinstance(x.ctx, (ast.Store, ast.Del)):
                    r = self.receiver_state(x.value, f)
                    if r:
                        out.append(Write(f, x.lineno, norm(x), r, 'store'))
                elif isinstance(x, ast.AugAssign) and isinstance(x.op, (ast.Add, ast.BitOr)) and isinstance(x.target, ast.Name):
                    # `alias += [...]` extends the aliased list / dict in place
                    r = self._local_alias(x.target.id, f)
                    if r:
                        out.append(Write(f, x.lineno, norm(x)[:90], r, 'in-place += on an alias of'))
                elif isinstance(x, ast.Call) and isinstance(x.func, ast.Attribute) and x.func.attr in MUTATORS:
                    # mutation of a container: receiver is the container expression
                    recv = x.func.value
                    if isinstance(recv, ast.Name):
                        r = self.receiver_state(ast.Attribute(value=recv, attr='_', ctx=ast.Load()), f) \
                            if self._local_alias(recv.id, f) else None
                        if r is None and self._local_alias(recv.id, f) is None:
                            # bare name: module-level container?
                            if self.ty.local_type(f, recv.id) is None and not any(recv.id in [p.arg for p in g.params] for g in self._chain(f)):
                                r = f'module:{f.module.name}.{recv.id}' if recv.id in f.module.ns else None
                            elif any(recv.id in [p.arg for p in g.params] for g in self._chain(f)):
                                gp = [g for g in self._chain(f) if recv.id in [p.arg for p in g.params]][0]
                                if self._param_taint.get((gp.qualname, recv.id)) == LL:
                                    r = f'param:{recv.id}'
                    else:
                        r = self.receiver_state(recv, f)
                    if r:
                        out.append(Write(f, x.lineno, norm(x)[:90], r, f'mutating call .{x.func.attr}()'))
        return out

    def _chain(self, f: FuncInfo) -> List[FuncInfo]:
        out = []
        g: Optional[FuncInfo] = f
        while g is not None:
            out.append(g)
            g = g.parent
        return out

    def _local_alias(self, name: str, f: FuncInfo) -> Optional[str]:
        for g in self._chain(f):
            for st in walk_own(g.node):
                if isinstance(st, ast.Assign) and any(isinstance(t, ast.Name) and t.id == name for t in st.targets):
                    v = st.value
                    if isinstance(v, ast.BoolOp):
                        v = v.values[0]
                    if isinstance(v, ast.Call) and (dotted(v.func) or '').rsplit('.', 1)[-1] in ('get_meta', 'set_meta') and v.args:
                        # the metadata dictionary kept on a function / method object (pjrpc.server.utils): it belongs to that object,
                        # which is registered once and lives as long as the registry
                        return f'meta:{norm(v.args[0])[:40]}'
                    if isinstance(v, ast.Call) and isinstance(v.func, ast.Attribute) and v.func.attr in ('get', 'setdefault'):
                        v = v.func.value
                    if isinstance(v, (ast.Attribute, ast.Subscript)):
                        return self.receiver_state(v, g)
                    return None
        return None

    def retentions(self) -> List[Retention]:
        out: List[Retention] = []
        # (a) per-request values as arguments of memoised functions
        for q, sites in self.call_sites.items():
            callee = self.tree.get(q)
            if callee is None or not self.is_memoised(callee):
                continue
            for caller, call, skip in sites:
                for a in list(call.args) + [kw.value for kw in call.keywords]:
                    av = a.value if isinstance(a, ast.Starred) else a
                    if self.taint(av, caller) == PR:
                        whys = ['']
                        if isinstance(av, ast.Name):
                            # the callers at the ROOT of the chain that hands the value down (a caller that merely passes its own
                            # per-request parameter on is followed upwards)
                            roots: List[str] = []

                            def chase(fq: str, pn: str, depth: int = 0) -> None:
                                for cf, ex, ln in self.param_origins.get((fq, pn), []):
                                    if isinstance(ex, ast.Name) and self.param_origins.get((cf.qualname, ex.id)) and depth < 6:
                                        chase(cf.qualname, ex.id, depth + 1)
                                    else:
                                        w_ = f'{cf.module.rel}:{ln} {cf.qualname.rsplit(".", 2)[-2]}.{cf.name} passes `{norm(ex)[:50]}`'
                                        if w_ not in roots:
                                            roots.append(w_)
                            chase(caller.qualname, av.id)
                            whys = roots or [self.param_why.get((caller.qualname, av.id), '')]
                        # one record per caller that makes the value per-request: each is a way of its own into the cache
                        for why in whys:
                            out.append(Retention(caller, call.lineno, norm(call)[:90], f'cache key of memoised {callee.qualname}',
                                                 norm(av) + (f' (per-request because {why})' if why else '')))
        # (a') a long-lived exception object raised during the call accumulates traceback / __cause__ / __context__
        for f in self.tree.values():
            for x in walk_own(f.node):
                if isinstance(x, ast.Raise) and isinstance(x.exc, (ast.Name, ast.Attribute)):
                    r = None
                    if isinstance(x.exc, ast.Name):
                        if self.ty.local_type(f, x.exc.id) is None and not any(x.exc.id in [p.arg for p in g.params] for g in self._chain(f)):
                            b = f.module.ns.get(x.exc.id)
                            if b is not None and b.kind == 'assign' and isinstance(b.target, ast.Call):
                                r = f'module:{f.module.name}.{x.exc.id}'
                    else:
                        r = self.receiver_state(x.exc, f)
                    if r:
                        out.append(Retention(f, x.lineno, norm(x)[:90], f'long-lived exception object {r}',
                                             'the raised instance keeps the traceback frames (and `from e` cause) of this request'))
        # (b) per-request values stored into long-lived objects
        for f in self.tree.values():
            for x in walk_own(f.node):
                if isinstance(x, ast.Assign):
                    for tg in x.targets:
                        if isinstance(tg, (ast.Attribute, ast.Subscript)):
                            r = self.receiver_state(tg.value, f)
                            if r and self.taint(x.value, f) == PR:
                                out.append(Retention(f, x.lineno, norm(x)[:90], r, norm(x.value)[:50]))
                elif isinstance(x, ast.Call) and isinstance(x.func, ast.Attribute) and x.func.attr in MUTATORS:
                    r = self.receiver_state(x.func.value, f) if not isinstance(x.func.value, ast.Name) else self._local_alias(x.func.value.id, f)
                    if r is None and isinstance(x.func.value, ast.Name) and x.func.value.id in f.module.ns and \
                            self.ty.local_type(f, x.func.value.id) is None:
                        r = f'module:{f.module.name}.{x.func.value.id}'
                    if r and any(self.taint(a.value if isinstance(a, ast.Starred) else a, f) == PR
                                 for a in list(x.args) + [kw.value for kw in x.keywords]):
                        out.append(Retention(f, x.lineno, norm(x)[:90], r, 'per-request argument'))
                # (c) interning registries of the standard library: logging keeps every logger ever requested, keyed by its
                #     name, in Logger.manager.loggerDict for the life of the process
                if isinstance(x, ast.Call) and x.args:
                    d = dotted(x.func) or ''
                    is_reg = d in ('logging.getLogger',) or (isinstance(x.func, ast.Attribute) and x.func.attr == 'getChild')
                    if is_reg and self.taint(x.args[0], f) == PR:
                        out.append(Retention(f, x.lineno, norm(x)[:90], 'logging logger registry (Logger.manager.loggerDict)',
                                             norm(x.args[0])[:50] + ' (a logger is created and kept for every distinct per-request name)'))
        return out
