"""Silence battery: behaviour-preserving rewrites of the current tree (other idioms for the same behaviour, one-sided or
two-sided).  No check may report a new finding on any of them; an ANALYSIS-ERROR counts as a failure of the checker too.
`python -m pjx.neutral` runs every property against every variant (in memory) and exits 1 on an alarm."""
from __future__ import annotations

import importlib
import sys
from typing import Any, Dict, List

from .model import AnalysisError, Program
from .mutate import apply
from .report import Check

D='pjrpc/server/dispatcher.py'; V='pjrpc/common/v20.py'; E='pjrpc/common/exceptions.py'; R='pjrpc/client/retry.py'; C='pjrpc/client/client.py'
NEUTRAL = [
 dict(name='batch-ids-prescanned-under-a-type-test', file=V,
      find='        return cls(*(Request.from_json(request) for request in data))',
      replace='        seen = {item.get("id") for item in data if isinstance(item, dict) and isinstance(item.get("id"), (int, str))}\n        del seen\n'
              '        return cls(*(Request.from_json(request) for request in data))'),
 dict(name='notif-test-via-is_notification', file=D, all=True, find='        if request.id is None:\n            return UNSET\n', replace='        if request.is_notification:\n            return UNSET\n'),
 dict(name='merge-parse-handlers', file=D, all=True,
      find='        except json.JSONDecodeError as e:\n            response = self._response_class(id=None, error=pjrpc.exceptions.ParseError(data=str(e)))\n\n        except (pjrpc.exceptions.DeserializationError, pjrpc.exceptions.IdentityError) as e:\n            response = self._response_class(id=None, error=pjrpc.exceptions.InvalidRequestError(data=str(e)))\n\n        except ValueError as e:\n            response = self._response_class(id=None, error=pjrpc.exceptions.ParseError(data=str(e)))\n',
      replace='        except (pjrpc.exceptions.DeserializationError, pjrpc.exceptions.IdentityError) as e:\n            response = self._response_class(id=None, error=pjrpc.exceptions.InvalidRequestError(data=str(e)))\n\n        except ValueError as e:\n            response = self._response_class(id=None, error=pjrpc.exceptions.ParseError(data=str(e)))\n'),
 dict(name='empty-batch-if-statement', file=D, nth=0, find='                    response = self._batch_response(*responses) if responses else UNSET\n',
      replace='                    if not responses:\n                        response = UNSET\n                    else:\n                        response = self._batch_response(*responses)\n'),
 dict(name='empty-batch-len', file=D, nth=1, find='                    response = self._batch_response(*responses) if responses else UNSET\n',
      replace='                    if len(responses) > 0:\n                        response = self._batch_response(*responses)\n                    else:\n                        response = UNSET\n'),
 dict(name='filter-by-identity', file=D, nth=0, find='if not isinstance(resp, UnsetType)', replace='if resp is not UNSET'),
 dict(name='rename-response-var', file=D, all=True, find='response_text', replace='body_text'),
 dict(name='to_json-subscript-store', file=V, find='            json_data.update(result=self.result)', replace="            json_data['result'] = self._result"),
 dict(name='to_json-isinstance-unset', file=V, find='        if self._error is not UNSET:\n            json_data.update(error=self.get_error().to_json())',
      replace='        if not isinstance(self._error, UnsetType):\n            json_data.update(error=self._error.to_json())'),
 dict(name='from_json-xor-isinstance', file=V, find='            if result is not UNSET and error is not UNSET:', replace='            if not isinstance(result, UnsetType) and not isinstance(error, UnsetType):'),
 dict(name='id-guard-split', file=V, nth=1, find="            if id is not None and (isinstance(id, bool) or not isinstance(id, (int, str))):\n                raise DeserializationError(\"field 'id' must be of type integer or string\")\n",
      replace="            if id is not None:\n                if isinstance(id, bool) or not isinstance(id, (int, str)):\n                    raise DeserializationError(\"field 'id' must be of type integer or string\")\n"),
 dict(name='traced-rename-exc', file=C, all=True, find='            except BaseException as e:\n                for tracer in self._tracers:\n                    tracer.on_error(trace_ctx, request, e)\n                raise\n',
      replace='            except BaseException as exc:\n                for tracer in self._tracers:\n                    tracer.on_error(trace_ctx, request, exc)\n                raise\n'),
 dict(name='traced-raise-e', file=C, all=True, find='                    tracer.on_error(trace_ctx, request, e)\n                raise\n', replace='                    tracer.on_error(trace_ctx, request, e)\n                raise e\n'),
 dict(name='retry-delay-none-first', file=R, all=True, find='                    if delay is not None:\n                        logger.debug("retrying request: attempt=%d, code=%s", attempt, response.error)\n',
      replace='                    if delay is None:\n                        return response\n                    else:\n                        logger.debug("retrying request: attempt=%d, code=%s", attempt, response.error)\n'),
 dict(name='error-ctor-explicit-none-tests', file=E, find='        self.code = code if code is not None else self.code\n', replace='        if code is not None:\n            self.code = code\n'),
 dict(name='relate-eq-form', file=C, find='if self.strict and response.id is not None and response.id != request.id:', replace='if self.strict and response.id is not None and not (response.id == request.id):'),
 dict(name='size-guard-mirrored', file=D, all=True, find='len(request) > self._max_batch_size', replace='self._max_batch_size < len(request)'),
 dict(name='mw-fold-slice-reverse', file=D, all=True, find='for middleware in reversed(self._middlewares):', replace='for middleware in self._middlewares[::-1]:'),
 dict(name='eh-loop-two-vars', file=D, all=True, find='for error_handler in it.chain(', replace='for handler_fn in it.chain(',
      also=[dict(file=D, nth=0, find='            error = error_handler(request, context, error)', replace='            error = handler_fn(request, context, error)'),
            dict(file=D, nth=0, find='            error = await error_handler(request, context, error)', replace='            error = await handler_fn(request, context, error)')]),
 dict(name='spec-copy-via-local', file='pjrpc/server/specs/openrpc.py', find="        errors = list(annotations.get('errors', UNSET) or [])\n        errors.extend([",
      replace="        annotated = annotations.get('errors', UNSET) or []\n        errors = [*annotated]\n        errors.extend(["),
 dict(name='werkzeug-gate-positive-form', file='pjrpc/server/integration/werkzeug.py',
      find='        if request.mimetype not in pjrpc.common.REQUEST_CONTENT_TYPES:\n            raise exceptions.UnsupportedMediaType()\n',
      replace='        if not (request.mimetype in pjrpc.common.REQUEST_CONTENT_TYPES):\n            raise exceptions.UnsupportedMediaType()\n'),
 dict(name='mocker-id-explicit-if', file='pjrpc/client/integrations/pytest.py',
      find="                id=id if id is not None else match.response_data['id'],", replace="                id=match.response_data['id'] if id is None else id,"),
]


def run_neutral(props: List[str], prog: Program, corpus: bool = True) -> Dict[str, Any]:
    import os
    from .mutate import apply_unified, eval_variants
    mods = {p: importlib.import_module(f'pjx.props.{p.lower()}') for p in props}
    base = {}
    for p, mod in mods.items():
        ck = Check(p, 'quick')
        from .props import run_check
        run_check(mod, ck, prog)
        base[p] = {f.key for f in ck.findings}
    res: Dict[str, Any] = {'variants': 0, 'silent': [], 'alarms': {}, 'skipped': []}
    names, jobs = [], []
    for m in NEUTRAL:
        res['variants'] += 1
        ov = apply(prog, m)
        if ov is None:
            res['skipped'].append(m['name'])
            continue
        names.append(m['name'])
        jobs.append(ov)
    # the independently written behaviour-preserving refactorings kept under /verif/seeded_neutral (unified diffs, applied in memory)
    cdir = os.path.join(os.path.dirname(os.path.dirname(os.path.abspath(__file__))), 'seeded_neutral')
    if corpus and os.path.isdir(cdir):
        for name in sorted(os.listdir(cdir)):
            d = os.path.join(cdir, name)
            if name.startswith('_') or not os.path.isfile(os.path.join(d, 'patch.diff')):
                continue
            res['variants'] += 1
            ov = apply_unified(prog, open(os.path.join(d, 'patch.diff')).read())
            if ov is None:
                res['skipped'].append(name)
                continue
            names.append(name)
            jobs.append(ov)
    for name, r in zip(names, eval_variants(prog, jobs, list(props))):
        bad = []
        for p in props:
            got = r[p]
            if isinstance(got, str):
                bad.append(f'{p}:{got[:120]}')
            else:
                bad += [f'{p}:{rule}:{msg[:80]}' for rule, func, construct, msg in got if (rule, func, construct) not in base[p]]
        if bad:
            res['alarms'][name] = bad
        else:
            res['silent'].append(name)
    return res


if __name__ == '__main__':
    import json
    r = run_neutral([f'C{i:02d}' for i in range(1, 21)], Program(), corpus='--no-corpus' not in sys.argv)
    print(json.dumps(r, indent=1))
    sys.exit(1 if r['alarms'] else 0)
