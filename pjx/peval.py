"""Canonicalisation by exact rewriting ("partial evaluation" of idioms).

The rules read canonical forms: `isinstance(x, (int, str))`, f-strings, `x.attr`, explicit if-chains, `filter(lambda ..)`.
A maintenance edit may say the same thing through a module constant, an `operator` functional, `str.format`, a lookup table,
a bound-method alias or a `for .. else` without `break`.  This pass rewrites such forms — in the analysed program model only,
never on disk — into the canonical ones.  Every rewrite is an equivalence of Python semantics under the side conditions stated
at the rule (purity of the moved sub-expressions, single assignment, immutability); when a side condition cannot be shown the
construct is left alone.  The pass is applied to every program before the checks (normal.py), mutated or not, so it cannot
hide a behavioural change: it only changes how the same behaviour is spelled.

Rules
  K   constants   a module-level or class-level name that is NEW (not in anchors.json `globals`), bound exactly once to an
                  immutable pure expression (constants, references, tuples, frozensets, operator.attrgetter/itemgetter/
                  methodcaller objects; dict/list/set displays only when every use in the package is read-only) is replaced
                  by that expression where it is read (own module, and modules importing it under a name).
  A   aliases     `v = X.m` / `v = X` (X a pure reference, v and X's root assigned once, v's definition after X's in an enclosing
                  block) : reads of v become X.m.
  V   values      `v = E` directly followed by the single statement reading v once (E: local names, constants, identity/type tests,
                  conditional expressions) : the read becomes E.
  O   operator    attrgetter('a')(x) -> x.a ; attrgetter('a','b')(x) -> (x.a, x.b) ; itemgetter(k)(x) -> x[k] ;
                  methodcaller('m', *a)(x) -> x.m(*a) ; not_(x) -> not x ; truth(x) -> bool(x) ; is_/is_not/eq/ne/contains.
  F   filterfalse itertools.filterfalse(P, X) -> filter(lambda v: not P(v), X)   (P a pure reference / operator object)
  S   strings     CONST.format(..) with plain fields -> f-string ; CONST % (a, b) with %s / %r only -> f-string with !s / !r.
  N   next/any/all over a comprehension whose iterable is a constant tuple display -> if-expression chain / boolean chain.
  G   getattr     getattr(o, 'name') -> o.name ; getattr(o, A if c else B) -> getattr(o, A) if c else getattr(o, B)
  C   calls       (A if c else B)(args) -> A(args) if c else B(args)   (args atomic)
  D   dict tables {k1: v1, ..}.get(K[, d]) -> v1 if K == k1 else .. else d ; K in {..} -> K in (k1, ..)     (keys constant, K pure)
  E   boolean     not (A and B) -> not A or not B ; not (A or B) -> not A and not B ;
                  (a, b) == (c, d) -> a == c and b == d (pure elements) ; B == True -> B ; B == False -> not B (B boolean-valued);
                  not (a is b) -> a is not b ; not (a is not b) -> a is b ; not not B -> B
  H   handlers    except (A, B) as e: v = X if isinstance(e, A) else Y; REST  ->  except A as e: v = X; REST  except B as e: v = Y; REST
  T   sequences   tuple(..)/list(..) of a statically known pure sequence (display, unconditioned comprehension over one,
                  itertools.chain / chain.from_iterable of such) -> the display
  PM  match       `match x: case A() | B(): .. case None: .. case 1: .. case _: ..` (class patterns without sub-patterns, one positional
                  capture of a builtin self-matching type, value and singleton patterns, or-patterns, wildcard / capture) -> if / elif chain
  NT  namedtuple  `a, b = Pair(x=X, y=Y)` (Pair a plain typing.NamedTuple of the module, unpacked at once) -> `a, b = (X, Y)`
  M   mappings    dict(ChainMap(a, b)) -> {**b, **a}
  L   for-else    `for ..: BODY else: E` with no `break` in BODY -> the loop followed by E
  X   statements  an expression statement `A if c else B` -> if c: A else: B
"""
from __future__ import annotations

import ast
import copy
import string
from typing import Dict, List, Optional, Sequence, Set, Tuple

from .model import Module, Program, dotted

OPERATOR_MODULES = ('operator', 'op', '_operator')
ITERTOOLS = ('itertools', 'it')


# ------------------------------------------------------------------------------------------------
# helpers
# ------------------------------------------------------------------------------------------------

def _pure(e: ast.AST) -> bool:
    """No call, await, yield, walrus, comprehension: evaluating it has no effect and (for references) cannot be observed."""
    for x in ast.walk(e):
        if isinstance(x, (ast.Call, ast.Await, ast.Yield, ast.YieldFrom, ast.NamedExpr, ast.ListComp, ast.SetComp, ast.DictComp,
                          ast.GeneratorExp, ast.Lambda)):
            return False
    return True


def _ref(e: ast.AST) -> bool:
    return dotted(e) is not None


def _opname(e: ast.AST) -> Optional[str]:
    """'attrgetter' for op.attrgetter / operator.attrgetter"""
    d = dotted(e)
    if d and '.' in d:
        mod, name = d.rsplit('.', 1)
        if mod in OPERATOR_MODULES:
            return name
    return None


def _opobj(e: ast.AST) -> Optional[Tuple[str, ast.Call]]:
    """operator.attrgetter('x') etc. as a value"""
    if isinstance(e, ast.Call) and not e.keywords and _opname(e.func) in ('attrgetter', 'itemgetter', 'methodcaller'):
        if all(_immutable(a) for a in e.args) and e.args:
            return _opname(e.func), e       # type: ignore[return-value]
    return None


def _immutable(e: ast.AST, allow_display: bool = False) -> bool:
    if isinstance(e, ast.Constant):
        return True
    if _ref(e):
        return True
    if isinstance(e, ast.Tuple):
        return all(_immutable(x, allow_display) for x in e.elts)
    if isinstance(e, ast.UnaryOp) and isinstance(e.operand, ast.Constant):
        return True
    if isinstance(e, ast.BinOp) and isinstance(e.op, ast.Add):
        return _immutable(e.left) and _immutable(e.right) and not _ref(e.left) and not _ref(e.right) or \
            all(isinstance(x, ast.Constant) or _ref(x) or isinstance(x, ast.BinOp) and isinstance(x.op, ast.Add) and _immutable(x) for x in (e.left, e.right))
    if _opobj(e) is not None:
        return True
    if isinstance(e, ast.Call) and dotted(e.func) == 'frozenset' and len(e.args) <= 1 and not e.keywords:
        return all(isinstance(a, (ast.Tuple, ast.List, ast.Set)) and all(_immutable(x) for x in a.elts) for a in e.args)
    if allow_display:
        if isinstance(e, (ast.List, ast.Set)):
            return all(_immutable(x, True) for x in e.elts)
        if isinstance(e, ast.Dict):
            return all(k is not None and _immutable(k, True) for k in e.keys) and all(_immutable(v, True) for v in e.values)
    return False


def _boolean_valued(e: ast.AST) -> bool:
    if isinstance(e, ast.Compare):
        return all(isinstance(o, (ast.Is, ast.IsNot, ast.In, ast.NotIn)) for o in e.ops)
    if isinstance(e, ast.UnaryOp) and isinstance(e.op, ast.Not):
        return True
    if isinstance(e, ast.BoolOp):
        return all(_boolean_valued(v) for v in e.values)
    if isinstance(e, ast.Call) and dotted(e.func) in ('isinstance', 'issubclass', 'callable', 'bool', 'hasattr') :
        return True
    if isinstance(e, ast.Constant) and isinstance(e.value, bool):
        return True
    return False


def _loc(new: ast.AST, like: ast.AST) -> ast.AST:
    for x in ast.walk(new):
        if isinstance(x, (ast.expr, ast.stmt)) and not hasattr(x, 'lineno'):
            ast.copy_location(x, like)
    ast.copy_location(new, like)
    ast.fix_missing_locations(new)
    return new


def _not(e: ast.expr) -> ast.expr:
    return ast.UnaryOp(op=ast.Not(), operand=e)


# ------------------------------------------------------------------------------------------------
# expression rewriter
# ------------------------------------------------------------------------------------------------

class _Rewriter(ast.NodeTransformer):
    def __init__(self, namedtuples: Optional[Dict[str, List[str]]] = None) -> None:
        self.changed = 0
        self.log: List[str] = []
        self._fresh = 0
        self.namedtuples = namedtuples or {}        # class name -> field names in order (typing.NamedTuple classes of the module)
        self.typeddicts: Set[str] = set()            # TypedDict classes of the module
        self.fn_names: Set[str] = set()              # names used in the current function (parameters, locals)
        self.dict_locals: Set[str] = set()           # names of the current function known to hold a dict (a **kwargs parameter, or
                                                     # every assignment of the name is a dict display / dict(..) call / dict union)

    def _enter_function(self, node):  # type: ignore[no-untyped-def]
        saved = self.dict_locals
        names: Set[str] = set()
        a = node.args
        if a.kwarg is not None:
            names.add(a.kwarg.arg)
        assigned: Dict[str, List[ast.AST]] = {}
        for x in ast.walk(node):
            if isinstance(x, (ast.Assign, ast.AnnAssign)) and getattr(x, 'value', None) is not None:
                for t in (x.targets if isinstance(x, ast.Assign) else [x.target]):
                    if isinstance(t, ast.Name):
                        assigned.setdefault(t.id, []).append(x.value)
                    else:
                        for y in ast.walk(t):
                            if isinstance(y, ast.Name):
                                assigned.setdefault(y.id, []).append(ast.Constant(value=None))
            elif isinstance(x, (ast.For, ast.AsyncFor, ast.comprehension)):
                for y in ast.walk(x.target):
                    if isinstance(y, ast.Name):
                        assigned.setdefault(y.id, []).append(ast.Constant(value=None))
            elif isinstance(x, ast.NamedExpr):
                assigned.setdefault(x.target.id, []).append(ast.Constant(value=None))
            elif isinstance(x, (ast.With, ast.AsyncWith)):
                for it_ in x.items:
                    if it_.optional_vars is not None:
                        for y in ast.walk(it_.optional_vars):
                            if isinstance(y, ast.Name):
                                assigned.setdefault(y.id, []).append(ast.Constant(value=None))
        params = {p.arg for p in list(a.posonlyargs) + list(a.args) + list(a.kwonlyargs)} | ({a.vararg.arg} if a.vararg else set())
        for nm, vs in assigned.items():
            if nm in params:
                continue
            if all(isinstance(v, (ast.Dict, ast.DictComp)) or isinstance(v, ast.Call) and (dotted(v.func) == 'dict' or dotted(v.func) in self.typeddicts) or
                   isinstance(v, ast.BinOp) and isinstance(v.op, ast.BitOr) and (isinstance(v.left, ast.Dict) or isinstance(v.right, ast.Dict))
                   for v in vs) and not (a.kwarg is not None and nm == a.kwarg.arg and False):
                names.add(nm)
        # an AugAssign `d |= ..` keeps a dict a dict
        self.dict_locals = names
        comp_ids = {id(y) for x in ast.walk(node) if isinstance(x, ast.comprehension) for y in ast.walk(x.target)}
        self.fn_names = {x.id for x in ast.walk(node) if isinstance(x, ast.Name) and id(x) not in comp_ids and
                         isinstance(x.ctx, (ast.Store, ast.Del))} | params | ({a.kwarg.arg} if a.kwarg else set())
        return saved

    def visit_FunctionDef(self, node: ast.FunctionDef) -> ast.AST:
        saved = self._enter_function(node)
        self.generic_visit(node)
        self.dict_locals = saved
        return node

    def visit_AsyncFunctionDef(self, node: ast.AsyncFunctionDef) -> ast.AST:
        saved = self._enter_function(node)
        self.generic_visit(node)
        self.dict_locals = saved
        return node

    def visit_AugAssign(self, node: ast.AugAssign) -> ast.AST:
        self.generic_visit(node)
        # DU: d |= {k: v, ..}  (d a local dict)  ->  d.update({k: v, ..})
        if isinstance(node.op, ast.BitOr) and isinstance(node.target, ast.Name) and node.target.id in self.dict_locals and \
                isinstance(node.value, ast.Dict) and all(k is not None for k in node.value.keys):
            self._hit('DU dict-ior', node)
            if all(isinstance(k, ast.Constant) and isinstance(k.value, str) and k.value.isidentifier() for k in node.value.keys):
                call = ast.Call(func=ast.Attribute(value=ast.Name(id=node.target.id, ctx=ast.Load()), attr='update', ctx=ast.Load()), args=[],
                                keywords=[ast.keyword(arg=k.value, value=v) for k, v in zip(node.value.keys, node.value.values)])     # type: ignore[union-attr]
            else:
                call = ast.Call(func=ast.Attribute(value=ast.Name(id=node.target.id, ctx=ast.Load()), attr='update', ctx=ast.Load()), args=[node.value], keywords=[])
            return _loc(ast.Expr(value=call), node)
        return node

    def visit_Assign(self, node: ast.Assign) -> ast.AST:
        self.generic_visit(node)
        rc = self._reduce_call(node.value)
        if rc is not None and len(node.targets) == 1 and isinstance(node.targets[0], ast.Name) and \
                not any(isinstance(x, ast.Name) and x.id == node.targets[0].id for a in rc.args for x in ast.walk(a)):
            self._hit('RD reduce', node)
            return self._reduce_loop(rc, node.targets[0].id, node)
        if rc is not None and len(node.targets) == 1 and isinstance(node.targets[0], ast.Attribute) and _ref(node.targets[0]):
            self._fresh += 1
            acc = f'_acc{self._fresh}'
            self._hit('RD reduce', node)
            node.value = _loc(ast.Name(id=acc, ctx=ast.Load()), node)
            return self._reduce_loop(rc, acc, node) + [node]
        # NT: `a, b = Pair(x=X, y=Y)` with Pair a typing.NamedTuple of the module: the tuple is unpacked at once, so this is
        # `a, b = (X, Y)` (arguments pure, or already in field order)
        if len(node.targets) == 1 and isinstance(node.targets[0], (ast.Tuple, ast.List)) and isinstance(node.value, ast.Call) and \
                isinstance(node.value.func, ast.Name) and node.value.func.id in self.namedtuples:
            fields = self.namedtuples[node.value.func.id]
            c = node.value
            if not any(isinstance(a, ast.Starred) for a in c.args) and all(k.arg in fields for k in c.keywords) and \
                    len(c.args) + len(c.keywords) == len(fields) == len(node.targets[0].elts):
                by_name: Dict[str, ast.expr] = {f: a for f, a in zip(fields, c.args)}
                dup = False
                for k in c.keywords:
                    if k.arg in by_name:
                        dup = True
                    by_name[k.arg] = k.value      # type: ignore[index]
                in_order = [k.arg for k in c.keywords] == fields[len(c.args):]
                if not dup and (in_order or all(_pure(v) for v in by_name.values())):
                    self._hit('NT namedtuple-unpack', node)
                    node.value = _loc(ast.Tuple(elts=[by_name[f] for f in fields], ctx=ast.Load()), c)
        # X2: `a, b = (P, Q) if c else (R, S)` -> if c: a, b = (P, Q) else: a, b = (R, S)
        if len(node.targets) == 1 and isinstance(node.targets[0], (ast.Tuple, ast.List)) and isinstance(node.value, ast.IfExp):
            def all_displays(e: ast.expr) -> bool:
                if isinstance(e, ast.IfExp):
                    return all_displays(e.body) and all_displays(e.orelse)
                return isinstance(e, (ast.Tuple, ast.List)) and len(e.elts) == len(node.targets[0].elts)      # type: ignore[attr-defined]
            if all_displays(node.value):
                def build(e: ast.expr) -> List[ast.stmt]:
                    if isinstance(e, ast.IfExp):
                        return [_loc(ast.If(test=e.test, body=build(e.body), orelse=build(e.orelse)), node)]
                    return [_loc(ast.Assign(targets=[copy.deepcopy(node.targets[0])], value=e), node)]
                self._hit('X2 tuple-ifexp', node)
                return build(node.value)
        # parallel assignment of displays: `a, b = (X, Y)` with X, Y not reading a or b is `a = X; b = Y`
        if len(node.targets) == 1 and isinstance(node.targets[0], (ast.Tuple, ast.List)) and isinstance(node.value, (ast.Tuple, ast.List)) and \
                len(node.targets[0].elts) == len(node.value.elts) and all(isinstance(t, ast.Name) for t in node.targets[0].elts) and \
                not any(isinstance(v, ast.Starred) for v in node.value.elts):
            tn = {t.id for t in node.targets[0].elts}      # type: ignore[attr-defined]
            if len(tn) == len(node.targets[0].elts) and not any(isinstance(x, ast.Name) and x.id in tn for v in node.value.elts for x in ast.walk(v)) \
                    and self.namedtuples.get('<split-parallel>'):
                self._hit('P parallel-assign', node)
                return [_loc(ast.Assign(targets=[t], value=v), node) for t, v in zip(node.targets[0].elts, node.value.elts)]
        return node

    def _hit(self, rule: str, node: ast.AST) -> None:
        self.changed += 1
        self.log.append(f'{rule} line {getattr(node, "lineno", "?")}')

    # -- calls -----------------------------------------------------------------------------------
    def visit_Call(self, node: ast.Call) -> ast.AST:
        self.generic_visit(node)
        f = node.func
        # TD: a TypedDict class of the module called with keywords is dict(...)
        if isinstance(f, ast.Name) and f.id in self.typeddicts and not node.args and all(k.arg is not None for k in node.keywords):
            self._hit('TD typeddict', node)
            node.func = _loc(ast.Name(id='dict', ctx=ast.Load()), f)
            f = node.func
        # C: f(*(a, b)) -> f(a, b) ; f(**{'k': v}) -> f(k=v)
        if any(isinstance(a, ast.Starred) and isinstance(a.value, (ast.Tuple, ast.List)) and
               not any(isinstance(x, ast.Starred) for x in a.value.elts) for a in node.args):
            new_args: List[ast.expr] = []
            for a in node.args:
                if isinstance(a, ast.Starred) and isinstance(a.value, (ast.Tuple, ast.List)) and not any(isinstance(x, ast.Starred) for x in a.value.elts):
                    new_args += a.value.elts
                else:
                    new_args.append(a)
            node.args = new_args
            self._hit('C splat', node)
        # C: f(**{'k': v}) -> f(k=v)   (a display with identifier keys spread on the spot; `**{}` disappears)
        if any(k.arg is None and isinstance(k.value, ast.Dict) and
               all(isinstance(dk, ast.Constant) and isinstance(dk.value, str) and dk.value.isidentifier() for dk in k.value.keys)
               for k in node.keywords):
            new_kw: List[ast.keyword] = []
            given = [k.arg for k in node.keywords if k.arg is not None]
            ok_c = True
            for k in node.keywords:
                if k.arg is None and isinstance(k.value, ast.Dict) and \
                        all(isinstance(dk, ast.Constant) and isinstance(dk.value, str) and dk.value.isidentifier() for dk in k.value.keys):
                    names_ = [dk.value for dk in k.value.keys]
                    if len(set(names_)) != len(names_) or set(names_) & set(given):
                        ok_c = False
                    new_kw += [_loc(ast.keyword(arg=dk.value, value=dv), k.value) for dk, dv in zip(k.value.keys, k.value.values)]
                    given += names_
                else:
                    new_kw.append(k)
            if ok_c:
                node.keywords = new_kw
                self._hit('C kw-splat', node)
        # RO: a read through a read-only view made on the spot is the read itself:
        #   MappingProxyType(X).get(k) / .keys() / .values() / .items() / .__getitem__(k) / .__contains__(k)  ->  X.get(k) …
        #   iter(MappingProxyType(X)) / len(…)  ->  iter(X) / len(X)
        def _proxy(e: ast.AST) -> Optional[ast.expr]:
            if isinstance(e, ast.Call) and (dotted(e.func) or '').rsplit('.', 1)[-1] == 'MappingProxyType' and len(e.args) == 1 and not e.keywords \
                    and not isinstance(e.args[0], ast.Starred):
                return e.args[0]
            return None
        if isinstance(f, ast.Attribute) and f.attr in ('get', 'keys', 'values', 'items', '__getitem__', '__contains__', '__iter__', '__len__') and \
                _proxy(f.value) is not None:
            f.value = _proxy(f.value)
            self._hit('RO proxy', node)
        elif dotted(f) in ('iter', 'len', 'list', 'tuple', 'sorted') and len(node.args) == 1 and not node.keywords and _proxy(node.args[0]) is not None:
            node.args = [_proxy(node.args[0])]
            self._hit('RO proxy', node)
        # O: operator object applied
        # U: isinstance(x, A | B) -> isinstance(x, (A, B))   (A, B class references: types.UnionType checks the same classes in order)
        if dotted(f) in ('isinstance', 'issubclass') and len(node.args) == 2 and not node.keywords and isinstance(node.args[1], ast.BinOp) and \
                isinstance(node.args[1].op, ast.BitOr):
            parts: List[ast.expr] = []

            def flat(e: ast.expr) -> bool:
                if isinstance(e, ast.BinOp) and isinstance(e.op, ast.BitOr):
                    return flat(e.left) and flat(e.right)
                if _ref(e) and not (isinstance(e, ast.Constant)):
                    parts.append(e)
                    return True
                return False
            if flat(node.args[1]):
                self._hit('U isinstance-union', node)
                node.args[1] = _loc(ast.Tuple(elts=parts, ctx=ast.Load()), node.args[1])
        # MP: map(F, X, repeat(c), ...) -> (F(e, c, ...) for e in X) ; partial(F, a, k=v)(b) -> F(a, b, k=v)
        dmap = dotted(f)
        if dmap == 'map' and len(node.args) >= 3 and not node.keywords and _ref(node.args[0]) and \
                all(isinstance(a, ast.Call) and (dotted(a.func) or '').rsplit('.', 1)[-1] == 'repeat' and len(a.args) == 1 and not a.keywords
                    and (_ref(a.args[0]) or isinstance(a.args[0], ast.Constant)) for a in node.args[2:]):
            self._fresh += 1
            v = f'_item{self._fresh}'
            call = ast.Call(func=node.args[0], args=[ast.Name(id=v, ctx=ast.Load())] + [copy.deepcopy(a.args[0]) for a in node.args[2:]], keywords=[])
            gen = ast.GeneratorExp(elt=call, generators=[ast.comprehension(target=ast.Name(id=v, ctx=ast.Store()), iter=node.args[1], ifs=[], is_async=0)])
            self._hit('MP map-repeat', node)
            return _loc(gen, node)
        if dmap == 'map' and len(node.args) == 2 and not node.keywords and isinstance(node.args[0], ast.Call) and \
                (dotted(node.args[0].func) or '').rsplit('.', 1)[-1] == 'partial' and node.args[0].args and _ref(node.args[0].args[0]) and \
                not any(isinstance(a, ast.Starred) for a in node.args[0].args) and not any(k.arg is None for k in node.args[0].keywords) and \
                all(_pure(a) for a in node.args[0].args[1:]) and all(_pure(k.value) for k in node.args[0].keywords):
            pc = node.args[0]
            self._fresh += 1
            v = f'_item{self._fresh}'
            call = ast.Call(func=pc.args[0], args=list(pc.args[1:]) + [ast.Name(id=v, ctx=ast.Load())], keywords=list(pc.keywords))
            gen = ast.GeneratorExp(elt=call, generators=[ast.comprehension(target=ast.Name(id=v, ctx=ast.Store()), iter=node.args[1], ifs=[], is_async=0)])
            self._hit('MP map-partial', node)
            return _loc(gen, node)
        if isinstance(f, ast.Call) and (dotted(f.func) or '').rsplit('.', 1)[-1] == 'partial' and (dotted(f.func) or '').split('.')[0] in ('ft', 'functools', 'partial') \
                and f.args and _ref(f.args[0]) and not any(isinstance(a, ast.Starred) for a in f.args + node.args) and \
                not any(k.arg is None for k in f.keywords + node.keywords) and \
                not ({k.arg for k in f.keywords} & {k.arg for k in node.keywords}) and all(_pure(a) for a in f.args[1:]) and all(_pure(k.value) for k in f.keywords):
            self._hit('MP partial-call', node)
            return self.visit(_loc(ast.Call(func=f.args[0], args=list(f.args[1:]) + list(node.args), keywords=list(f.keywords) + list(node.keywords)), node))
        ob = _opobj(f)
        if ob is not None and len(node.args) == 1 and not node.keywords and not isinstance(node.args[0], ast.Starred):
            kind, mk = ob
            x = node.args[0]
            if kind == 'attrgetter' and all(isinstance(a, ast.Constant) and isinstance(a.value, str) and
                                            all(p.isidentifier() for p in a.value.split('.')) for a in mk.args):
                def chain(base: ast.expr, path: str) -> ast.expr:
                    cur = base
                    for p in path.split('.'):
                        cur = ast.Attribute(value=cur, attr=p, ctx=ast.Load())
                    return cur
                if len(mk.args) == 1:
                    self._hit('O attrgetter', node)
                    return _loc(chain(x, mk.args[0].value), node)       # type: ignore[attr-defined]
                if _pure(x) and _ref(x):
                    self._hit('O attrgetter*', node)
                    return _loc(ast.Tuple(elts=[chain(copy.deepcopy(x), a.value) for a in mk.args], ctx=ast.Load()), node)  # type: ignore[attr-defined]
            if kind == 'itemgetter':
                if len(mk.args) == 1:
                    self._hit('O itemgetter', node)
                    return _loc(ast.Subscript(value=x, slice=copy.deepcopy(mk.args[0]), ctx=ast.Load()), node)
                if _ref(x):
                    self._hit('O itemgetter*', node)
                    return _loc(ast.Tuple(elts=[ast.Subscript(value=copy.deepcopy(x), slice=copy.deepcopy(a), ctx=ast.Load())
                                                for a in mk.args], ctx=ast.Load()), node)
            if kind == 'methodcaller' and isinstance(mk.args[0], ast.Constant) and isinstance(mk.args[0].value, str) and \
                    mk.args[0].value.isidentifier():
                self._hit('O methodcaller', node)
                return _loc(ast.Call(func=ast.Attribute(value=x, attr=mk.args[0].value, ctx=ast.Load()),
                                     args=[copy.deepcopy(a) for a in mk.args[1:]], keywords=[]), node)
        on = _opname(f)
        if on is not None and not node.keywords and not any(isinstance(a, ast.Starred) for a in node.args):
            a = node.args
            new: Optional[ast.expr] = None
            if on == 'not_' and len(a) == 1:
                new = _not(a[0])
            elif on == 'truth' and len(a) == 1:
                new = ast.Call(func=ast.Name(id='bool', ctx=ast.Load()), args=[a[0]], keywords=[])
            elif on in ('is_', 'is_not', 'eq', 'ne') and len(a) == 2:
                opn = {'is_': ast.Is, 'is_not': ast.IsNot, 'eq': ast.Eq, 'ne': ast.NotEq}[on]()
                new = ast.Compare(left=a[0], ops=[opn], comparators=[a[1]])
            elif on == 'contains' and len(a) == 2 and _pure(a[0]) and _pure(a[1]):
                new = ast.Compare(left=a[1], ops=[ast.In()], comparators=[a[0]])
            elif on == 'getitem' and len(a) == 2:
                new = ast.Subscript(value=a[0], slice=a[1], ctx=ast.Load())
            if new is not None:
                self._hit('O ' + on, node)
                return _loc(new, node)
        d = dotted(f)
        # F: filterfalse
        if d is not None and d.rsplit('.', 1)[-1] == 'filterfalse' and (d == 'filterfalse' or d.rsplit('.', 1)[0] in ITERTOOLS) and \
                len(node.args) == 2 and not node.keywords and (_ref(node.args[0]) or _opobj(node.args[0]) is not None):
            pred = node.args[0]
            if not (isinstance(pred, ast.Constant) and pred.value is None):
                self._fresh += 1
                v = f'_item{self._fresh}'
                call = ast.Call(func=pred, args=[ast.Name(id=v, ctx=ast.Load())], keywords=[])
                lam = ast.Lambda(args=ast.arguments(posonlyargs=[], args=[ast.arg(arg=v)], kwonlyargs=[], kw_defaults=[], defaults=[]),
                                 body=_not(call))
                new_call = ast.Call(func=ast.Name(id='filter', ctx=ast.Load()), args=[lam, node.args[1]], keywords=[])
                self._hit('F filterfalse', node)
                return self.visit(_loc(new_call, node))
        # S: CONST.format(...)
        if isinstance(f, ast.Attribute) and f.attr == 'format' and isinstance(f.value, ast.Constant) and isinstance(f.value.value, str):
            js = self._format_to_fstring(f.value.value, node)
            if js is not None:
                self._hit('S format', node)
                return _loc(js, node)
        # G: getattr
        if d == 'getattr' and len(node.args) == 2 and not node.keywords:
            o, n = node.args
            if isinstance(n, ast.Constant) and isinstance(n.value, str) and n.value.isidentifier() and not n.value.startswith('__'):
                self._hit('G getattr', node)
                return _loc(ast.Attribute(value=o, attr=n.value, ctx=ast.Load()), node)
            if isinstance(n, ast.IfExp) and _ref(o):
                self._hit('G getattr-ifexp', node)
                mk = lambda nm: ast.Call(func=ast.Name(id='getattr', ctx=ast.Load()), args=[copy.deepcopy(o), nm], keywords=[])  # noqa: E731
                return self.visit(_loc(ast.IfExp(test=n.test, body=mk(n.body), orelse=mk(n.orelse)), node))
        # C: (A if c else B)(args)
        if isinstance(f, ast.IfExp) and all(_ref(a) or isinstance(a, ast.Constant) for a in node.args) and \
                all(k.arg is not None and (_ref(k.value) or isinstance(k.value, ast.Constant)) for k in node.keywords):
            self._hit('C call-ifexp', node)
            mk2 = lambda fn: ast.Call(func=fn, args=copy.deepcopy(node.args), keywords=copy.deepcopy(node.keywords))  # noqa: E731
            return self.visit(_loc(ast.IfExp(test=f.test, body=mk2(f.body), orelse=mk2(f.orelse)), node))
        # M: dict(ChainMap(a, b)) is {**b, **a} (same keys, values and insertion order)
        if d == 'dict' and len(node.args) == 1 and not node.keywords and isinstance(node.args[0], ast.Call):
            inner_c = node.args[0]
            di = dotted(inner_c.func)
            if di in ('collections.ChainMap', 'ChainMap') and inner_c.args and not inner_c.keywords and all(_ref(a) for a in inner_c.args):
                self._hit('M chainmap', node)
                vals = [copy.deepcopy(a) for a in reversed(inner_c.args)]
                return _loc(ast.Dict(keys=[None] * len(vals), values=vals), node)
        # T: tuple(...) / list(...) of statically known sequences
        if d in ('tuple', 'list') and len(node.args) == 1 and not node.keywords:
            seq = self._static_seq(node.args[0])
            if seq is not None and (d == 'tuple' or True):
                self._hit('T ' + d, node)
                mk3 = ast.Tuple if d == 'tuple' else ast.List
                return _loc(mk3(elts=seq, ctx=ast.Load()), node)
        # N: next / any / all over a comprehension on a constant tuple
        if d in ('next', 'any', 'all') and node.args and isinstance(node.args[0], (ast.GeneratorExp, ast.ListComp)) and not node.keywords:
            new2 = self._unroll(d, node)
            if new2 is not None:
                self._hit('N ' + d, node)
                return self.visit(_loc(new2, node))
        # D: dict display .get
        if isinstance(f, ast.Attribute) and f.attr == 'get' and isinstance(f.value, ast.Dict) and 1 <= len(node.args) <= 2 and \
                not node.keywords and self._const_dict(f.value) and _pure(node.args[0]):
            key = node.args[0]
            default: ast.expr = node.args[1] if len(node.args) == 2 else ast.Constant(value=None)
            if _pure(default):
                cur: ast.expr = default
                for k, v in reversed(list(zip(f.value.keys, f.value.values))):
                    cur = ast.IfExp(test=ast.Compare(left=copy.deepcopy(key), ops=[ast.Eq()], comparators=[copy.deepcopy(k)]),
                                    body=copy.deepcopy(v), orelse=cur)
                self._hit('D dict.get', node)
                return self.visit(_loc(cur, node))
        return node

    def _static_seq(self, e: ast.expr) -> Optional[List[ast.expr]]:
        """Elements of an iterable expression when they are statically known and pure: a tuple/list display, a comprehension
        without conditions over such a sequence, itertools.chain / chain.from_iterable of such sequences."""
        if isinstance(e, (ast.Tuple, ast.List)) and all(_immutable(x) for x in e.elts) and not any(isinstance(x, ast.Starred) for x in e.elts):
            return [copy.deepcopy(x) for x in e.elts]
        if isinstance(e, (ast.GeneratorExp, ast.ListComp)) and len(e.generators) == 1 and not e.generators[0].ifs and \
                not e.generators[0].is_async:
            g = e.generators[0]
            base = self._static_seq(g.iter)
            if base is None or len(base) > 24:
                return None
            out: List[ast.expr] = []
            for item in base:
                if isinstance(g.target, ast.Name):
                    m = {g.target.id: item}
                elif isinstance(g.target, ast.Tuple) and isinstance(item, ast.Tuple) and len(item.elts) == len(g.target.elts) and \
                        all(isinstance(t, ast.Name) for t in g.target.elts):
                    m = {t.id: v for t, v in zip(g.target.elts, item.elts)}       # type: ignore[attr-defined]
                else:
                    return None
                if any(isinstance(x, (ast.Lambda, ast.ListComp, ast.SetComp, ast.DictComp, ast.GeneratorExp)) for x in ast.walk(e.elt)):
                    return None

                class Sub(ast.NodeTransformer):
                    def visit_Name(self_, nd: ast.Name) -> ast.AST:     # noqa: N805
                        if isinstance(nd.ctx, ast.Load) and nd.id in m:
                            return copy.deepcopy(m[nd.id])
                        return nd
                val = Sub().visit(copy.deepcopy(e.elt))
                if not _immutable(val):
                    return None
                out.append(val)
            return out
        if isinstance(e, ast.Call) and not e.keywords:
            d = dotted(e.func)
            if d is not None and d.endswith('chain.from_iterable') and d.split('.')[0] in ITERTOOLS + ('chain',) and len(e.args) == 1:
                outer = self._static_seq(e.args[0])
                if outer is None:
                    return None
                flat: List[ast.expr] = []
                for x in outer:
                    inner = self._static_seq(x)
                    if inner is None:
                        return None
                    flat += inner
                return flat
            if d is not None and (d == 'chain' or d.endswith('.chain') and d.split('.')[0] in ITERTOOLS):
                flat2: List[ast.expr] = []
                for x in e.args:
                    inner = self._static_seq(x)
                    if inner is None:
                        return None
                    flat2 += inner
                return flat2
        return None

    @staticmethod
    def _const_dict(e: ast.Dict) -> bool:
        def const(k: Optional[ast.AST]) -> bool:
            if isinstance(k, ast.Constant):
                return True
            if isinstance(k, ast.Tuple):
                return all(const(x) for x in k.elts)
            if isinstance(k, ast.Attribute) and _ref(k):
                return True         # an enum member / class attribute used as key: compared with ==
            return False
        return bool(e.keys) and all(const(k) for k in e.keys) and all(_pure(v) for v in e.values)

    def _format_to_fstring(self, tmpl: str, call: ast.Call) -> Optional[ast.expr]:
        if any(isinstance(a, ast.Starred) for a in call.args) or any(k.arg is None for k in call.keywords):
            return None
        kws = {k.arg: k.value for k in call.keywords}
        try:
            parts = list(string.Formatter().parse(tmpl))
        except ValueError:
            return None
        values: List[ast.expr] = []
        auto = 0
        used_pos: List[int] = []
        used_kw: List[str] = []
        manual = False
        for lit, field, spec, conv in parts:
            if lit:
                values.append(ast.Constant(value=lit))
            if field is None:
                continue
            if spec and ('{' in spec or '}' in spec):
                return None
            if field == '':
                if manual:
                    return None
                idx = auto
                auto += 1
                if idx >= len(call.args):
                    return None
                val = call.args[idx]
                used_pos.append(idx)
            elif field.isdigit():
                manual = True
                if auto:
                    return None
                idx = int(field)
                if idx >= len(call.args):
                    return None
                val = call.args[idx]
                used_pos.append(idx)
            elif field.isidentifier():
                if field not in kws:
                    return None
                val = kws[field]
                used_kw.append(field)
            else:
                return None
            values.append(ast.FormattedValue(value=copy.deepcopy(val), conversion=ord(conv) if conv else -1,
                                             format_spec=ast.JoinedStr(values=[ast.Constant(value=spec)]) if spec else None))
        # every argument used exactly once and in order of evaluation, or all arguments pure
        args_all = list(call.args) + [k.value for k in call.keywords]
        order_ok = used_pos == list(range(len(call.args))) and used_kw == [k.arg for k in call.keywords] and \
            (not used_kw or not used_pos or True)
        if not order_ok and not all(_pure(a) for a in args_all):
            return None
        if (set(used_pos) != set(range(len(call.args))) or set(used_kw) != set(kws)) and not all(_pure(a) for a in args_all):
            return None
        return ast.JoinedStr(values=values)

    def _unroll(self, fn: str, node: ast.Call) -> Optional[ast.expr]:
        comp = node.args[0]
        assert isinstance(comp, (ast.GeneratorExp, ast.ListComp))
        if len(comp.generators) != 1 or comp.generators[0].is_async:
            return None
        g = comp.generators[0]
        if not isinstance(g.iter, (ast.Tuple, ast.List)) or not g.iter.elts or len(g.iter.elts) > 12:
            return None
        if not all(_immutable(x) for x in g.iter.elts):
            return None
        if fn == 'next' and len(node.args) > 2 or fn in ('any', 'all') and len(node.args) != 1:
            return None
        if fn == 'next' and isinstance(comp, ast.ListComp):
            return None
        tnames = [x.id for x in ast.walk(g.target) if isinstance(x, ast.Name)]

        def bind(item: ast.expr) -> Optional[Dict[str, ast.expr]]:
            if isinstance(g.target, ast.Name):
                return {g.target.id: item}
            if isinstance(g.target, ast.Tuple) and isinstance(item, ast.Tuple) and len(item.elts) == len(g.target.elts) and \
                    all(isinstance(t, ast.Name) for t in g.target.elts):
                return {t.id: v for t, v in zip(g.target.elts, item.elts)}     # type: ignore[attr-defined]
            return None

        class Sub(ast.NodeTransformer):
            def __init__(self, m: Dict[str, ast.expr]):
                self.m = m

            def visit_Name(self, n: ast.Name) -> ast.AST:
                if isinstance(n.ctx, ast.Load) and n.id in self.m:
                    return copy.deepcopy(self.m[n.id])
                return n
        # the element expression / conditions must not rebind the targets (lambda parameters, nested comprehensions)
        for x in ast.walk(comp.elt):
            if isinstance(x, (ast.Lambda, ast.ListComp, ast.SetComp, ast.DictComp, ast.GeneratorExp)):
                return None
        rows: List[Tuple[ast.expr, ast.expr]] = []
        for item in g.iter.elts:
            m = bind(item)
            if m is None:
                return None
            conds = [Sub(m).visit(copy.deepcopy(c)) for c in g.ifs]
            cond: ast.expr = conds[0] if len(conds) == 1 else ast.BoolOp(op=ast.And(), values=conds) if conds else ast.Constant(value=True)
            rows.append((cond, Sub(m).visit(copy.deepcopy(comp.elt))))
        if fn == 'next':
            if len(node.args) == 2:
                if not _pure(node.args[1]):
                    return None
                cur: ast.expr = node.args[1]
            else:
                cur = ast.Call(func=ast.Name(id='next', ctx=ast.Load()),
                               args=[ast.Call(func=ast.Name(id='iter', ctx=ast.Load()), args=[ast.Tuple(elts=[], ctx=ast.Load())], keywords=[])],
                               keywords=[])
            for cond, val in reversed(rows):
                if isinstance(cond, ast.Constant) and cond.value is True:
                    cur = val
                else:
                    cur = ast.IfExp(test=cond, body=val, orelse=cur)
            return cur
        # any / all: truthiness of the elements
        vals = []
        for cond, val in rows:
            if isinstance(cond, ast.Constant) and cond.value is True:
                vals.append(val)
            elif fn == 'any':
                vals.append(ast.BoolOp(op=ast.And(), values=[cond, val]))
            else:
                vals.append(ast.BoolOp(op=ast.Or(), values=[_not(cond), val]))
        if not all(_boolean_valued(v) for v in vals):
            return None     # any()/all() return bool, `a or b` returns an operand
        return vals[0] if len(vals) == 1 else ast.BoolOp(op=ast.Or() if fn == 'any' else ast.And(), values=vals)

    # -- operators -------------------------------------------------------------------------------
    def visit_BinOp(self, node: ast.BinOp) -> ast.AST:
        self.generic_visit(node)
        # DU: {..} | {..}  /  {..} | kwargs  /  d | {..}  (d a local known to be a dict) -> one display with ** parts
        if isinstance(node.op, ast.BitOr) and (isinstance(node.left, ast.Dict) or isinstance(node.right, ast.Dict)):
            pass
        if isinstance(node.op, ast.BitOr):
            def known_dict(e: ast.expr) -> bool:
                return isinstance(e, ast.Dict) or isinstance(e, ast.Name) and e.id in self.dict_locals
            if known_dict(node.left) and known_dict(node.right):
                keys: List[Optional[ast.expr]] = []
                vals: List[ast.expr] = []
                for side in (node.left, node.right):
                    if isinstance(side, ast.Dict):
                        keys += side.keys
                        vals += side.values
                    else:
                        keys.append(None)
                        vals.append(side)
                self._hit('DU dict-union', node)
                return _loc(ast.Dict(keys=keys, values=vals), node)
        if isinstance(node.op, ast.Add) and isinstance(node.left, ast.Constant) and isinstance(node.right, ast.Constant) and \
                type(node.left.value) is type(node.right.value) and isinstance(node.left.value, (str, int, tuple)) and \
                not isinstance(node.left.value, bool):
            self._hit('K fold', node)
            return _loc(ast.Constant(value=node.left.value + node.right.value), node)
        if isinstance(node.op, ast.Mod) and isinstance(node.left, ast.Constant) and isinstance(node.left.value, str):
            tmpl = node.left.value
            args = list(node.right.elts) if isinstance(node.right, ast.Tuple) else None
            if args is None:
                return node         # a single right operand may itself be a tuple or a mapping at run time
            import re
            toks = re.split(r'(%[sr%])', tmpl)
            if '%' in ''.join(t for t in toks if t not in ('%s', '%r', '%%')):
                return node
            values: List[ast.expr] = []
            it_args = iter(args)
            n = 0
            for t in toks:
                if t in ('%s', '%r'):
                    try:
                        a = next(it_args)
                    except StopIteration:
                        return node
                    n += 1
                    values.append(ast.FormattedValue(value=a, conversion=ord(t[1]), format_spec=None))
                elif t == '%%':
                    values.append(ast.Constant(value='%'))
                elif t:
                    values.append(ast.Constant(value=t))
            if n != len(args) or any(isinstance(a, ast.Starred) for a in args):
                return node
            self._hit('S percent', node)
            return _loc(ast.JoinedStr(values=values), node)
        return node

    def visit_JoinedStr(self, node: ast.JoinedStr) -> ast.AST:
        self.generic_visit(node)
        vals: List[ast.expr] = []
        changed = False
        for v in node.values:
            if isinstance(v, ast.FormattedValue) and isinstance(v.value, ast.Constant) and isinstance(v.value.value, str) and \
                    v.conversion == -1 and v.format_spec is None:
                v = ast.Constant(value=v.value.value)
                changed = True
            if isinstance(v, ast.Constant) and vals and isinstance(vals[-1], ast.Constant):
                vals[-1] = ast.Constant(value=str(vals[-1].value) + str(v.value))
                changed = changed or True
            else:
                vals.append(v)
        if changed and len(vals) != len(node.values) or any(a is not b for a, b in zip(vals, node.values)):
            if all(isinstance(v, ast.Constant) for v in vals):
                self._hit('S const-fstring', node)
                return _loc(ast.Constant(value=''.join(str(v.value) for v in vals)), node)     # type: ignore[attr-defined]
            if changed:
                self._hit('S fstring-merge', node)
                node.values = vals
                return _loc(node, node)
        return node

    def visit_Subscript(self, node: ast.Subscript) -> ast.AST:
        self.generic_visit(node)
        v = node.value
        if isinstance(node.ctx, ast.Load) and isinstance(v, ast.Call) and (dotted(v.func) or '').rsplit('.', 1)[-1] == 'MappingProxyType' and \
                len(v.args) == 1 and not v.keywords and not isinstance(v.args[0], ast.Starred):
            node.value = v.args[0]                  # RO: MappingProxyType(X)[k]  ->  X[k]
            self._hit('RO proxy', node)
        return node

    def visit_Compare(self, node: ast.Compare) -> ast.AST:
        self.generic_visit(node)
        if len(node.ops) != 1:
            return node
        op, left, right = node.ops[0], node.left, node.comparators[0]
        if isinstance(op, (ast.In, ast.NotIn)) and isinstance(right, ast.Call) and (dotted(right.func) or '').rsplit('.', 1)[-1] == 'MappingProxyType' \
                and len(right.args) == 1 and not right.keywords and not isinstance(right.args[0], ast.Starred):
            node.comparators = [right.args[0]]      # RO: k in MappingProxyType(X)  ->  k in X
            self._hit('RO proxy', node)
            return node
        if isinstance(op, (ast.Eq, ast.NotEq)):
            # E: tuple displays
            if isinstance(op, ast.Eq) and isinstance(left, ast.Tuple) and isinstance(right, ast.Tuple) and len(left.elts) == len(right.elts) \
                    and left.elts and all(_pure(x) for x in left.elts + right.elts) and \
                    not any(isinstance(x, ast.Starred) for x in left.elts + right.elts) and \
                    all(isinstance(r, ast.Constant) for r in right.elts):
                self._hit('E tuple-eq', node)
                parts = [self.visit(_loc(ast.Compare(left=a, ops=[ast.Eq()], comparators=[b]), node)) for a, b in zip(left.elts, right.elts)]
                return _loc(parts[0] if len(parts) == 1 else ast.BoolOp(op=ast.And(), values=parts), node)
            for a, b in ((left, right), (right, left)):
                if isinstance(b, ast.Constant) and isinstance(b.value, bool) and _boolean_valued(a):
                    positive = b.value == isinstance(op, ast.Eq)
                    self._hit('E bool-eq', node)
                    return self.visit(_loc(a if positive else _not(a), node))
        if isinstance(op, (ast.Is, ast.IsNot)) and isinstance(right, ast.Constant) and isinstance(right.value, bool) and _boolean_valued(left):
            positive = right.value == isinstance(op, ast.Is)
            self._hit('E bool-is', node)
            return self.visit(_loc(left if positive else _not(left), node))
        if isinstance(op, (ast.In, ast.NotIn)) and isinstance(right, ast.Dict) and self._const_dict(right):
            self._hit('D in-dict', node)
            node.comparators = [_loc(ast.Tuple(elts=list(right.keys), ctx=ast.Load()), right)]     # type: ignore[arg-type]
        return node

    def visit_UnaryOp(self, node: ast.UnaryOp) -> ast.AST:
        self.generic_visit(node)
        if isinstance(node.op, ast.Not):
            x = node.operand
            if isinstance(x, ast.Compare) and len(x.ops) == 1 and isinstance(x.ops[0], (ast.Is, ast.IsNot, ast.In, ast.NotIn)):
                flip = {ast.Is: ast.IsNot, ast.IsNot: ast.Is, ast.In: ast.NotIn, ast.NotIn: ast.In}[type(x.ops[0])]
                self._hit('E not-is', node)
                return _loc(ast.Compare(left=x.left, ops=[flip()], comparators=x.comparators), node)
            if isinstance(x, ast.UnaryOp) and isinstance(x.op, ast.Not) and _boolean_valued(x.operand):
                self._hit('E not-not', node)
                return x.operand
            if isinstance(x, ast.BoolOp):
                # De Morgan: same operands evaluated in the same order with the same short-circuit, and both sides yield a bool
                self._hit('E de-morgan', node)
                flip_op = ast.Or() if isinstance(x.op, ast.And) else ast.And()
                return _loc(ast.BoolOp(op=flip_op, values=[self.visit(_loc(_not(v), v)) for v in x.values]), node)
        return node

    # -- statements ------------------------------------------------------------------------------
    def visit_For(self, node: ast.For) -> ast.AST:
        self.generic_visit(node)
        return self._for_else(node)

    def visit_AsyncFor(self, node: ast.AsyncFor) -> ast.AST:
        self.generic_visit(node)
        return self._for_else(node)

    def _for_else(self, node):  # type: ignore[no-untyped-def]
        if node.orelse and not _breaks(node.body):
            self._hit('L for-else', node)
            tail = node.orelse
            node.orelse = []
            return [node] + tail
        return node

    # -- structural pattern matching --------------------------------------------------------------------
    BUILTIN_SELF_MATCH = {'bool', 'bytearray', 'bytes', 'dict', 'float', 'frozenset', 'int', 'list', 'set', 'str', 'tuple'}

    def _pattern_test(self, pat: ast.pattern, subj: ast.expr) -> Optional[Tuple[Optional[ast.expr], List[Tuple[str, ast.expr]]]]:
        """(test expression or None for "always", [(name, value)] bindings made when the pattern matches) for the patterns that have an
        exact if-form: class patterns without sub-patterns (isinstance), one positional capture for the builtin self-matching types,
        value patterns (==), None/True/False (is), or-patterns of these, wildcard and plain capture; otherwise None."""
        S = lambda: copy.deepcopy(subj)     # noqa: E731
        if isinstance(pat, ast.MatchAs):
            if pat.pattern is None:
                return (None, [(pat.name, S())] if pat.name else [])
            inner = self._pattern_test(pat.pattern, subj)
            if inner is None:
                return None
            return (inner[0], inner[1] + ([(pat.name, S())] if pat.name else []))
        if isinstance(pat, ast.MatchSingleton):
            return (ast.Compare(left=S(), ops=[ast.Is()], comparators=[ast.Constant(value=pat.value)]), [])
        if isinstance(pat, ast.MatchValue):
            if isinstance(pat.value, (ast.Constant, ast.Attribute)) or isinstance(pat.value, ast.UnaryOp) and isinstance(pat.value.operand, ast.Constant):
                return (ast.Compare(left=S(), ops=[ast.Eq()], comparators=[copy.deepcopy(pat.value)]), [])
            return None
        if isinstance(pat, ast.MatchClass):
            if pat.kwd_attrs or pat.kwd_patterns:
                return None
            test = ast.Call(func=ast.Name(id='isinstance', ctx=ast.Load()), args=[S(), copy.deepcopy(pat.cls)], keywords=[])
            if not pat.patterns:
                return (test, [])
            if len(pat.patterns) == 1 and dotted(pat.cls) in self.BUILTIN_SELF_MATCH and isinstance(pat.patterns[0], ast.MatchAs) and \
                    pat.patterns[0].pattern is None:
                nm = pat.patterns[0].name
                return (test, [(nm, S())] if nm else [])
            return None
        if isinstance(pat, ast.MatchSequence) and isinstance(subj, ast.Tuple) and len(pat.patterns) == len(subj.elts) and \
                not any(isinstance(p_, ast.MatchStar) for p_ in pat.patterns) and all(_pure(e) for e in subj.elts):
            tests: List[ast.expr] = []
            binds: List[Tuple[str, ast.expr]] = []
            for p_, e in zip(pat.patterns, subj.elts):
                r = self._pattern_test(p_, e)
                if r is None:
                    return None
                if r[0] is not None:
                    tests.append(r[0])
                binds += r[1]
            if not tests:
                return (None, binds)
            return (tests[0] if len(tests) == 1 else ast.BoolOp(op=ast.And(), values=tests), binds)
        if isinstance(pat, ast.MatchOr):
            parts = [self._pattern_test(p_, subj) for p_ in pat.patterns]
            if any(p_ is None or p_[1] for p_ in parts):
                return None
            tests = [p_[0] for p_ in parts]      # type: ignore[index]
            if any(t is None for t in tests):
                return (None, [])
            # isinstance(x, A) or isinstance(x, B)  ->  isinstance(x, (A, B))
            if all(isinstance(t, ast.Call) and dotted(t.func) == 'isinstance' for t in tests):
                classes: List[ast.expr] = []
                for t in tests:
                    c = t.args[1]      # type: ignore[union-attr]
                    classes += list(c.elts) if isinstance(c, ast.Tuple) else [c]
                return (ast.Call(func=ast.Name(id='isinstance', ctx=ast.Load()), args=[S(), ast.Tuple(elts=classes, ctx=ast.Load())], keywords=[]), [])
            return (ast.BoolOp(op=ast.Or(), values=tests), [])      # type: ignore[arg-type]
        return None

    def visit_Match(self, node: ast.Match) -> ast.AST:
        self.generic_visit(node)
        subj = node.subject
        pre: List[ast.stmt] = []
        if isinstance(subj, ast.Tuple) and all(_pure(e) for e in subj.elts) and \
                all(isinstance(c.pattern, ast.MatchSequence) or isinstance(c.pattern, ast.MatchAs) and c.pattern.pattern is None and c.pattern.name is None
                    for c in node.cases):
            pass        # a tuple display of pure expressions matched against sequence patterns: tested element by element
        elif not isinstance(subj, ast.Name):
            # the subject is evaluated once: hold it in a fresh local
            self._fresh += 1
            tmp = f'_match_subject{self._fresh}'
            pre.append(ast.Assign(targets=[ast.Name(id=tmp, ctx=ast.Store())], value=subj))
            subj = ast.Name(id=tmp, ctx=ast.Load())
        # the subject must not be rebound by the cases' own bindings before later tests (only in the body, which ends the match)
        arms: List[Tuple[Optional[ast.expr], List[ast.stmt]]] = []
        for case in node.cases:
            pt = self._pattern_test(case.pattern, subj)
            if pt is None:
                return node
            test, binds = pt
            if binds and case.guard is not None:
                return node         # the guard may read the captured names, which are bound before it is evaluated
            if case.guard is not None:
                test = case.guard if test is None else ast.BoolOp(op=ast.And(), values=[test, case.guard])
            if test is not None:
                test = self.visit(_loc(test, node))
            body = [ast.Assign(targets=[ast.Name(id=nm, ctx=ast.Store())], value=val) for nm, val in binds] + list(case.body)
            arms.append((test, body))
        # build the if / elif chain from the last arm backwards
        orelse: List[ast.stmt] = []
        for test, body in reversed(arms):
            if test is None:
                orelse = body
            else:
                orelse = [ast.If(test=test, body=body, orelse=orelse)]
        self._hit('PM match', node)
        out = pre + (orelse or [ast.Pass()])
        return [_loc(st, node) for st in out]

    def visit_Try(self, node: ast.Try) -> ast.AST:
        self.generic_visit(node)
        new_handlers: List[ast.ExceptHandler] = []
        for h in node.handlers:
            split = self._split_handler(h)
            if split is None:
                new_handlers.append(h)
            else:
                self._hit('H handler-split', h)
                new_handlers += split
        node.handlers = new_handlers
        return node

    def _split_handler(self, h: ast.ExceptHandler) -> Optional[List[ast.ExceptHandler]]:
        """except (A, B, C) as e:  v = X1 if isinstance(e, T1) else X2 if isinstance(e, T2) else Z ; REST
           ->  except T1 as e: v = X1; REST   except T2 as e: v = X2; REST   [except (A, B, C) as e: v = Z; REST]
        Exact when every class of every Ti is (textually) one of the caught classes: the first matching clause is the first
        matching test.  The residual clause is dropped when the Ti together name every caught class."""
        if h.name is None or h.type is None or not h.body:
            return None
        st = h.body[0]
        if not (isinstance(st, ast.Assign) and len(st.targets) == 1 and isinstance(st.targets[0], ast.Name) and isinstance(st.value, ast.IfExp)):
            return None
        caught = [dotted(x) for x in (h.type.elts if isinstance(h.type, ast.Tuple) else [h.type])]
        if any(c is None for c in caught):
            return None
        rows: List[Tuple[ast.expr, ast.expr]] = []
        cur: ast.expr = st.value
        while isinstance(cur, ast.IfExp):
            t = cur.test
            if not (isinstance(t, ast.Call) and dotted(t.func) == 'isinstance' and len(t.args) == 2 and isinstance(t.args[0], ast.Name)
                    and t.args[0].id == h.name and not t.keywords):
                return None
            names = [dotted(x) for x in (t.args[1].elts if isinstance(t.args[1], ast.Tuple) else [t.args[1]])]
            if not names or any(n is None or n not in caught for n in names):
                return None
            rows.append((t.args[1], cur.body))
            cur = cur.orelse
        if len(rows) < 2:
            return None
        covered = {dotted(x) for tp, _ in rows for x in (tp.elts if isinstance(tp, ast.Tuple) else [tp])}
        out: List[ast.ExceptHandler] = []

        def mk(tp: ast.expr, val: ast.expr) -> ast.ExceptHandler:
            if isinstance(tp, ast.Tuple) and len(tp.elts) == 1:
                tp = tp.elts[0]
            first = ast.Assign(targets=[copy.deepcopy(st.targets[0])], value=copy.deepcopy(val))
            nh = ast.ExceptHandler(type=copy.deepcopy(tp), name=h.name, body=[first] + [copy.deepcopy(b) for b in h.body[1:]])
            return _loc(nh, h)      # type: ignore[return-value]
        for tp, val in rows:
            out.append(mk(tp, val))
        if covered != set(caught):
            out.append(mk(h.type, cur))
        return out

    # RD: v = reduce(F, X, INIT)  ->  v = INIT; for e in X: v = F(v, e)
    def _reduce_call(self, e: Optional[ast.expr]) -> Optional[ast.Call]:
        if isinstance(e, ast.Call) and (dotted(e.func) or '') in ('functools.reduce', 'ft.reduce', 'reduce') and len(e.args) == 3 and not e.keywords \
                and not any(isinstance(a, ast.Starred) for a in e.args):
            F = e.args[0]
            # the loop evaluates INIT before the iterable (reduce: iterable first): harmless when one of the two is pure
            if not (_pure(e.args[1]) or _pure(e.args[2])):
                return None
            if _ref(F):
                return e
            if isinstance(F, ast.Lambda) and len(F.args.args) == 2 and not F.args.posonlyargs and not F.args.kwonlyargs and not F.args.vararg \
                    and not F.args.kwarg and not F.args.defaults and not any(isinstance(x, (ast.Lambda, ast.NamedExpr)) for x in ast.walk(F.body)):
                return e
        return None

    def _reduce_loop(self, call: ast.Call, acc: str, like: ast.AST) -> List[ast.stmt]:
        self._fresh += 1
        ev = f'_item{self._fresh}'
        init = ast.Assign(targets=[ast.Name(id=acc, ctx=ast.Store())], value=call.args[2])
        F = call.args[0]
        if isinstance(F, ast.Lambda):
            pa, pb = F.args.args[0].arg, F.args.args[1].arg

            class _S(ast.NodeTransformer):
                def visit_Name(self_, n: ast.Name) -> ast.AST:     # noqa: N805
                    if isinstance(n.ctx, ast.Load) and n.id == pa:
                        return ast.Name(id=acc, ctx=ast.Load())
                    if isinstance(n.ctx, ast.Load) and n.id == pb:
                        return ast.Name(id=ev, ctx=ast.Load())
                    return n
            step_val: ast.expr = _S().visit(copy.deepcopy(F.body))
        else:
            step_val = ast.Call(func=F, args=[ast.Name(id=acc, ctx=ast.Load()), ast.Name(id=ev, ctx=ast.Load())], keywords=[])
        step = ast.Assign(targets=[ast.Name(id=acc, ctx=ast.Store())], value=step_val)
        loop = ast.For(target=ast.Name(id=ev, ctx=ast.Store()), iter=call.args[1], body=[step], orelse=[])
        return [_loc(init, like), _loc(loop, like)]

    # CL: `return {K: V for x in X if c}` / `return [E for x in X if c]` whose element calls a private helper -> explicit loop over a
    #     fresh accumulator (so that the helper can be inlined into the loop body); comprehension targets must not clash with locals
    def _comp_loop(self, comp: ast.expr, acc: str, like: ast.AST, fn_names: Set[str]) -> Optional[List[ast.stmt]]:
        if not isinstance(comp, (ast.DictComp, ast.ListComp)) or len(comp.generators) != 1 or comp.generators[0].is_async:
            return None
        g = comp.generators[0]
        elems = [comp.key, comp.value] if isinstance(comp, ast.DictComp) else [comp.elt]
        calls_private = any(isinstance(x, ast.Call) and ((isinstance(x.func, ast.Attribute) and x.func.attr.startswith('_') and
                                                          not x.func.attr.startswith('__') and dotted(x.func.value) in ('self', 'cls')) or
                                                         (isinstance(x.func, ast.Name) and x.func.id.startswith('_') and not x.func.id.startswith('__')))
                            for e in elems for x in ast.walk(e))
        if not calls_private:
            return None
        tnames = {y.id for y in ast.walk(g.target) if isinstance(y, ast.Name)}
        if tnames & fn_names:
            return None
        if isinstance(comp, ast.DictComp):
            init: ast.expr = ast.Dict(keys=[], values=[])
            step: ast.stmt = ast.Assign(targets=[ast.Subscript(value=ast.Name(id=acc, ctx=ast.Load()), slice=comp.key, ctx=ast.Store())], value=comp.value)
        else:
            init = ast.List(elts=[], ctx=ast.Load())
            step = ast.Expr(value=ast.Call(func=ast.Attribute(value=ast.Name(id=acc, ctx=ast.Load()), attr='append', ctx=ast.Load()),
                                           args=[comp.elt], keywords=[]))
        body: List[ast.stmt] = [step]
        for c in reversed(g.ifs):
            body = [ast.If(test=c, body=body, orelse=[])]
        loop = ast.For(target=g.target, iter=g.iter, body=body, orelse=[])
        for x in ast.walk(loop):
            if isinstance(x, ast.Name) and x.id in tnames and isinstance(x.ctx, ast.Store):
                pass
        asg = ast.Assign(targets=[ast.Name(id=acc, ctx=ast.Store())], value=init)
        return [_loc(asg, like), _loc(loop, like)]

    def visit_Return(self, node: ast.Return) -> ast.AST:
        self.generic_visit(node)
        if isinstance(node.value, (ast.DictComp, ast.ListComp)):
            self._fresh += 1
            acc = f'_acc{self._fresh}'
            pre = self._comp_loop(node.value, acc, node, self.fn_names)
            if pre is not None:
                self._hit('CL comprehension-loop', node)
                return pre + [_loc(ast.Return(value=ast.Name(id=acc, ctx=ast.Load())), node)]
        rc = self._reduce_call(node.value)
        if rc is not None:
            self._fresh += 1
            acc = f'_acc{self._fresh}'
            self._hit('RD reduce', node)
            return self._reduce_loop(rc, acc, node) + [_loc(ast.Return(value=ast.Name(id=acc, ctx=ast.Load())), node)]
        return node

    def visit_While(self, node: ast.While) -> ast.AST:
        self.generic_visit(node)
        # WN: while (x := next(IT, S)) is not S: BODY   (IT a local bound once to iter(X) and used nowhere else, S a sentinel name)
        #     is handled in _sentinel_loops, which needs the enclosing block; here only the for-else rule
        return self._for_else(node)

    def visit_Expr(self, node: ast.Expr) -> ast.AST:
        self.generic_visit(node)
        # YF: `yield from X` as a statement -> `for v in X: yield v`   (same items in the same order; differs only for send()/throw()
        #     into the delegating generator, which no caller in the package does)
        if isinstance(node.value, ast.YieldFrom):
            self._fresh += 1
            v = f'_item{self._fresh}'
            self._hit('YF yield-from', node)
            loop = ast.For(target=ast.Name(id=v, ctx=ast.Store()), iter=node.value.value,
                           body=[ast.Expr(value=ast.Yield(value=ast.Name(id=v, ctx=ast.Load())))], orelse=[])
            return _loc(loop, node)
        if isinstance(node.value, ast.IfExp):
            self._hit('X expr-ifexp', node)
            e = node.value
            out = ast.If(test=e.test, body=[_loc(ast.Expr(value=e.body), node)], orelse=[_loc(ast.Expr(value=e.orelse), node)])
            return self.visit(_loc(out, node))
        return node


def _breaks(stmts: Sequence[ast.stmt]) -> bool:
    stack = list(stmts)
    while stack:
        n = stack.pop()
        if isinstance(n, ast.Break):
            return True
        if isinstance(n, (ast.For, ast.AsyncFor, ast.While)):
            stack += n.orelse       # a break in the else clause of an inner loop targets the outer loop
            continue
        if isinstance(n, (ast.FunctionDef, ast.AsyncFunctionDef, ast.ClassDef, ast.Lambda)):
            continue
        stack += list(ast.iter_child_nodes(n))
    return False


# ------------------------------------------------------------------------------------------------
# K: new constants
# ------------------------------------------------------------------------------------------------

def _module_level_bindings(tree: ast.Module) -> Dict[str, List[ast.stmt]]:
    out: Dict[str, List[ast.stmt]] = {}

    def scan(stmts: Sequence[ast.stmt]) -> None:
        for st in stmts:
            if isinstance(st, ast.Assign):
                for t in st.targets:
                    for x in ast.walk(t):
                        if isinstance(x, ast.Name):
                            out.setdefault(x.id, []).append(st)
            elif isinstance(st, (ast.AnnAssign, ast.AugAssign)):
                if isinstance(st.target, ast.Name):
                    out.setdefault(st.target.id, []).append(st)
            elif isinstance(st, (ast.FunctionDef, ast.AsyncFunctionDef, ast.ClassDef)):
                out.setdefault(st.name, []).append(st)
            elif isinstance(st, (ast.Import, ast.ImportFrom)):
                for a in st.names:
                    out.setdefault((a.asname or a.name).split('.')[0], []).append(st)
            elif isinstance(st, (ast.If, ast.Try, ast.With, ast.For, ast.While)):
                for fld in ('body', 'orelse', 'finalbody'):
                    scan(getattr(st, fld, []) or [])
                for h in getattr(st, 'handlers', []):
                    scan(h.body)
            elif isinstance(st, ast.Delete):
                for t in st.targets:
                    if isinstance(t, ast.Name):
                        out.setdefault(t.id, []).append(st)
    scan(tree.body)
    return out


def _function_locals(fn: ast.AST) -> Set[str]:
    names: Set[str] = set()
    a = fn.args     # type: ignore[attr-defined]
    for p in list(a.posonlyargs) + list(a.args) + list(a.kwonlyargs) + ([a.vararg] if a.vararg else []) + ([a.kwarg] if a.kwarg else []):
        names.add(p.arg)
    body = fn.body if isinstance(fn.body, list) else [fn.body]      # type: ignore[attr-defined]
    stack: List[ast.AST] = list(body)
    while stack:
        n = stack.pop()
        if isinstance(n, ast.Name) and isinstance(n.ctx, (ast.Store, ast.Del)):
            names.add(n.id)
        elif isinstance(n, ast.ExceptHandler) and n.name:
            names.add(n.name)
        elif isinstance(n, (ast.FunctionDef, ast.AsyncFunctionDef, ast.ClassDef)):
            names.add(n.name)
            continue
        elif isinstance(n, ast.Lambda):
            continue
        elif isinstance(n, (ast.Import, ast.ImportFrom)):
            for al in n.names:
                names.add((al.asname or al.name).split('.')[0])
        elif isinstance(n, (ast.Global, ast.Nonlocal)):
            pass
        stack += list(ast.iter_child_nodes(n))
    return names


def _readonly_uses(trees: Sequence[ast.Module], name: str, skip: ast.AST) -> bool:
    """Every occurrence of `name` (as a bare name or an attribute of that name) is a read that cannot modify a container:
    .get / .items / .keys / .values / subscript load / membership / iteration / len / call argument to isinstance."""
    for tree in trees:
        parents: Dict[int, ast.AST] = {}
        for x in ast.walk(tree):
            for ch in ast.iter_child_nodes(x):
                parents[id(ch)] = x
        for x in ast.walk(tree):
            hit = isinstance(x, ast.Name) and x.id == name or isinstance(x, ast.Attribute) and x.attr == name
            if not hit:
                continue
            p = parents.get(id(x))
            if p is skip or isinstance(x, ast.Name) and isinstance(x.ctx, ast.Store) and p is not None and \
                    isinstance(p, (ast.Assign, ast.AnnAssign)) and p is skip:
                continue
            if isinstance(getattr(x, 'ctx', None), (ast.Store, ast.Del)):
                if isinstance(p, (ast.Assign, ast.AnnAssign)) and p is skip:
                    continue
                return False
            if isinstance(p, ast.Attribute) and p.value is x:
                if p.attr in ('get', 'items', 'keys', 'values', 'index', 'count', 'copy'):
                    continue
                return False
            if isinstance(p, ast.Subscript) and p.value is x and isinstance(p.ctx, ast.Load):
                continue
            if isinstance(p, ast.Compare) and x in p.comparators and all(isinstance(o, (ast.In, ast.NotIn)) for o in p.ops):
                continue
            if isinstance(p, (ast.For, ast.comprehension)) and p.iter is x:
                continue
            if isinstance(p, ast.Call) and dotted(p.func) in ('len', 'isinstance', 'tuple', 'frozenset', 'sorted', 'iter', 'dict', 'list',
                                                              'set', 'enumerate', 'reversed') and x in p.args:
                continue
            if isinstance(p, ast.alias):
                continue
            return False
    return True


class _ConstSubst(ast.NodeTransformer):
    """Replace reads of the given names inside functions where the name is not local."""

    def __init__(self, consts: Dict[str, ast.expr], cls_consts: Dict[Tuple[str, str], ast.expr]):
        self.consts = consts
        self.cls_consts = cls_consts        # (class name, attr) -> value
        self.shadow: List[Set[str]] = []
        self.cls_stack: List[str] = []
        self.in_func = 0
        self.changed = 0

    def visit_ClassDef(self, node: ast.ClassDef) -> ast.AST:
        self.cls_stack.append(node.name)
        self.generic_visit(node)
        self.cls_stack.pop()
        return node

    def _func(self, node):  # type: ignore[no-untyped-def]
        self.shadow.append(_function_locals(node))
        self.in_func += 1
        # defaults / decorators are evaluated outside
        if isinstance(node.body, list):
            node.body = [self.visit(s) for s in node.body]
            flat: List[ast.stmt] = []
            for s in node.body:
                flat += s if isinstance(s, list) else [s]
            node.body = flat
        else:
            node.body = self.visit(node.body)
        self.in_func -= 1
        self.shadow.pop()
        return node

    visit_FunctionDef = _func
    visit_AsyncFunctionDef = _func
    visit_Lambda = _func

    def visit_Name(self, node: ast.Name) -> ast.AST:
        if self.in_func and isinstance(node.ctx, ast.Load) and node.id in self.consts and not any(node.id in s for s in self.shadow):
            self.changed += 1
            return _loc(copy.deepcopy(self.consts[node.id]), node)
        return node

    def visit_Attribute(self, node: ast.Attribute) -> ast.AST:
        self.generic_visit(node)
        if self.in_func and isinstance(node.ctx, ast.Load) and isinstance(node.value, ast.Name):
            recv = node.value.id
            if recv in ('self', 'cls') and self.cls_stack and (self.cls_stack[-1], node.attr) in self.cls_consts:
                self.changed += 1
                return _loc(copy.deepcopy(self.cls_consts[(self.cls_stack[-1], node.attr)]), node)
            if (recv, node.attr) in self.cls_consts and not any(recv in s for s in self.shadow):
                self.changed += 1
                return _loc(copy.deepcopy(self.cls_consts[(recv, node.attr)]), node)
        return node


# ------------------------------------------------------------------------------------------------
# A: local aliases
# ------------------------------------------------------------------------------------------------

def _propagate_aliases(fn: ast.AST) -> int:
    """`v = X.m` where v is assigned exactly once in the function, X is a pure reference whose root name is a parameter
    or assigned exactly once, the alias definition comes after the root's definition inside the same or a nested block, and
    no attribute on the path is assigned in the function.  Reads of v are replaced; the alias assignment is removed."""
    if not isinstance(getattr(fn, 'body', None), list):
        return 0
    stores: Dict[str, List[ast.AST]] = {}
    parents: Dict[int, ast.AST] = {}
    own: List[ast.AST] = []
    stack: List[ast.AST] = list(fn.body)      # type: ignore[attr-defined]
    nested_scopes = False
    while stack:
        n = stack.pop()
        own.append(n)
        if isinstance(n, (ast.FunctionDef, ast.AsyncFunctionDef, ast.ClassDef, ast.Lambda)):
            nested_scopes = True
        for ch in ast.iter_child_nodes(n):
            parents[id(ch)] = n
            stack.append(ch)
    for n in own:
        if isinstance(n, ast.Name) and isinstance(n.ctx, (ast.Store, ast.Del)):
            stores.setdefault(n.id, []).append(n)
        elif isinstance(n, ast.ExceptHandler) and n.name:
            stores.setdefault(n.name, []).append(n)
        elif isinstance(n, (ast.Global, ast.Nonlocal)):
            for nm in n.names:
                stores.setdefault(nm, []).extend([n, n])
    a = fn.args     # type: ignore[attr-defined]
    params = {p.arg for p in list(a.posonlyargs) + list(a.args) + list(a.kwonlyargs)} | ({a.vararg.arg} if a.vararg else set()) | \
        ({a.kwarg.arg} if a.kwarg else set())
    attr_stores = {dotted(n) for n in own if isinstance(n, ast.Attribute) and isinstance(n.ctx, (ast.Store, ast.Del))}

    def block_chain(st: ast.AST) -> List[int]:
        out = []
        cur: Optional[ast.AST] = st
        while cur is not None:
            out.append(id(cur))
            cur = parents.get(id(cur))
        return out
    n_changed = 0
    for st in list(own):
        if not (isinstance(st, ast.Assign) and len(st.targets) == 1 and isinstance(st.targets[0], ast.Name)):
            continue
        v = st.targets[0].id
        val = st.value
        if isinstance(val, ast.Name) and val.id != v and not stores.get(val.id) and len(stores.get(v, [])) == 1 and v not in params and \
                not nested_scopes:
            # `v = X`, X a parameter / captured variable that this function never assigns: v is another name for X
            reads = [n for n in own if isinstance(n, ast.Name) and n.id == v and isinstance(n.ctx, ast.Load)]
            sblock = parents.get(id(st))
            if reads and all(r.lineno >= st.lineno for r in reads) and (sblock is None or all(id(sblock) in block_chain(r) for r in reads)):
                for r in reads:
                    r.id = val.id
                holder = parents.get(id(st))
                for fld in ('body', 'orelse', 'finalbody'):
                    lst = getattr(holder, fld, None) if holder is not None else None
                    if isinstance(lst, list) and st in lst:
                        i = lst.index(st)
                        lst[i:i + 1] = [] if len(lst) > 1 else [_loc(ast.Pass(), st)]
                if holder is None and st in fn.body:      # type: ignore[attr-defined]
                    fn.body.remove(st)      # type: ignore[attr-defined]
                n_changed += 1
            continue
        if not (isinstance(val, ast.Attribute) and _ref(val)):
            continue
        if len(stores.get(v, [])) != 1 or v in params:
            continue
        d = dotted(val)
        assert d is not None
        root = d.split('.')[0]
        rs = stores.get(root, [])
        if root in params and not rs:
            pass
        elif len(rs) == 1 and root not in params:
            rdef = rs[0]
            # statement holding the root's definition
            cur: Optional[ast.AST] = rdef
            while cur is not None and not isinstance(cur, ast.stmt):
                cur = parents.get(id(cur))
            if cur is None or isinstance(cur, (ast.For, ast.AsyncFor, ast.With, ast.AsyncWith)):
                continue
            rblock = parents.get(id(cur))
            if id(rblock) not in block_chain(st) and rblock is not None:
                continue
            if getattr(cur, 'lineno', 0) >= st.lineno:
                continue
        elif not rs and root not in params:
            pass        # a global / builtin root
        else:
            continue
        # no attribute along the path is assigned in this function
        pref = d.split('.')
        if any('.'.join(pref[:i]) in attr_stores for i in range(2, len(pref) + 1)):
            continue
        # the alias must only be read after its definition, and not in nested scopes
        reads = [n for n in own if isinstance(n, ast.Name) and n.id == v and isinstance(n.ctx, ast.Load)]
        if not reads or nested_scopes and any(_in_nested_scope(r, parents, fn) for r in reads):
            continue
        if any(r.lineno < st.lineno for r in reads):
            continue
        # reads must be dominated by the definition: the definition's block encloses every read
        sblock = parents.get(id(st))
        if sblock is not None and not all(id(sblock) in block_chain(r) for r in reads):
            continue
        # a bound-method alias is exact as the callee of a call on a local object: the same object receives the same call
        # (a data attribute could be rebound between the alias and its use by any callee, so nothing else is rewritten)
        if len(pref) != 2 or not all(isinstance(parents.get(id(r)), ast.Call) and parents[id(r)].func is r for r in reads):   # type: ignore[attr-defined]
            continue
        for r in reads:
            new = _loc(copy.deepcopy(val), r)
            p = parents.get(id(r))
            for fld, old in ast.iter_fields(p):     # type: ignore[arg-type]
                if old is r:
                    setattr(p, fld, new)
                elif isinstance(old, list):
                    for i, o in enumerate(old):
                        if o is r:
                            old[i] = new
            parents[id(new)] = p        # type: ignore[assignment]
        # drop the alias assignment
        holder = parents.get(id(st))
        for fld in ('body', 'orelse', 'finalbody'):
            lst = getattr(holder, fld, None)
            if isinstance(lst, list) and st in lst:
                i = lst.index(st)
                lst[i:i + 1] = [] if len(lst) > 1 else [_loc(ast.Pass(), st)]
        n_changed += 1
    return n_changed


def _sentinel_loops(fn: ast.AST, module_sentinels: Set[str]) -> int:
    """WN:  it = iter(X) ... while (x := next(it, S)) is not S: BODY [else: E]   ->   for x in X: BODY [else: E]
    S is a sentinel: a name bound once to `object()` (module level or local, possibly through one local alias), so no element can be
    it; `it` is assigned once and read only by that next(); x is not read outside the loop."""
    if not isinstance(getattr(fn, 'body', None), list):
        return 0
    stores: Dict[str, List[ast.AST]] = {}
    loads: Dict[str, List[ast.Name]] = {}
    assigns: Dict[str, List[ast.Assign]] = {}
    for x in ast.walk(fn):
        if isinstance(x, ast.Name):
            (loads if isinstance(x.ctx, ast.Load) else stores).setdefault(x.id, []).append(x)
        elif isinstance(x, ast.Assign) and len(x.targets) == 1 and isinstance(x.targets[0], ast.Name):
            assigns.setdefault(x.targets[0].id, []).append(x)

    def is_sentinel(nm: str, depth: int = 0) -> bool:
        if nm in module_sentinels and nm not in stores:
            return True
        a = assigns.get(nm, [])
        if len(a) == 1 and len(stores.get(nm, [])) == 1 and depth < 2:
            v = a[0].value
            if isinstance(v, ast.Call) and dotted(v.func) == 'object' and not v.args and not v.keywords:
                return True
            if isinstance(v, ast.Name):
                return is_sentinel(v.id, depth + 1)
        return False
    n_changed = 0

    def block(stmts: List[ast.stmt]) -> None:
        nonlocal n_changed
        for i, st in enumerate(list(stmts)):
            if isinstance(st, ast.While) and isinstance(st.test, ast.Compare) and len(st.test.ops) == 1 and isinstance(st.test.ops[0], ast.IsNot) \
                    and isinstance(st.test.left, ast.NamedExpr) and isinstance(st.test.comparators[0], ast.Name):
                ne = st.test.left
                S = st.test.comparators[0].id
                call = ne.value
                if isinstance(call, ast.Call) and dotted(call.func) == 'next' and len(call.args) == 2 and not call.keywords and \
                        isinstance(call.args[0], ast.Name) and isinstance(call.args[1], ast.Name) and call.args[1].id == S and is_sentinel(S):
                    itn = call.args[0].id
                    xv = ne.target.id
                    ia = assigns.get(itn, [])
                    inside = {id(y) for y in ast.walk(st)}
                    if len(ia) == 1 and len(stores.get(itn, [])) == 1 and len(loads.get(itn, [])) == 1 and \
                            isinstance(ia[0].value, ast.Call) and dotted(ia[0].value.func) == 'iter' and len(ia[0].value.args) == 1 and \
                            ia[0] in stmts and stmts.index(ia[0]) < stmts.index(st) and \
                            all(id(r) in inside for r in loads.get(xv, [])) and all(id(w) in inside for w in stores.get(xv, [])):
                        loop = ast.For(target=ast.Name(id=xv, ctx=ast.Store()), iter=ia[0].value.args[0], body=st.body, orelse=st.orelse)
                        stmts[stmts.index(st)] = _loc(loop, st)
                        stmts.remove(ia[0])
                        n_changed += 1
                        st = loop
            cur_st = st
            # LU: for v in X: a, b = v; REST   (v read nowhere else)  ->  for a, b in X: REST
            if isinstance(cur_st, (ast.For, ast.AsyncFor)) and isinstance(cur_st.target, ast.Name) and cur_st.body and \
                    isinstance(cur_st.body[0], ast.Assign) and len(cur_st.body[0].targets) == 1 and \
                    isinstance(cur_st.body[0].targets[0], (ast.Tuple, ast.List)) and isinstance(cur_st.body[0].value, ast.Name) and \
                    cur_st.body[0].value.id == cur_st.target.id and len(cur_st.body) > 1:
                v = cur_st.target.id
                all_loads = [y for y in ast.walk(fn) if isinstance(y, ast.Name) and y.id == v and isinstance(y.ctx, ast.Load)]
                all_stores = [y for y in ast.walk(fn) if isinstance(y, ast.Name) and y.id == v and isinstance(y.ctx, ast.Store)]
                if len(all_loads) == 1 and len(all_stores) == 1:
                    cur_st.target = cur_st.body[0].targets[0]
                    del cur_st.body[0]
                    n_changed += 1
            st = cur_st
            for fld in ('body', 'orelse', 'finalbody'):
                sub = getattr(st, fld, None)
                if isinstance(sub, list) and sub and isinstance(sub[0], ast.stmt) and not isinstance(st, (ast.FunctionDef, ast.AsyncFunctionDef, ast.ClassDef)):
                    block(sub)
            for h in getattr(st, 'handlers', []) or []:
                block(h.body)
    block(fn.body)      # type: ignore[attr-defined]
    return n_changed


def _static_loops(fn: ast.AST) -> int:
    """SU:  for a, b in ((K1, E1), (K2, E2), …): BODY   ->   BODY[a:=K1, b:=E1]; BODY[a:=K2, b:=E2]; …
    for a display of at most 16 displays of atoms (constants and names the body does not bind), a body without break / continue /
    return / nested definitions that does not bind the targets, no else clause, and targets that are not read after the loop.
    SA:  setattr(X, 'name', V)  as a statement   ->   X.name = V   (a plain identifier that is not subject to name mangling).
    Both are exact: the atoms are evaluated to the same objects whenever they are read, and setattr with a constant name is
    what the assignment statement compiles to."""
    if not isinstance(getattr(fn, 'body', None), list):
        return 0
    n_changed = 0

    class _Sub(ast.NodeTransformer):
        def __init__(self, bind):
            self.bind = bind

        def visit_Name(self, x):    # noqa: N802
            if isinstance(x.ctx, ast.Load) and x.id in self.bind:
                return _loc(copy.deepcopy(self.bind[x.id]), x)
            return x

    def atom(e: ast.AST) -> bool:
        if isinstance(e, (ast.Constant, ast.Name)):
            return True
        if isinstance(e, ast.Attribute):        # a dotted reference (module.Class): read again, it is the same object
            return dotted(e) is not None
        # operator.attrgetter('x') and friends: stateless function objects, interchangeable with a fresh one
        return isinstance(e, ast.Call) and _opname(e.func) in ('attrgetter', 'itemgetter', 'methodcaller') and not e.keywords and \
            all(isinstance(a, ast.Constant) for a in e.args)

    # SR:  v = {'k1': E1, 'k2': E2} … f(…, **v)   (v bound once, read once — by that spread)   ->   v_k1 = E1; v_k2 = E2 … f(…, k1=v_k1, k2=v_k2)
    # the values are still computed where the display was, the mapping itself was never observable
    name_loads: Dict[str, List[ast.Name]] = {}
    name_stores: Dict[str, int] = {}
    for y in ast.walk(fn):
        if isinstance(y, ast.Name):
            if isinstance(y.ctx, ast.Load):
                name_loads.setdefault(y.id, []).append(y)
            else:
                name_stores[y.id] = name_stores.get(y.id, 0) + 1
        elif isinstance(y, ast.arg):
            name_stores[y.arg] = name_stores.get(y.arg, 0) + 1
    spreads = {id(k.value): (c, k) for c in ast.walk(fn) if isinstance(c, ast.Call) for k in c.keywords if k.arg is None and isinstance(k.value, ast.Name)}

    def sra(stmts: List[ast.stmt]) -> None:
        nonlocal n_changed
        for i, st in enumerate(list(stmts)):
            if isinstance(st, ast.Assign) and len(st.targets) == 1 and isinstance(st.targets[0], ast.Name) and isinstance(st.value, ast.Dict) and st.value.keys \
                    and all(isinstance(k, ast.Constant) and isinstance(k.value, str) and k.value.isidentifier() for k in st.value.keys):
                v = st.targets[0].id
                ld = name_loads.get(v, [])
                keys = [k.value for k in st.value.keys]
                if name_stores.get(v) == 1 and len(ld) == 1 and id(ld[0]) in spreads and len(set(keys)) == len(keys):
                    call, kw = spreads[id(ld[0])]
                    if not (set(keys) & {k.arg for k in call.keywords if k.arg}) and \
                            not any(f'{v}_{k}' in name_stores or f'{v}_{k}' in name_loads for k in keys):
                        new_st = [_loc(ast.Assign(targets=[ast.Name(id=f'{v}_{k}', ctx=ast.Store())], value=e), st) for k, e in zip(keys, st.value.values)]
                        idx = stmts.index(st)
                        stmts[idx:idx + 1] = new_st
                        pos_kw = call.keywords.index(kw)
                        call.keywords[pos_kw:pos_kw + 1] = [_loc(ast.keyword(arg=k, value=ast.Name(id=f'{v}_{k}', ctx=ast.Load())), kw.value) for k in keys]
                        n_changed += 1
                        continue
            for fld in ('body', 'orelse', 'finalbody'):
                sub = getattr(st, fld, None)
                if isinstance(sub, list) and sub and isinstance(sub[0], ast.stmt) and not isinstance(st, (ast.FunctionDef, ast.AsyncFunctionDef, ast.ClassDef)):
                    sra(sub)
            for h in getattr(st, 'handlers', []) or []:
                sra(h.body)
    if spreads:
        sra(fn.body)      # type: ignore[attr-defined]

    def block(stmts: List[ast.stmt]) -> None:
        nonlocal n_changed
        i = 0
        while i < len(stmts):
            st = stmts[i]
            # the table may be named first: `T = (…)` immediately before the loop, T bound once and read only by the loop
            if isinstance(st, ast.For) and isinstance(st.iter, ast.Name) and i > 0 and isinstance(stmts[i - 1], ast.Assign) and \
                    len(stmts[i - 1].targets) == 1 and isinstance(stmts[i - 1].targets[0], ast.Name) and stmts[i - 1].targets[0].id == st.iter.id and \
                    isinstance(stmts[i - 1].value, (ast.Tuple, ast.List)):
                tn = st.iter.id
                uses = [y for y in ast.walk(fn) if isinstance(y, ast.Name) and y.id == tn]
                if len(uses) == 2:
                    st.iter = stmts[i - 1].value
                    del stmts[i - 1]
                    i -= 1
                    n_changed += 1
            if isinstance(st, ast.For) and not st.orelse and isinstance(st.iter, (ast.Tuple, ast.List)) and 0 < len(st.iter.elts) <= 16:
                tg = st.target
                names = [tg.id] if isinstance(tg, ast.Name) else [e.id for e in tg.elts] if isinstance(tg, (ast.Tuple, ast.List)) and \
                    all(isinstance(e, ast.Name) for e in tg.elts) else None
                ok = names is not None
                rows = []
                if ok:
                    for el in st.iter.elts:
                        if isinstance(tg, ast.Name):
                            row = [el]
                        elif isinstance(el, (ast.Tuple, ast.List)) and len(el.elts) == len(names):
                            row = list(el.elts)
                        else:
                            ok = False
                            break
                        if not all(atom(e) for e in row):
                            ok = False
                            break
                        rows.append(row)
                if ok:
                    body_nodes = [y for b_ in st.body for y in ast.walk(b_)]
                    bound_in_body = {y.id for y in body_nodes if isinstance(y, ast.Name) and isinstance(y.ctx, (ast.Store, ast.Del))}
                    used_atoms = {y.id for row in rows for e in row for y in ast.walk(e) if isinstance(y, ast.Name)}
                    if any(isinstance(y, (ast.Break, ast.Continue, ast.FunctionDef, ast.AsyncFunctionDef, ast.ClassDef, ast.Lambda,
                                          ast.Yield, ast.YieldFrom, ast.NamedExpr, ast.Global, ast.Nonlocal)) for y in body_nodes) or \
                            bound_in_body & (set(names) | used_atoms):
                        ok = False
                if ok:
                    inside = {id(y) for y in ast.walk(st)}
                    after = [y for y in ast.walk(fn) if isinstance(y, ast.Name) and y.id in names and id(y) not in inside]
                    if after:
                        ok = False
                if ok:
                    out: List[ast.stmt] = []
                    for row in rows:
                        bind = dict(zip(names, row))
                        for b_ in st.body:
                            out.append(_Sub(bind).visit(copy.deepcopy(b_)))
                    stmts[i:i + 1] = out
                    n_changed += 1
                    continue
            # RI:  return A if C else B   ->   if C: return A  else: return B
            if isinstance(st, ast.Return) and isinstance(st.value, ast.IfExp):
                ie = st.value
                stmts[i] = _loc(ast.If(test=ie.test, body=[_loc(ast.Return(value=ie.body), ie.body)], orelse=[_loc(ast.Return(value=ie.orelse), ie.orelse)]), st)
                n_changed += 1
                continue
            # PT:  t1, t2 = e1, e2   ->   t1 = e1; t2 = e2   when no later value reads an earlier target (or the object an earlier
            # attribute target lives on): then evaluating e2 after binding t1 sees what it saw before
            if isinstance(st, ast.Assign) and len(st.targets) == 1 and isinstance(st.targets[0], (ast.Tuple, ast.List)) and \
                    isinstance(st.value, (ast.Tuple, ast.List)) and len(st.targets[0].elts) == len(st.value.elts) >= 2 and \
                    all(isinstance(t, ast.Name) or isinstance(t, ast.Attribute) and isinstance(t.value, ast.Name) for t in st.targets[0].elts) and \
                    not any(isinstance(e, ast.Starred) for e in st.value.elts):
                tgs, vals = st.targets[0].elts, st.value.elts
                ok_pt = True
                for j in range(1, len(vals)):
                    read = {y.id for y in ast.walk(vals[j]) if isinstance(y, ast.Name)}
                    for t in tgs[:j]:
                        base = t.id if isinstance(t, ast.Name) else t.value.id
                        if base in read:
                            ok_pt = False
                if len({ast.dump(t) for t in tgs}) != len(tgs):
                    ok_pt = False
                if ok_pt:
                    stmts[i:i + 1] = [_loc(ast.Assign(targets=[t], value=v), st) for t, v in zip(tgs, vals)]
                    n_changed += 1
                    continue
            if isinstance(st, ast.Expr) and isinstance(st.value, ast.Call) and isinstance(st.value.func, ast.Name) and st.value.func.id == 'setattr' \
                    and len(st.value.args) == 3 and not st.value.keywords and isinstance(st.value.args[1], ast.Constant) and \
                    isinstance(st.value.args[1].value, str) and st.value.args[1].value.isidentifier() and \
                    not st.value.args[1].value.startswith('__') and isinstance(st.value.args[0], ast.Name):
                a0, a1, a2 = st.value.args
                stmts[i] = _loc(ast.Assign(targets=[_loc(ast.Attribute(value=a0, attr=a1.value, ctx=ast.Store()), st)], value=a2), st)
                n_changed += 1
                i += 1
                continue
            for fld in ('body', 'orelse', 'finalbody'):
                sub = getattr(st, fld, None)
                if isinstance(sub, list) and sub and isinstance(sub[0], ast.stmt) and not isinstance(st, (ast.FunctionDef, ast.AsyncFunctionDef, ast.ClassDef)):
                    block(sub)
            for h in getattr(st, 'handlers', []) or []:
                block(h.body)
            i += 1
    block(fn.body)      # type: ignore[attr-defined]
    return n_changed


_PURE_BUILTINS = ('isinstance', 'issubclass', 'callable')

def _flag_subst(fn: ast.AST) -> int:
    """FL:  flag = <test>  …  if flag: …  /  … and not flag   ->   the test written where the flag is read, the assignment dropped.
    The test is pure (identity / type tests, and / or / not over local names and constants — _local_pure), the flag is bound exactly
    once, and every name the test reads is a parameter that is never rebound or a local bound exactly once by a statement that
    precedes the flag's assignment in the same block: then the test has the same value wherever the flag is read."""
    if not isinstance(getattr(fn, 'body', None), list):
        return 0
    stores: Dict[str, int] = {}
    params: Set[str] = set()
    for x in ast.walk(fn):
        if isinstance(x, ast.Name) and isinstance(x.ctx, (ast.Store, ast.Del)):
            stores[x.id] = stores.get(x.id, 0) + 1
        elif isinstance(x, ast.arg):
            params.add(x.arg)
        elif isinstance(x, (ast.Global, ast.Nonlocal)):
            for nm in x.names:
                stores[nm] = stores.get(nm, 0) + 99
        elif isinstance(x, ast.ExceptHandler) and x.name:
            stores[x.name] = stores.get(x.name, 0) + 1
    n_changed = 0

    def block(stmts: List[ast.stmt]) -> None:
        nonlocal n_changed
        i = 0
        while i < len(stmts):
            st = stmts[i]
            tg = st.targets[0] if isinstance(st, ast.Assign) and len(st.targets) == 1 else st.target if isinstance(st, ast.AnnAssign) and st.value is not None else None
            v = st.value if tg is not None else None
            if isinstance(tg, ast.Name) and stores.get(tg.id) == 1 and tg.id not in params and \
                    isinstance(v, (ast.Compare, ast.BoolOp, ast.UnaryOp)) and _local_pure(v) and \
                    not any(isinstance(y, ast.Name) and y.id == tg.id for y in ast.walk(v)):
                ok = True
                for y in ast.walk(v):
                    if isinstance(y, ast.Name):
                        if y.id in params and not stores.get(y.id):
                            continue
                        if stores.get(y.id) == 1 and any(
                                isinstance(p_, (ast.Assign, ast.AnnAssign)) and
                                any(isinstance(z, ast.Name) and z.id == y.id and isinstance(z.ctx, ast.Store)
                                    for t_ in (p_.targets if isinstance(p_, ast.Assign) else [p_.target]) for z in ast.walk(t_))
                                for p_ in stmts[:i]):
                            continue
                        if y.id in ('None', 'True', 'False') or (y.id not in stores and y.id not in params):
                            continue        # a global / builtin name (UNSET, a class): not rebound by local code
                        ok = False
                reads = [y for y in ast.walk(fn) if isinstance(y, ast.Name) and y.id == tg.id and isinstance(y.ctx, ast.Load)]
                # reads in nested functions / lambdas / comprehensions see the variable later: not touched
                nested = {id(z) for d in ast.walk(fn) if d is not fn and isinstance(d, (ast.FunctionDef, ast.AsyncFunctionDef, ast.Lambda, ast.ListComp,
                                                                                          ast.SetComp, ast.DictComp, ast.GeneratorExp))
                          for z in ast.walk(d)}
                if ok and reads and 0 < len(reads) <= 6 and not any(id(r) in nested for r in reads):
                    class _R(ast.NodeTransformer):
                        def visit_Name(self_, x):      # noqa: N805
                            if isinstance(x.ctx, ast.Load) and x.id == tg.id:
                                return _loc(copy.deepcopy(v), x)
                            return x
                    del stmts[i]
                    for top in fn.body:     # type: ignore[attr-defined]
                        _R().visit(top)
                    n_changed += 1
                    continue
            for fld in ('body', 'orelse', 'finalbody'):
                sub = getattr(st, fld, None)
                if isinstance(sub, list) and sub and isinstance(sub[0], ast.stmt) and not isinstance(st, (ast.FunctionDef, ast.AsyncFunctionDef, ast.ClassDef)):
                    block(sub)
            for h in getattr(st, 'handlers', []) or []:
                block(h.body)
            i += 1
    block(fn.body)      # type: ignore[attr-defined]
    return n_changed



def _local_pure(e: ast.AST) -> bool:
    """Reads only local names, constants and type tests: its value cannot be changed by anything evaluated in between."""
    for x in ast.walk(e):
        if isinstance(x, (ast.Constant, ast.Name, ast.IfExp, ast.BoolOp, ast.And, ast.Or, ast.Not, ast.UnaryOp, ast.Load, ast.Tuple,
                          ast.Is, ast.IsNot, ast.expr_context)):
            continue
        if isinstance(x, ast.Compare) and all(isinstance(o, (ast.Is, ast.IsNot)) for o in x.ops):
            continue
        if isinstance(x, ast.Call) and isinstance(x.func, ast.Name) and x.func.id in _PURE_BUILTINS and not x.keywords:
            continue
        return False
    return True


def _forward_subst(fn: ast.AST) -> int:
    """`v = E` immediately followed by a statement that reads v once in its header, for EVERY assignment of v, and no other
    read of v in the function (each read is then reached by exactly the assignment before it).  E is built from local names,
    constants, identity / type tests and conditional expressions, or is a reference to a global (module attribute chain).
    The read is replaced by E, the assignment dropped."""
    if not isinstance(getattr(fn, 'body', None), list):
        return 0
    loads: Dict[str, int] = {}
    stores: Dict[str, int] = {}
    for x in ast.walk(fn):
        if isinstance(x, ast.Name):
            if isinstance(x.ctx, ast.Load):
                loads[x.id] = loads.get(x.id, 0) + 1
            else:
                stores[x.id] = stores.get(x.id, 0) + 1
        elif isinstance(x, (ast.Global, ast.Nonlocal)):
            for nm in x.names:
                stores[nm] = stores.get(nm, 0) + 99
        elif isinstance(x, ast.ExceptHandler) and x.name:
            stores[x.name] = stores.get(x.name, 0) + 1
        elif isinstance(x, ast.arg):
            stores[x.arg] = stores.get(x.arg, 0) + 99

    def headers(st: ast.stmt) -> List[ast.AST]:
        if isinstance(st, (ast.Expr, ast.Assign, ast.AnnAssign, ast.AugAssign, ast.Return)):
            return [st.value] if getattr(st, 'value', None) is not None else []
        if isinstance(st, ast.If):
            return [st.test]
        if isinstance(st, (ast.For, ast.AsyncFor)):
            return [st.iter]
        if isinstance(st, ast.Raise):
            return [x for x in (st.exc, st.cause) if x is not None]
        return []

    def ok_value(e: ast.expr) -> bool:
        if isinstance(e, (ast.IfExp, ast.Constant)) and _local_pure(e):
            return True
        d = dotted(e)
        if d is not None and isinstance(e, ast.Attribute):
            root = d.split('.')[0]
            return root not in stores and root not in ('self', 'cls')
        # functools.partial(F, a, k=b) over references and local names: building it has no effect and reads nothing that can change
        if isinstance(e, ast.Call) and (dotted(e.func) or '') in ('ft.partial', 'functools.partial', 'partial') and e.args and \
                not any(isinstance(a, ast.Starred) for a in e.args) and all(k.arg is not None for k in e.keywords) and \
                all(isinstance(a, (ast.Name, ast.Constant)) or (dotted(a) is not None and dotted(a).split('.')[0] not in stores and
                                                                 dotted(a).split('.')[0] not in ('self', 'cls'))
                    for a in list(e.args) + [k.value for k in e.keywords]):
            return True
        return False
    pairs: Dict[str, List[Tuple[List[ast.stmt], ast.stmt, ast.stmt]]] = {}

    def block(stmts: List[ast.stmt]) -> None:
        for i, st in enumerate(stmts):
            if isinstance(st, ast.Assign) and len(st.targets) == 1 and isinstance(st.targets[0], ast.Name) and i + 1 < len(stmts):
                v = st.targets[0].id
                nxt = stmts[i + 1]
                nv_ = getattr(nxt, 'value', None) if isinstance(nxt, (ast.Return, ast.Assign, ast.AnnAssign, ast.Expr)) else None
                # `v = E` then `return await v` / `x = v` / `await v`: nothing is evaluated between E and the read, whatever E is
                direct = (isinstance(nv_, ast.Name) and nv_.id == v) or \
                    (isinstance(nv_, ast.Await) and isinstance(nv_.value, ast.Name) and nv_.value.id == v)
                # … or the read is the first thing the next statement evaluates (`flag = E` then `if flag:` / `return A if flag else B` /
                # `if not flag and …`): again nothing runs between E and the read
                if not direct:
                    hs_ = headers(nxt)
                    lead = hs_[0] if hs_ and not isinstance(nxt, (ast.Raise,)) else None
                    while lead is not None and not isinstance(lead, ast.Name):
                        if isinstance(lead, ast.IfExp):
                            lead = lead.test
                        elif isinstance(lead, ast.BoolOp):
                            lead = lead.values[0]
                        elif isinstance(lead, ast.UnaryOp) and isinstance(lead.op, ast.Not):
                            lead = lead.operand
                        elif isinstance(lead, ast.Compare):
                            lead = lead.left
                        elif isinstance(lead, ast.Await):
                            lead = lead.value
                        else:
                            lead = None
                    direct = isinstance(lead, ast.Name) and lead.id == v
                direct = direct and not isinstance(st.value, (ast.Yield, ast.YieldFrom, ast.NamedExpr)) and \
                    not any(isinstance(y, (ast.Yield, ast.YieldFrom, ast.NamedExpr)) for y in ast.walk(st.value))
                if (ok_value(st.value) or direct) and not any(isinstance(y, (ast.NamedExpr, ast.Lambda, ast.ListComp, ast.SetComp, ast.DictComp, ast.GeneratorExp))
                                                              for h in headers(nxt) for y in ast.walk(h)):
                    n_reads = sum(1 for h in headers(nxt) for y in ast.walk(h) if isinstance(y, ast.Name) and y.id == v and isinstance(y.ctx, ast.Load))
                    if n_reads == 1:
                        pairs.setdefault(v, []).append((stmts, st, nxt))
            for fld in ('body', 'orelse', 'finalbody'):
                sub = getattr(st, fld, None)
                if isinstance(sub, list) and sub and isinstance(sub[0], ast.stmt) and not isinstance(st, (ast.FunctionDef, ast.AsyncFunctionDef, ast.ClassDef)):
                    block(sub)
            for h in getattr(st, 'handlers', []) or []:
                block(h.body)
    block(fn.body)      # type: ignore[attr-defined]
    n_changed = 0
    for v, ps in pairs.items():
        if not (stores.get(v) == len(ps) == loads.get(v)):
            continue
        # a read directly after its definition in the same block: no other definition can reach it
        for stmts, st, nxt in ps:
            done = False
            for h in headers(nxt):
                if isinstance(h, ast.Name) and h.id == v:
                    for fld, old in ast.iter_fields(nxt):
                        if old is h:
                            setattr(nxt, fld, _loc(copy.deepcopy(st.value), h))
                            done = True
                    continue
                for par in ast.walk(h):
                    for fld, old in ast.iter_fields(par):
                        if isinstance(old, ast.Name) and old.id == v and isinstance(old.ctx, ast.Load):
                            setattr(par, fld, _loc(copy.deepcopy(st.value), old))
                            done = True
                        elif isinstance(old, list):
                            for k, o in enumerate(old):
                                if isinstance(o, ast.Name) and o.id == v and isinstance(o.ctx, ast.Load):
                                    old[k] = _loc(copy.deepcopy(st.value), o)
                                    done = True
            if done:
                stmts.remove(st)
                n_changed += 1
    return n_changed


def _in_nested_scope(n: ast.AST, parents: Dict[int, ast.AST], fn: ast.AST) -> bool:
    cur = parents.get(id(n))
    while cur is not None and cur is not fn:
        if isinstance(cur, (ast.FunctionDef, ast.AsyncFunctionDef, ast.ClassDef, ast.Lambda)):
            return True
        cur = parents.get(id(cur))
    return False


# ------------------------------------------------------------------------------------------------
# driver
# ------------------------------------------------------------------------------------------------

def _triggers(tree: ast.Module) -> bool:
    for x in ast.walk(tree):
        if isinstance(x, ast.Call):
            f = x.func
            if isinstance(f, (ast.Call, ast.IfExp)):
                return True
            if any(isinstance(a, ast.Starred) and isinstance(a.value, (ast.Tuple, ast.List, ast.Call)) for a in x.args):
                return True
            if any(k.arg is None and isinstance(k.value, ast.Dict) for k in x.keywords):
                return True
            if isinstance(f, ast.Attribute) and (f.attr == 'format' and isinstance(f.value, ast.Constant) or f.attr == 'filterfalse' or
                                                 f.attr == 'get' and isinstance(f.value, ast.Dict)):
                return True
            d = dotted(f)
            if d in ('getattr', 'filterfalse', 'functools.reduce', 'ft.reduce', 'reduce') or d == 'map' and len(x.args) >= 2 and (len(x.args) > 2 or isinstance(x.args[0], ast.Call)) or \
                    d in ('isinstance', 'issubclass') and len(x.args) == 2 and isinstance(x.args[1], ast.BinOp) or d == 'dict' and len(x.args) == 1 and isinstance(x.args[0], ast.Call) or d in ('tuple', 'list') and len(x.args) == 1 and isinstance(x.args[0], (ast.Call, ast.GeneratorExp, ast.ListComp, ast.Tuple)) or _opname(f) is not None and _opname(f) not in ('attrgetter', 'itemgetter', 'methodcaller'):
                return True
            if d in ('next', 'any', 'all') and x.args and isinstance(x.args[0], (ast.GeneratorExp, ast.ListComp)) and \
                    isinstance(x.args[0].generators[0].iter, (ast.Tuple, ast.List)):
                return True
        elif isinstance(x, ast.BinOp) and isinstance(x.op, ast.Mod) and isinstance(x.left, ast.Constant) and isinstance(x.left.value, str):
            return True
        elif isinstance(x, ast.BinOp) and isinstance(x.op, ast.Add) and isinstance(x.left, ast.Constant) and isinstance(x.right, ast.Constant):
            return True
        elif isinstance(x, (ast.For, ast.AsyncFor, ast.While)) and x.orelse:
            return True
        elif isinstance(x, ast.Compare) and len(x.ops) == 1 and isinstance(x.ops[0], (ast.Eq, ast.NotEq)) and (
                isinstance(x.left, ast.Tuple) or any(isinstance(c, ast.Constant) and isinstance(c.value, bool) for c in [x.left] + x.comparators)):
            return True
        elif isinstance(x, ast.UnaryOp) and isinstance(x.op, ast.Not) and isinstance(x.operand, (ast.Compare, ast.UnaryOp, ast.BoolOp)):
            return True
        elif isinstance(x, ast.Expr) and isinstance(x.value, ast.IfExp):
            return True
        elif isinstance(x, ast.Assign) and isinstance(x.value, ast.IfExp) and isinstance(x.targets[0], (ast.Tuple, ast.List)):
            return True
        elif isinstance(x, ast.ExceptHandler) and x.body and isinstance(x.body[0], ast.Assign) and isinstance(x.body[0].value, ast.IfExp):
            return True
        elif isinstance(x, ast.FormattedValue) and isinstance(x.value, ast.Constant):
            return True
        elif isinstance(x, ast.ClassDef) and any(dotted(b) in ('NamedTuple', 'typing.NamedTuple') for b in x.bases):
            return True
        elif isinstance(x, (ast.Match, ast.YieldFrom)):
            return True
        elif isinstance(x, ast.Call) and (dotted(x.func) or '').rsplit('.', 1)[-1] == 'MappingProxyType':
            return True
        elif isinstance(x, ast.For) and isinstance(x.iter, (ast.Tuple, ast.List, ast.Name)):
            return True
        elif isinstance(x, ast.Assign) and isinstance(x.targets[0], (ast.Tuple, ast.List)) and isinstance(x.value, (ast.Tuple, ast.List)):
            return True
        elif isinstance(x, ast.Expr) and isinstance(x.value, ast.Call) and dotted(x.value.func) == 'setattr':
            return True
        elif isinstance(x, ast.Return) and isinstance(x.value, (ast.DictComp, ast.ListComp, ast.IfExp)):
            return True
        elif isinstance(x, ast.While) and isinstance(x.test, ast.Compare) and isinstance(x.test.left, ast.NamedExpr):
            return True
        elif isinstance(x, ast.BinOp) and isinstance(x.op, ast.BitOr) and (isinstance(x.left, (ast.Dict, ast.Name)) and isinstance(x.right, (ast.Dict, ast.Name))):
            return True
        elif isinstance(x, ast.AugAssign) and isinstance(x.op, ast.BitOr):
            return True
        elif isinstance(x, ast.Assign) and len(x.targets) == 1 and isinstance(x.targets[0], ast.Name) and \
                (isinstance(x.value, (ast.Attribute, ast.Name)) and _ref(x.value) or isinstance(x.value, (ast.IfExp, ast.Constant, ast.Call))):
            return True
    return False


def _namedtuples(tree: ast.Module) -> Dict[str, List[str]]:
    out: Dict[str, List[str]] = {}
    for st in tree.body:
        if isinstance(st, ast.ClassDef) and any(dotted(b) in ('NamedTuple', 'typing.NamedTuple') for b in st.bases):
            fields = [x.target.id for x in st.body if isinstance(x, ast.AnnAssign) and isinstance(x.target, ast.Name)]
            # only plain field declarations (a default would make arity checks necessary) and no __new__ override
            if fields and not any(isinstance(x, ast.AnnAssign) and x.value is not None for x in st.body) and \
                    not any(isinstance(x, (ast.FunctionDef, ast.AsyncFunctionDef)) and x.name in ('__new__', '__init__') for x in st.body):
                out[st.name] = fields
    return out


def canonical(prog: Program, known_globals: Optional[Set[str]] = None) -> Program:
    cached = prog.__dict__.get('_canonical')
    if cached is not None:
        return cached
    log: List[str] = []
    trees: Dict[str, ast.Module] = {}
    # ---- K: new constants -------------------------------------------------------------------
    consts_by_module: Dict[str, Dict[str, ast.expr]] = {}      # module name -> {local name: value}
    cls_consts_by_module: Dict[str, Dict[Tuple[str, str], ast.expr]] = {}
    if known_globals is not None:
        all_trees = [m.tree for m in prog.modules.values()]
        defs: Dict[Tuple[str, str], ast.expr] = {}
        for m in prog.modules.values():
            binds = _module_level_bindings(m.tree)
            for name, sts in sorted(binds.items(), key=lambda kv: getattr(kv[1][0], 'lineno', 0)):
                if f'{m.name}.{name}' in known_globals or len(sts) != 1:
                    continue
                st = sts[0]
                if not (isinstance(st, ast.Assign) and len(st.targets) == 1 and isinstance(st.targets[0], ast.Name) or
                        isinstance(st, ast.AnnAssign) and st.value is not None):
                    continue
                if st not in m.tree.body:
                    continue
                val = st.value
                assert val is not None
                if any(isinstance(x, ast.Global) and name in x.names for x in ast.walk(m.tree)):
                    continue
                # earlier new constants of the module are expanded inside the value, which is then canonicalised itself
                # (`tuple(chain.from_iterable(f for f, _ in TABLE))` becomes a tuple display)
                earlier = {n2: v2 for (m2, n2), v2 in defs.items() if m2 == m.name}
                if earlier and any(isinstance(x, ast.Name) and x.id in earlier for x in ast.walk(val)):
                    sub0 = _ConstSubst(earlier, {})
                    sub0.in_func = 1
                    sub0.shadow = [set()]
                    val = sub0.visit(copy.deepcopy(val))
                if not isinstance(val, ast.Constant) and not _ref(val):
                    rw0 = _Rewriter()
                    val = rw0.visit(copy.deepcopy(val))
                    ast.fix_missing_locations(val)
                if _immutable(val):
                    defs[(m.name, name)] = val
                elif _immutable(val, allow_display=True) and _readonly_uses(all_trees, name, st):
                    defs[(m.name, name)] = val
            # class-level
            for st in m.tree.body:
                if not isinstance(st, ast.ClassDef):
                    continue
                cname = st.name
                for cs in st.body:
                    tgt = cs.targets[0] if isinstance(cs, ast.Assign) and len(cs.targets) == 1 else cs.target if isinstance(cs, ast.AnnAssign) else None
                    if not isinstance(tgt, ast.Name) or getattr(cs, 'value', None) is None:
                        continue
                    name = tgt.id
                    if f'{m.name}.{cname}.{name}' in known_globals:
                        continue
                    val = cs.value      # type: ignore[union-attr]
                    # assigned once in the class body, never through an instance / class anywhere in the package
                    n_def = sum(1 for o in st.body for x in ast.walk(o) if isinstance(x, ast.Name) and x.id == name and isinstance(x.ctx, ast.Store))
                    if n_def != 1:
                        continue
                    if any(isinstance(x, ast.Attribute) and x.attr == name and isinstance(x.ctx, (ast.Store, ast.Del))
                           for t in all_trees for x in ast.walk(t)):
                        continue
                    # not redefined by another class
                    if sum(1 for t in all_trees for c in ast.walk(t) if isinstance(c, ast.ClassDef)
                           for o in c.body for x in ([o.target] if isinstance(o, ast.AnnAssign) else o.targets if isinstance(o, ast.Assign) else [])
                           if isinstance(x, ast.Name) and x.id == name) != 1:
                        continue
                    # value must not read other class-level names
                    cls_names = {x.id for o in st.body for x in ast.walk(o) if isinstance(x, ast.Name) and isinstance(x.ctx, ast.Store)} | \
                        {o.name for o in st.body if isinstance(o, (ast.FunctionDef, ast.AsyncFunctionDef, ast.ClassDef))}
                    if any(isinstance(x, ast.Name) and x.id in cls_names for x in ast.walk(val)):
                        continue
                    if _immutable(val) or _immutable(val, allow_display=True) and _readonly_uses(all_trees, name, cs):
                        cls_consts_by_module.setdefault(m.name, {})[(cname, name)] = val
        # constants referring to other new constants of the same module: expand (bounded)
        for _ in range(3):
            for (mn, name), val in list(defs.items()):
                sub = _ConstSubst({n: v for (m2, n), v in defs.items() if m2 == mn and n != name}, {})
                sub.in_func = 1
                sub.shadow = [set()]
                new = sub.visit(copy.deepcopy(val))
                if sub.changed:
                    defs[(mn, name)] = new
        for m in prog.modules.values():
            local: Dict[str, ast.expr] = {}
            for name, b in m.ns.items():
                if (m.name, name) in defs:
                    local[name] = defs[(m.name, name)]
                elif b.kind == 'import':
                    tgt = str(b.target)
                    if '.' in tgt:
                        mod, nm = tgt.rsplit('.', 1)
                        if (mod, nm) in defs and _same_names(prog, prog.modules[mod], m, defs[(mod, nm)]):
                            local[name] = defs[(mod, nm)]
            if local:
                consts_by_module[m.name] = local
    # ---- per module ---------------------------------------------------------------------------
    for m in prog.modules.values():
        consts = consts_by_module.get(m.name, {})
        cconsts = cls_consts_by_module.get(m.name, {})
        if not consts and not cconsts and not _triggers(m.tree):
            continue
        tree = copy.deepcopy(m.tree)
        n = 0
        mod_sentinels = {(st.targets[0] if isinstance(st, ast.Assign) else st.target).id for st in tree.body
                         if (isinstance(st, ast.Assign) and len(st.targets) == 1 and isinstance(st.targets[0], ast.Name) or
                             isinstance(st, ast.AnnAssign) and isinstance(st.target, ast.Name))
                         and isinstance(st.value, ast.Call) and dotted(st.value.func) == 'object'
                         and not st.value.args and not st.value.keywords}
        mod_sentinels = {nm for nm in mod_sentinels if len(_module_level_bindings(tree).get(nm, [])) == 1}
        if consts or cconsts:
            cs = _ConstSubst(consts, cconsts)
            cs.visit(tree)
            n += cs.changed
            if cs.changed:
                log.append(f'{m.rel}: {cs.changed} read(s) of new constants {sorted(consts) + sorted(a for _, a in cconsts)} replaced by their value')
        for _ in range(4):
            k = 0
            for fn in [x for x in ast.walk(tree) if isinstance(x, (ast.FunctionDef, ast.AsyncFunctionDef))]:
                k += _propagate_aliases(fn)
                k += _forward_subst(fn)
                k += _sentinel_loops(fn, mod_sentinels)
                k += _static_loops(fn)
                k += _flag_subst(fn)
            rw = _Rewriter(_namedtuples(tree))
            rw.typeddicts = {st.name for st in tree.body if isinstance(st, ast.ClassDef) and
                             any(dotted(b) in ('TypedDict', 'typing.TypedDict') for b in st.bases)}
            rw.visit(tree)
            if rw.changed:
                log.append(f'{m.rel}: ' + ', '.join(rw.log[:12]))
            if k:
                log.append(f'{m.rel}: {k} local alias(es) propagated')
            n += k + rw.changed
            if not (k or rw.changed):
                break
        if n:
            ast.fix_missing_locations(tree)
            trees[m.rel] = tree
    if not trees:
        prog.__dict__['_canonical'] = prog
        return prog
    out = Program(prog.repo, prog.pkg, overrides=prog.overrides, tree_overrides={**prog.tree_overrides, **trees})
    out.__dict__['peval_log'] = log
    out.__dict__['_canonical'] = out
    prog.__dict__['_canonical'] = out
    return out


def _same_names(prog: Program, src: Module, dst: Module, val: ast.expr) -> bool:
    for x in ast.walk(val):
        if isinstance(x, ast.Name):
            a = prog.module_attr(src, x.id) if x.id in src.ns else None
            b = prog.module_attr(dst, x.id) if x.id in dst.ns else None
            if x.id not in src.ns and x.id not in dst.ns:
                continue
            if a is None or b is None or not (a is b or isinstance(a, str) and a == b):
                return False
    return True
