"""Sensitivity battery: single-instance mutants of the *current* tree, analysed in memory.

A mutant is a textual splice anchored on a source fragment (`find` -> `replace`, exactly one
occurrence, optionally the n-th with `nth`).  The mutated program is parsed and analysed by the
same rules; the mutant must be reported by one of the rules named in `expect` (and by a finding the
unmutated tree does not already have).  A mutant whose anchor no longer exists is skipped and
counted; nothing is written to disk.
"""
from __future__ import annotations

import importlib
import os
from typing import Any, Dict, List, Optional

from .model import AnalysisError, Program
from .report import Check


def _splice(src: str, m: Dict[str, Any]) -> Optional[str]:
    cnt = src.count(m['find'])
    nth = m.get('nth')
    if cnt == 0 or (nth is None and cnt != 1 and not m.get('all')):
        return None
    if m.get('all'):
        return src.replace(m['find'], m['replace'])
    if nth is None:
        return src.replace(m['find'], m['replace'], 1)
    idx = -1
    for _ in range(nth + 1):
        idx = src.find(m['find'], idx + 1)
        if idx < 0:
            return None
    return src[:idx] + m['replace'] + src[idx + len(m['find']):]


def apply(prog: Program, m: Dict[str, Any]) -> Optional[Dict[str, str]]:
    out: Dict[str, str] = {}
    for edit in [m] + list(m.get('also', [])):
        rel = edit['file']
        if rel not in out:
            mod = [x for x in prog.modules.values() if x.rel == rel]
            if not mod:
                return None
            out[rel] = mod[0].source
        new = _splice(out[rel], edit)
        if new is None:
            return None
        out[rel] = new
    return out


def run_battery(prop: str, prog: Program, baseline: Optional[Check] = None) -> Dict[str, Any]:
    mod = importlib.import_module(f'pjx.props.{prop.lower()}')
    mutants: List[Dict[str, Any]] = getattr(mod, 'MUTANTS', [])
    if baseline is None:
        baseline = Check(prop, 'quick')
        mod.run(baseline, prog)
    base_keys = {f.key for f in baseline.findings}
    res: Dict[str, Any] = {'mutants': len(mutants), 'detected': [], 'missed': [], 'skipped': [], 'details': {}}
    for m in mutants:
        ov = apply(prog, m)
        if ov is None:
            res['skipped'].append(m['name'])
            continue
        try:
            mp = Program(prog.repo, prog.pkg, overrides=ov)
            ck = Check(prop, 'quick')
            mod.run(ck, mp)
            new = [f for f in ck.findings if f.key not in base_keys]
            expect = m['expect'] if isinstance(m['expect'], (list, tuple)) else [m['expect']]
            hit = [f for f in new if f.rule in expect]
            if m.get('silent'):
                ok = not new
            else:
                ok = bool(hit)
            res['details'][m['name']] = [f'{f.rule}: {f.func}: {f.message[:100]}' for f in new][:4]
        except AnalysisError as e:
            ok = bool(m.get('accept_analysis_error'))
            res['details'][m['name']] = [f'ANALYSIS-ERROR: {e}']
        (res['detected'] if ok else res['missed']).append(m['name'])
    return res
