"""Sensitivity battery: single-instance mutants of the *current* tree, analysed in memory.

A mutant is a textual splice anchored on a source fragment (`find` -> `replace`, exactly one
occurrence, optionally the n-th with `nth`).  The mutated program is parsed and analysed by the
same rules; the mutant must be reported by one of the rules named in `expect` (and by a finding the
unmutated tree does not already have).  A mutant whose anchor no longer exists is skipped and
counted; nothing is written to disk.
"""
from __future__ import annotations

import importlib
import os
from typing import Any, Dict, List, Optional

from .model import AnalysisError, Program
from .report import Check


def _eval_job(job):
    """Worker: run the given properties on the program with `overrides`; returns {prop: [(rule, func, construct, message)] | 'ANALYSIS-ERROR: …'}."""
    repo, pkg, overrides, props = job
    out = {}
    try:
        from .normal import normalised
        mp = normalised(Program(repo, pkg, overrides=overrides))
    except AnalysisError as e:
        return {p: f'ANALYSIS-ERROR: {e}' for p in props}
    for p in props:
        mod = importlib.import_module(f'pjx.props.{p.lower()}')
        try:
            ck = Check(p, 'quick')
            from .props import run_check
            run_check(mod, ck, mp)
            out[p] = [(f.rule, f.func, f.construct, f.message) for f in ck.findings]
        except AnalysisError as e:
            out[p] = f'ANALYSIS-ERROR: {e}'
        except Exception as e:      # a crash of the checker on a variant is a checker failure, reported as such
            out[p] = f'ANALYSIS-ERROR: internal error {type(e).__name__}: {e}'
    return out


def eval_variants(prog: Program, jobs: List[Dict[str, str]], props: List[str]) -> List[Dict[str, Any]]:
    """Analyse every override set (in memory) with the given properties, in parallel worker processes."""
    import multiprocessing as mp
    n = int(os.environ.get('PJX_JOBS', '0') or 0) or min(14, max(1, (os.cpu_count() or 2) - 2))
    payload = [(prog.repo, prog.pkg, ov, props) for ov in jobs]
    if n <= 1 or len(payload) <= 2:
        return [_eval_job(j) for j in payload]
    ctx = mp.get_context('fork')
    with ctx.Pool(min(n, len(payload))) as pool:
        return pool.map(_eval_job, payload, chunksize=1)


def _splice(src: str, m: Dict[str, Any]) -> Optional[str]:
    cnt = src.count(m['find'])
    nth = m.get('nth')
    if cnt == 0 or (nth is None and cnt != 1 and not m.get('all')):
        return None
    if m.get('all'):
        return src.replace(m['find'], m['replace'])
    if nth is None:
        return src.replace(m['find'], m['replace'], 1)
    idx = -1
    for _ in range(nth + 1):
        idx = src.find(m['find'], idx + 1)
        if idx < 0:
            return None
    return src[:idx] + m['replace'] + src[idx + len(m['find']):]


def apply(prog: Program, m: Dict[str, Any]) -> Optional[Dict[str, str]]:
    out: Dict[str, str] = {}
    for edit in [m] + list(m.get('also', [])):
        rel = edit['file']
        if rel not in out:
            mod = [x for x in prog.modules.values() if x.rel == rel]
            if not mod:
                return None
            out[rel] = mod[0].source
        new = _splice(out[rel], edit)
        if new is None:
            return None
        out[rel] = new
    return out


def apply_unified(prog: Program, patch_text: str) -> Optional[Dict[str, str]]:
    """Apply a unified diff (as written by `git diff`) to the sources of `prog`, in memory. Hunks are located by their
    context lines (searched near the stated line number), so the patch keeps applying when unrelated lines move.
    Returns rel-path -> new source, or None if a hunk cannot be placed."""
    import re
    files: Dict[str, List[List[str]]] = {}
    cur = None
    hunk: Optional[List[str]] = None
    for line in patch_text.splitlines():
        if line.startswith('+++ '):
            path = line[4:].strip()
            cur = path[2:] if path.startswith('b/') else path
            files[cur] = []
            hunk = None
        elif line.startswith('--- ') or line.startswith('diff ') or line.startswith('index '):
            continue
        elif line.startswith('@@') and cur is not None:
            m = re.match(r'@@ -(\d+)', line)
            hunk = [m.group(1) if m else '1']
            files[cur].append(hunk)
        elif hunk is not None and (line[:1] in (' ', '+', '-') or line == ''):
            hunk.append(line if line else ' ')
    out: Dict[str, str] = {}
    for rel, hunks in files.items():
        mod = [x for x in prog.modules.values() if x.rel == rel]
        if not mod:
            # a new file: every hunk line is an addition
            if all(l[:1] == '+' for h in hunks for l in h[1:]):
                out[rel] = '\n'.join(l[1:] for h in hunks for l in h[1:]) + '\n'
                continue
            return None
        lines = mod[0].source.split('\n')
        offset = 0
        for h in hunks:
            start = int(h[0]) - 1 + offset
            old = [l[1:] for l in h[1:] if l[:1] in (' ', '-')]
            new = [l[1:] for l in h[1:] if l[:1] in (' ', '+')]
            pos = None
            for d in sorted(range(-80, 81), key=abs):
                i = start + d
                if 0 <= i and lines[i:i + len(old)] == old:
                    pos = i
                    break
            if pos is None:
                return None
            lines[pos:pos + len(old)] = new
            offset += len(new) - len(old)
        out[rel] = '\n'.join(lines)
    return out


def run_seeded(prop: str, prog: Program, baseline: Optional[Check] = None) -> Dict[str, Any]:
    """The independently written changes kept under /verif/seeded that target `prop`, analysed in memory."""
    import json as _json
    base_dir = os.path.join(os.path.dirname(os.path.dirname(os.path.abspath(__file__))), 'seeded')
    mod = importlib.import_module(f'pjx.props.{prop.lower()}')
    if baseline is None:
        baseline = Check(prop, 'quick')
        from .props import run_check
        run_check(mod, baseline, prog)
    base_keys = {f.key for f in baseline.findings}
    res: Dict[str, Any] = {'seeded': 0, 'reported': {}, 'not_reported': [], 'not_applicable': []}
    if not os.path.isdir(base_dir):
        return res
    names, jobs = [], []
    for name in sorted(os.listdir(base_dir)):
        d = os.path.join(base_dir, name)
        if not os.path.isdir(d) or not name.startswith(prop + '-'):
            continue
        res['seeded'] += 1
        ov = apply_unified(prog, open(os.path.join(d, 'patch.diff')).read())
        if ov is None:
            res['not_applicable'].append(name)
            continue
        names.append(name)
        jobs.append(ov)
    for name, r in zip(names, eval_variants(prog, jobs, [prop])):
        got = r[prop]
        if isinstance(got, str):
            res.setdefault('analysis_error', {})[name] = got[:140]
            new = []
        else:
            new = sorted({rule for rule, func, construct, _ in got if (rule, func, construct) not in base_keys})
        if new:
            res['reported'][name] = new
        else:
            res['not_reported'].append(name)
    return res


def run_battery(prop: str, prog: Program, baseline: Optional[Check] = None) -> Dict[str, Any]:
    mod = importlib.import_module(f'pjx.props.{prop.lower()}')
    mutants: List[Dict[str, Any]] = getattr(mod, 'MUTANTS', [])
    if baseline is None:
        baseline = Check(prop, 'quick')
        from .props import run_check
        run_check(mod, baseline, prog)
    base_keys = {f.key for f in baseline.findings}
    res: Dict[str, Any] = {'mutants': len(mutants), 'detected': [], 'missed': [], 'skipped': [], 'details': {}}
    todo, jobs = [], []
    for m in mutants:
        ov = apply(prog, m)
        if ov is None:
            res['skipped'].append(m['name'])
            continue
        todo.append(m)
        jobs.append(ov)
    for m, r in zip(todo, eval_variants(prog, jobs, [prop])):
        got = r[prop]
        if isinstance(got, str):
            ok = bool(m.get('accept_analysis_error'))
            res['details'][m['name']] = [got]
        else:
            new = [(rule, func, construct, msg) for rule, func, construct, msg in got if (rule, func, construct) not in base_keys]
            expect = m['expect'] if isinstance(m['expect'], (list, tuple)) else [m['expect']]
            hit = [x for x in new if x[0] in expect]
            ok = (not new) if m.get('silent') else bool(hit)
            res['details'][m['name']] = [f'{rule}: {func}: {msg[:100]}' for rule, func, construct, msg in new][:4]
        (res['detected'] if ok else res['missed']).append(m['name'])
    return res
