"""Program normalisation applied before every check: functions that did not exist when the rules were written are treated as
part of their callers.

The rules anchor on functions by role or name (dispatch, _handle_request, from_json, _match_request, ...).  A maintenance edit
that extracts part of such a function into a NEW helper must not change any verdict, so every function whose qualified name is
not in the recorded anchor table (`anchors.json`: the functions of the tree the rules were written against) is inlined into its
callers wherever that can be done exactly (see inline.py); the helper itself stays in the program.  On a tree without new
functions this is the identity and costs nothing.  The table is names only — no source text — and a function that disappears
from the tree still makes the rule that needs it fail with ANALYSIS-ERROR.
"""
from __future__ import annotations

import ast
import json
import os
from typing import Dict, List, Set

from .inline import inlined_program
from .model import FuncInfo, Program

_ANCHORS_FILE = os.path.join(os.path.dirname(os.path.abspath(__file__)), 'anchors.json')
_ANCHORS: Set[str] = set()


def anchors() -> Set[str]:
    global _ANCHORS
    if not _ANCHORS:
        with open(_ANCHORS_FILE) as fh:
            _ANCHORS = set(json.load(fh)['functions'])
    return _ANCHORS


def new_functions(prog: Program) -> List[FuncInfo]:
    known = anchors()
    return [f for q, f in prog.funcs.items() if q not in known and f.parent is None and not isinstance(f.node, ast.Lambda)]


def normalised(prog: Program) -> Program:
    cached = prog.__dict__.get('_normalised')
    if cached is not None:
        return cached
    new = new_functions(prog)
    out = prog
    if new:
        names = {f.name for f in new}
        callers: List[str] = []
        for q, f in prog.funcs.items():
            if f.parent is not None:
                continue
            hit = False
            for x in ast.walk(f.node):
                if isinstance(x, ast.Call):
                    fn = x.func
                    nm = fn.attr if isinstance(fn, ast.Attribute) else fn.id if isinstance(fn, ast.Name) else None
                    if nm in names:
                        hit = True
                        break
                elif isinstance(x, ast.Name) and x.id in names and isinstance(x.ctx, ast.Load):
                    hit = True        # passed as a value (map(helper, xs)): flow.py resolves it; the caller is still of interest
                    break
            if hit:
                callers.append(q)
        keep = [q for q in prog.funcs if q in anchors()]
        out = inlined_program(prog, callers, keep=keep, keep_callers=False, any_name=True)
        # new helpers that are no longer called from anywhere (every call site was inlined) are not analysis roots of their own:
        # their parameters have no origin any more
        dead: Set[str] = set()
        for f in new_functions(out):
            used = False
            for q, g in out.funcs.items():
                if g is f or g.parent is not None:
                    continue
                for x in ast.walk(g.node):
                    if isinstance(x, ast.Attribute) and x.attr == f.name or isinstance(x, ast.Name) and x.id == f.name:
                        used = True
                        break
                if used:
                    break
            if not used:
                dead.add(f.qualname)
        out.__dict__['dead_helpers'] = dead
    out.__dict__['_normalised'] = out
    prog.__dict__['_normalised'] = out
    return out


def write_anchor_table(prog: Program) -> int:
    funcs = sorted(q for q, f in prog.funcs.items() if not isinstance(f.node, ast.Lambda))
    with open(_ANCHORS_FILE, 'w') as fh:
        json.dump({'_comment': 'qualified names of the functions of the tree the rules were written against (names only); '
                               'functions not listed here are inlined into their callers before analysis (pjx/normal.py)',
                   'functions': funcs}, fh, indent=0)
    return len(funcs)
