"""Program normalisation applied before every check: functions that did not exist when the rules were written are treated as
part of their callers.

The rules anchor on functions by role or name (dispatch, _handle_request, from_json, _match_request, ...).  A maintenance edit
that extracts part of such a function into a NEW helper must not change any verdict, so every function whose qualified name is
not in the recorded anchor table (`anchors.json`: the functions of the tree the rules were written against) is inlined into its
callers wherever that can be done exactly (see inline.py); the helper itself stays in the program.  On a tree without new
functions this is the identity and costs nothing.  The table is names only — no source text — and a function that disappears
from the tree still makes the rule that needs it fail with ANALYSIS-ERROR.
"""
from __future__ import annotations

import ast
import json
import os
from typing import Dict, List, Set

from .inline import inline_log, inlined_program
from .model import FuncInfo, Program

_ANCHORS_FILE = os.path.join(os.path.dirname(os.path.abspath(__file__)), 'anchors.json')
_ANCHORS: Set[str] = set()
_GLOBALS: Set[str] = set()


def anchors() -> Set[str]:
    global _ANCHORS
    if not _ANCHORS:
        with open(_ANCHORS_FILE) as fh:
            _ANCHORS = set(json.load(fh)['functions'])
    return _ANCHORS


def known_globals() -> Set[str]:
    global _GLOBALS
    if not _GLOBALS:
        with open(_ANCHORS_FILE) as fh:
            _GLOBALS = set(json.load(fh)['globals'])
    return _GLOBALS


def new_functions(prog: Program) -> List[FuncInfo]:
    known = anchors()
    return [f for q, f in prog.funcs.items() if q not in known and f.parent is None and not isinstance(f.node, ast.Lambda)]


def normalised(prog: Program) -> Program:
    cached = prog.__dict__.get('_normalised')
    if cached is not None:
        return cached
    orig = prog
    from .peval import canonical
    prog = canonical(prog, known_globals())
    prog = _flatten_mixins(prog)
    new = new_functions(prog)
    out = prog
    if new:
        names = {f.name for f in new}
        callers: List[str] = []
        for q, f in prog.funcs.items():
            if f.parent is not None:
                continue
            hit = False
            for x in ast.walk(f.node):
                if isinstance(x, ast.Call):
                    fn = x.func
                    nm = fn.attr if isinstance(fn, ast.Attribute) else fn.id if isinstance(fn, ast.Name) else None
                    if nm in names:
                        hit = True
                        break
                elif isinstance(x, ast.Name) and x.id in names and isinstance(x.ctx, ast.Load):
                    hit = True        # passed as a value (map(helper, xs)): flow.py resolves it; the caller is still of interest
                    break
            if hit:
                callers.append(q)
        keep = [q for q in prog.funcs if q in anchors()]
        out = inlined_program(prog, callers, keep=keep, keep_callers=False, any_name=True)
        # new helpers that are no longer called from anywhere (every call site was inlined) are not analysis roots of their own:
        # their parameters have no origin any more
        dead: Set[str] = set()
        for f in new_functions(out):
            used = False
            for q, g in out.funcs.items():
                if g is f or g.parent is not None:
                    continue
                for x in ast.walk(g.node):
                    if isinstance(x, ast.Attribute) and x.attr == f.name or isinstance(x, ast.Name) and x.id == f.name:
                        used = True
                        break
                if used:
                    break
            if not used:
                dead.add(f.qualname)
        out = _without(prog, out, {q for q in dead if out.funcs[q].name.startswith('_') and not out.funcs[q].name.endswith('__')
                                   and any(f'`{out.funcs[q].name}`' in line for line in inline_log(out))})
        out.__dict__['dead_helpers'] = dead
    # inlining can expose further idioms (a predicate helper substituted into `filter(lambda ..)`): canonicalise once more
    dead_h = out.__dict__.get('dead_helpers')
    out2 = canonical(out, known_globals())
    if out2 is not out:
        out2.__dict__['dead_helpers'] = dead_h or set()
        out2.__dict__['inline_log'] = inline_log(out)
        out = out2
    out.__dict__['_normalised'] = out
    prog.__dict__['_normalised'] = out
    orig.__dict__['_normalised'] = out
    return out


def _flatten_mixins(prog: Program) -> Program:
    """Methods of a NEW class (none of its methods is in the anchor table) that a KNOWN class inherits directly are cloned
    into that class, exactly where the method resolution order would find them: `class Request(_IdMixin, AbstractRequest)`
    then looks to the rules like the class that defines the methods itself.  A pure mixin (its name occurs only in base
    lists) loses the cloned methods, which nothing can reach through it."""
    import copy
    known_funcs = anchors()
    known_classes = {q.rsplit('.', 1)[0] for q in known_funcs}

    def is_new(ci) -> bool:
        return bool(ci.methods) and ci.qualname not in known_classes and not any(m.qualname in known_funcs for m in ci.methods.values())
    fresh = [ci for ci in prog.classes.values() if is_new(ci)]
    if not fresh:
        return prog
    plan: Dict[str, List[tuple]] = {}      # module rel -> [(target class, mixin, method names)]
    for ci in prog.classes.values():
        if is_new(ci):
            continue
        for b in ci.bases:
            if not (hasattr(b, 'methods') and b in fresh and b.module is ci.module):
                continue
            if any(isinstance(x, ast.Name) and x.id in ('super', '__class__') for m in b.methods.values() for x in ast.walk(m.node)):
                continue
            names = [n for n, m in b.methods.items() if prog.find_method(ci, n) is m]
            if names:
                plan.setdefault(ci.module.rel, []).append((ci, b, names))
    if not plan:
        return prog
    trees = dict(prog.tree_overrides)
    by_rel = {m.rel: m for m in prog.modules.values()}
    log: List[str] = []
    for rel, items in plan.items():
        src = by_rel[rel].tree
        tree = copy.deepcopy(src)
        cdefs = {(x.name, x.lineno): x for x in ast.walk(tree) if isinstance(x, ast.ClassDef)}
        # is the mixin referenced anywhere but in base lists?
        base_ids = {id(y) for m in prog.modules.values() for x in ast.walk(m.tree) if isinstance(x, ast.ClassDef)
                    for b in x.bases for y in ast.walk(b)}
        cloned: Dict[tuple, Set[str]] = {}
        users: Dict[tuple, int] = {}
        for ci, mix, names in items:
            tgt = cdefs[(ci.name, ci.node.lineno)]
            mdef = cdefs[(mix.name, mix.node.lineno)]
            for st in mdef.body:
                if isinstance(st, (ast.FunctionDef, ast.AsyncFunctionDef)) and st.name in names:
                    tgt.body.append(copy.deepcopy(st))
            cloned.setdefault((mix.name, mix.node.lineno), set()).update(names)
            log.append(f'{ci.qualname}: methods {sorted(names)} of new base class {mix.name} cloned into the class')
        for (mname, mline), names in cloned.items():
            pure = not any(isinstance(x, (ast.Name, ast.Attribute)) and (x.id if isinstance(x, ast.Name) else x.attr) == mname
                           and id(x) not in base_ids for m in prog.modules.values() for x in ast.walk(m.tree))
            heirs = [c for c in prog.classes.values() if any(getattr(b, 'name', None) == mname and getattr(b, 'module', None) is by_rel[rel]
                                                             for b in c.bases)]
            done = {ci.qualname for ci, mix, ns in items if mix.name == mname}
            if pure and all(c.qualname in done for c in heirs):
                mdef = cdefs[(mname, mline)]
                # only methods every heir took over
                every = set.intersection(*[set(ns) for ci, mix, ns in items if mix.name == mname])
                mdef.body = [st for st in mdef.body if not (isinstance(st, (ast.FunctionDef, ast.AsyncFunctionDef)) and st.name in every)] \
                    or [ast.copy_location(ast.Pass(), mdef.body[0])]
        trees[rel] = tree
    out = Program(prog.repo, prog.pkg, overrides=prog.overrides, tree_overrides=trees)
    out.__dict__['flatten_log'] = log
    return out


def _without(prog: Program, out: Program, gone: Set[str]) -> Program:
    """Private new helpers that were inlined into every caller and are referenced nowhere else (no call, no value use, no
    string naming them anywhere in the package) are removed from the analysed program: they are not reachable code any more,
    and as stand-alone functions their `self` would be the (possibly abstract) class they were moved to."""
    if not gone:
        return out
    names = {out.funcs[q].name for q in gone}
    # references are counted per helper, ignoring the bodies of the helpers to be removed
    inside: Set[int] = set()
    for q in gone:
        inside |= {id(y) for y in ast.walk(out.funcs[q].node)}
    still = set()
    for m in out.modules.values():
        for x in ast.walk(m.tree):
            if id(x) in inside:
                continue
            nm = x.attr if isinstance(x, ast.Attribute) else x.id if isinstance(x, ast.Name) else \
                x.value if isinstance(x, ast.Constant) and isinstance(x.value, str) else None
            if nm in names:
                still.add(nm)
    gone = {q for q in gone if out.funcs[q].name not in still}
    if not gone:
        return out
    import copy
    trees = dict(out.tree_overrides)
    by_rel = {m.rel: m for m in out.modules.values()}
    todo: Dict[str, Set[tuple]] = {}
    for q in gone:
        f = out.funcs[q]
        todo.setdefault(f.module.rel, set()).add((f.cls.name if f.cls is not None else None, f.name, f.node.lineno))
    for rel, items in todo.items():
        tree = copy.deepcopy(by_rel[rel].tree)
        for x in ast.walk(tree):
            body = getattr(x, 'body', None)
            if not isinstance(body, list) or not isinstance(x, (ast.Module, ast.ClassDef)):
                continue
            cn = x.name if isinstance(x, ast.ClassDef) else None
            keep = [st for st in body if not (isinstance(st, (ast.FunctionDef, ast.AsyncFunctionDef)) and (cn, st.name, st.lineno) in items)]
            if len(keep) != len(body):
                x.body = keep or [ast.copy_location(ast.Pass(), body[0])]
        trees[rel] = tree
    new = Program(out.repo, out.pkg, overrides=out.overrides, tree_overrides=trees)
    new.__dict__['inline_log'] = inline_log(out) + [f'{q}: removed (inlined everywhere, unreferenced)' for q in sorted(gone)]
    return new


def write_anchor_table(prog: Program) -> int:
    funcs = sorted(q for q, f in prog.funcs.items() if not isinstance(f.node, ast.Lambda))
    from .peval import _module_level_bindings
    globs: Set[str] = set()
    for m in prog.modules.values():
        for name in _module_level_bindings(m.tree):
            globs.add(f'{m.name}.{name}')
        for st in ast.walk(m.tree):
            if isinstance(st, ast.ClassDef):
                for cs in st.body:
                    for x in ast.walk(cs) if isinstance(cs, (ast.Assign, ast.AnnAssign, ast.AugAssign)) else []:
                        if isinstance(x, ast.Name) and isinstance(x.ctx, ast.Store):
                            globs.add(f'{m.name}.{st.name}.{x.id}')
    with open(_ANCHORS_FILE, 'w') as fh:
        json.dump({'_comment': 'qualified names of the functions of the tree the rules were written against (names only); '
                               'functions not listed here are inlined into their callers before analysis (pjx/normal.py)',
                   'functions': funcs,
                   'globals_comment': 'module-level and class-level names of the same tree (names only); a NEW name bound once to an '
                                      'immutable expression is a constant that pjx/peval.py replaces by its value',
                   'globals': sorted(globs)}, fh, indent=0)
    return len(funcs)
