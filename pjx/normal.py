"""Program normalisation applied before every check: functions that did not exist when the rules were written are treated as
part of their callers.

The rules anchor on functions by role or name (dispatch, _handle_request, from_json, _match_request, ...).  A maintenance edit
that extracts part of such a function into a NEW helper must not change any verdict, so every function whose qualified name is
not in the recorded anchor table (`anchors.json`: the functions of the tree the rules were written against) is inlined into its
callers wherever that can be done exactly (see inline.py); the helper itself stays in the program.  On a tree without new
functions this is the identity and costs nothing.  The table is names only — no source text — and a function that disappears
from the tree still makes the rule that needs it fail with ANALYSIS-ERROR.
"""
from __future__ import annotations

import ast
import json
import os
from typing import Dict, List, Set

from .inline import inline_log, inlined_program
from .model import FuncInfo, Program, dotted

_ANCHORS_FILE = os.path.join(os.path.dirname(os.path.abspath(__file__)), 'anchors.json')
_ANCHORS: Set[str] = set()
_GLOBALS: Set[str] = set()


def anchors() -> Set[str]:
    global _ANCHORS
    if not _ANCHORS:
        with open(_ANCHORS_FILE) as fh:
            _ANCHORS = set(json.load(fh)['functions'])
    return _ANCHORS


def known_globals() -> Set[str]:
    global _GLOBALS
    if not _GLOBALS:
        with open(_ANCHORS_FILE) as fh:
            _GLOBALS = set(json.load(fh)['globals'])
    return _GLOBALS


def new_functions(prog: Program) -> List[FuncInfo]:
    known = anchors()
    return [f for q, f in prog.funcs.items() if q not in known and f.parent is None and not isinstance(f.node, ast.Lambda)]


def normalised(prog: Program) -> Program:
    cached = prog.__dict__.get('_normalised')
    if cached is not None:
        return cached
    orig = prog
    from .peval import canonical
    prog = _merge_new_modules(prog)
    prog = _closures_for_callable_classes(prog)
    prog = _closures_for_partials(prog)
    prog = _inline_new_properties(prog)
    prog = _desugar_singledispatch(prog)
    prog = canonical(prog, known_globals())
    prog = _flatten_mixins(prog)
    new = new_functions(prog)
    out = prog
    if new:
        names = {f.name for f in new}
        callers: List[str] = []
        for q, f in prog.funcs.items():
            if f.parent is not None:
                continue
            hit = False
            for x in ast.walk(f.node):
                if isinstance(x, ast.Call):
                    fn = x.func
                    nm = fn.attr if isinstance(fn, ast.Attribute) else fn.id if isinstance(fn, ast.Name) else None
                    if nm in names:
                        hit = True
                        break
                elif isinstance(x, ast.Name) and x.id in names and isinstance(x.ctx, ast.Load):
                    hit = True        # passed as a value (map(helper, xs)): flow.py resolves it; the caller is still of interest
                    break
            if hit:
                callers.append(q)
        keep = [q for q in prog.funcs if q in anchors()]
        out = inlined_program(prog, callers, keep=keep, keep_callers=False, any_name=True)
        # new helpers that are no longer called from anywhere (every call site was inlined) are not analysis roots of their own:
        # their parameters have no origin any more
        dead: Set[str] = set()
        for f in new_functions(out):
            used = False
            for q, g in out.funcs.items():
                if g is f or g.parent is not None:
                    continue
                for x in ast.walk(g.node):
                    if isinstance(x, ast.Attribute) and x.attr == f.name or isinstance(x, ast.Name) and x.id == f.name:
                        used = True
                        break
                if used:
                    break
            if not used:
                dead.add(f.qualname)
        out = _without(prog, out, {q for q in dead if out.funcs[q].name.startswith('_') and not out.funcs[q].name.endswith('__')
                                   and any(f'`{out.funcs[q].name}`' in line for line in inline_log(out))})
        out.__dict__['dead_helpers'] = dead
    # inlining can expose further idioms (a predicate helper substituted into `filter(lambda ..)`): canonicalise once more
    dead_h = out.__dict__.get('dead_helpers')
    out2 = canonical(out, known_globals())
    if out2 is not out:
        out2.__dict__['dead_helpers'] = dead_h or set()
        out2.__dict__['inline_log'] = inline_log(out)
        out = out2
    out.__dict__['_normalised'] = out
    prog.__dict__['_normalised'] = out
    orig.__dict__['_normalised'] = out
    return out


def _closures_for_callable_classes(prog: Program) -> Program:
    """A NEW class whose only methods are an `__init__` that stores its parameters in attributes and a `__call__` is a closure
    written as a class ("callable object instead of a nested function").  Where such a class is instantiated from atomic arguments
    that are parameters / assigned-once locals of the instantiating function, the instantiation is replaced by a nested function
    with the body of `__call__` in which `self.<attr>` reads are the captured arguments.  Only the call behaviour of the object is
    represented — which is all the rules look at for the callables the library hands out."""
    import copy
    known_funcs = anchors()
    known_classes = {q.rsplit('.', 1)[0] for q in known_funcs}
    cands = {}
    for ci in prog.classes.values():
        if ci.qualname in known_classes or ci.outer is not None:
            continue
        names = set(ci.methods)
        if ci.bases and any(getattr(b, 'qualname', b) not in ('object',) for b in ci.bases):
            continue
        if names == {'__call__'} and ci.node.decorator_list and \
                all((dotted(d.func if isinstance(d, ast.Call) else d) or '').rsplit('.', 1)[-1] == 'dataclass' for d in ci.node.decorator_list):
            # the same thing written as a dataclass: the generated __init__ stores each field under its own name
            call = ci.methods['__call__']
            fields = [st.target.id for st in ci.node.body if isinstance(st, ast.AnnAssign) and isinstance(st.target, ast.Name) and st.value is None]
            other = [st for st in ci.node.body if not (isinstance(st, ast.AnnAssign) and st.value is None) and st is not call.node and
                     not (isinstance(st, ast.Expr) and isinstance(st.value, ast.Constant)) and not isinstance(st, ast.Pass)]
            selfn = call.node.args.args[0].arg if call.node.args.args else None
            if other or call.decorators or not fields or selfn is None:
                continue
            uses = [x for x in ast.walk(call.node) if isinstance(x, ast.Attribute) and isinstance(x.value, ast.Name) and x.value.id == selfn]
            n_self = sum(1 for x in ast.walk(call.node) if isinstance(x, ast.Name) and x.id == selfn)
            if n_self != len(uses) or any(u.attr not in fields or not isinstance(u.ctx, ast.Load) for u in uses):
                continue
            cands[ci.name] = (ci, fields, {f_: f_ for f_ in fields}, call, selfn)
            continue
        if names != {'__init__', '__call__'}:
            continue
        init, call = ci.methods['__init__'], ci.methods['__call__']
        if call.decorators or init.decorators:
            continue
        ia = init.node.args
        if ia.vararg or ia.kwarg or ia.kwonlyargs or ia.posonlyargs:
            continue
        params = [p.arg for p in ia.args[1:]]
        stores = {}
        ok = True
        for st in init.node.body:
            if isinstance(st, ast.Expr) and isinstance(st.value, ast.Constant):
                continue
            if isinstance(st, (ast.Assign, ast.AnnAssign)):
                tg = st.targets[0] if isinstance(st, ast.Assign) and len(st.targets) == 1 else getattr(st, 'target', None)
                if isinstance(tg, ast.Attribute) and isinstance(tg.value, ast.Name) and tg.value.id == ia.args[0].arg and \
                        isinstance(st.value, ast.Name) and st.value.id in params and tg.attr not in stores:
                    stores[tg.attr] = st.value.id
                    continue
            ok = False
        if not ok or set(stores.values()) != set(params):
            continue
        selfn = call.node.args.posonlyargs[0].arg if call.node.args.posonlyargs else call.node.args.args[0].arg if call.node.args.args else None
        if selfn is None:
            continue
        # __call__ uses self only to read the stored attributes
        bad = False
        for x in ast.walk(call.node):
            if isinstance(x, ast.Name) and x.id == selfn:
                bad = bad or True
        uses = [x for x in ast.walk(call.node) if isinstance(x, ast.Attribute) and isinstance(x.value, ast.Name) and x.value.id == selfn]
        n_self = sum(1 for x in ast.walk(call.node) if isinstance(x, ast.Name) and x.id == selfn)
        if n_self != len(uses) or any(u.attr not in stores or not isinstance(u.ctx, ast.Load) for u in uses):
            continue
        # the attributes are written nowhere else
        if any(isinstance(x, ast.Attribute) and x.attr in stores and isinstance(x.ctx, (ast.Store, ast.Del)) and
               not any(x is y for y in ast.walk(init.node))
               for m in prog.modules.values() for x in ast.walk(m.tree)):
            continue
        cands[ci.name] = (ci, params, stores, call, selfn)
    if not cands:
        return prog
    trees = dict(prog.tree_overrides)
    by_rel = {m.rel: m for m in prog.modules.values()}
    changed = False
    for rel, m in by_rel.items():
        if not any(isinstance(x, ast.Call) and isinstance(x.func, ast.Name) and x.func.id in cands for x in ast.walk(m.tree)):
            continue
        tree = copy.deepcopy(trees.get(rel, m.tree))
        for fn in [x for x in ast.walk(tree) if isinstance(x, (ast.FunctionDef, ast.AsyncFunctionDef))]:
            fparams = {p.arg for p in list(fn.args.posonlyargs) + list(fn.args.args) + list(fn.args.kwonlyargs)} | \
                ({fn.args.vararg.arg} if fn.args.vararg else set()) | ({fn.args.kwarg.arg} if fn.args.kwarg else set())
            nstores = {}
            for x in ast.walk(fn):
                if isinstance(x, ast.Name) and isinstance(x.ctx, (ast.Store, ast.Del)):
                    nstores[x.id] = nstores.get(x.id, 0) + 1

            def block(stmts):
                nonlocal changed
                i = 0
                while i < len(stmts):
                    st = stmts[i]
                    v = getattr(st, 'value', None) if isinstance(st, (ast.Return, ast.Assign)) else None
                    if isinstance(v, ast.Call) and isinstance(v.func, ast.Name) and v.func.id in cands and \
                            not any(isinstance(a, ast.Starred) for a in v.args) and all(k.arg is not None for k in v.keywords):
                        ci, params, stores_, call, selfn = cands[v.func.id]
                        bind = dict(zip(params, v.args))
                        for k in v.keywords:
                            if k.arg in params and k.arg not in bind:
                                bind[k.arg] = k.value
                            else:
                                bind['?'] = k.value
                        given_ = list(bind.values())
                        if set(bind) == set(params) and all(isinstance(a, ast.Name) and (a.id in fparams and not nstores.get(a.id) or
                                                                                         nstores.get(a.id) == 1 and a.id not in fparams)
                                                            for a in given_):
                            nd = copy.deepcopy(call.node)
                            if nd.args.posonlyargs:
                                nd.args.posonlyargs = nd.args.posonlyargs[1:]
                            else:
                                nd.args.args = nd.args.args[1:]
                            nd.name = '_' + ci.name.strip('_') + '_call'
                            nd.decorator_list = []

                            class _S(ast.NodeTransformer):
                                def visit_Attribute(self_, x):     # noqa: N805
                                    self_.generic_visit(x)
                                    if isinstance(x.value, ast.Name) and x.value.id == selfn and x.attr in stores_:
                                        return ast.copy_location(ast.Name(id=bind[stores_[x.attr]].id, ctx=ast.Load()), x)
                                    return x
                            nd = _S().visit(nd)
                            # a local of __call__ that shadows a captured name would change its meaning
                            local_st = {y.id for y in ast.walk(nd) if isinstance(y, ast.Name) and isinstance(y.ctx, ast.Store)} | \
                                {p.arg for p in list(nd.args.args) + list(nd.args.kwonlyargs) + list(nd.args.posonlyargs)}
                            if local_st & {a.id for a in given_}:
                                i += 1
                                continue
                            ast.copy_location(nd, st)
                            ast.fix_missing_locations(nd)
                            st.value = ast.copy_location(ast.Name(id=nd.name, ctx=ast.Load()), v)
                            stmts.insert(i, nd)
                            changed = True
                            i += 2
                            continue
                    for fld in ('body', 'orelse', 'finalbody'):
                        sub = getattr(st, fld, None)
                        if isinstance(sub, list) and sub and isinstance(sub[0], ast.stmt) and not isinstance(st, (ast.FunctionDef, ast.AsyncFunctionDef, ast.ClassDef)):
                            block(sub)
                    for h in getattr(st, 'handlers', []) or []:
                        block(h.body)
                    i += 1
            block(fn.body)
        trees[rel] = tree
    if not changed:
        return prog
    return Program(prog.repo, prog.pkg, overrides=prog.overrides, tree_overrides=trees)



def _inline_new_properties(prog: Program) -> Program:
    """A NEW private read-only property whose body is `return E` (E an expression over `self` without calls of its own methods that
    could re-enter) is an abbreviation: `self._p` inside the methods of the same class is E.  The reads are replaced by E (evaluated
    where the property was read, as the property did); the property definition stays."""
    import copy
    known = anchors()
    trees = dict(prog.tree_overrides)
    changed = False
    for m in prog.modules.values():
        tree = None
        for ci in [c for c in prog.classes.values() if c.module is m and c.outer is None]:
            props = {}
            for name, f in ci.methods.items():
                if f.qualname in known or f.kind != 'property' or not name.startswith('_') or name.startswith('__'):
                    continue
                if any(g.name == name and g.kind == 'setter' for g in ci.methods.values()):
                    continue
                body = [st for st in f.node.body if not (isinstance(st, ast.Expr) and isinstance(st.value, ast.Constant))]
                if len(body) != 1 or not isinstance(body[0], ast.Return) or body[0].value is None or not f.node.args.args:
                    continue
                me = f.node.args.args[0].arg
                e = body[0].value
                if any(isinstance(y, (ast.Yield, ast.YieldFrom, ast.Await, ast.NamedExpr, ast.Lambda)) for y in ast.walk(e)):
                    continue
                if any(isinstance(y, ast.Attribute) and y.attr == name for y in ast.walk(e)):
                    continue
                # a subclass overriding the property would make the read dynamic
                if any(name in sc.methods for sc in prog.subclasses(ci, strict=True)):
                    continue
                props[name] = (me, e)
            if not props:
                continue
            if tree is None:
                tree = copy.deepcopy(trees.get(m.rel, m.tree))
            cnode = next((x for x in ast.walk(tree) if isinstance(x, ast.ClassDef) and x.name == ci.name and x.lineno == ci.node.lineno), None)
            if cnode is None:
                continue
            for fn in [x for x in cnode.body if isinstance(x, (ast.FunctionDef, ast.AsyncFunctionDef))]:
                if not fn.args.args or fn.name in props:
                    continue
                recv = fn.args.args[0].arg
                if any(isinstance(d, ast.Name) and d.id == 'staticmethod' for d in fn.decorator_list):
                    continue

                class _P(ast.NodeTransformer):
                    def visit_Attribute(self_, x):      # noqa: N805
                        self_.generic_visit(x)
                        if isinstance(x.ctx, ast.Load) and isinstance(x.value, ast.Name) and x.value.id == recv and x.attr in props:
                            me_, e_ = props[x.attr]
                            new = copy.deepcopy(e_)
                            for y in ast.walk(new):
                                if isinstance(y, ast.Name) and y.id == me_:
                                    y.id = recv
                            nonlocal_changed.append(1)
                            return ast.copy_location(new, x)
                        return x
                nonlocal_changed: List[int] = []
                _P().visit(fn)
                if nonlocal_changed:
                    changed = True
        if tree is not None and changed:
            ast.fix_missing_locations(tree)
            trees[m.rel] = tree
    if not changed:
        return prog
    return Program(prog.repo, prog.pkg, overrides=prog.overrides, tree_overrides=trees)



_UNRELATED_BUILTINS = ('str', 'bytes', 'list', 'tuple', 'dict', 'set', 'frozenset', 'float', 'NoneType')


def _desugar_singledispatch(prog: Program) -> Program:
    """A NEW module-level `@functools.singledispatch` function whose registrations are `@F.register(T)` on new module-level functions
    of the same arity, for pairwise unrelated classes (None's type and builtin container / text types, whose subclass relations are
    known), selects the implementation by the class of the first argument — that is an isinstance chain in front of the default body.
    The decorators are dropped and the chain written out, so that the ordinary helper inlining sees plain functions."""
    import copy
    known = anchors()
    trees = dict(prog.tree_overrides)
    changed = False
    for m in prog.modules.values():
        gens = [st for st in m.tree.body if isinstance(st, ast.FunctionDef) and
                any((dotted(d) or '').rsplit('.', 1)[-1] == 'singledispatch' for d in st.decorator_list)]
        gens = [g for g in gens if f'{m.name}.{g.name}' not in known and len(g.decorator_list) == 1]
        if not gens:
            continue
        tree = copy.deepcopy(trees.get(m.rel, m.tree))
        for g0 in gens:
            g = next(st for st in tree.body if isinstance(st, ast.FunctionDef) and st.name == g0.name)
            if g.args.vararg or g.args.kwarg or g.args.kwonlyargs or g.args.posonlyargs or not g.args.args:
                continue
            params = [a.arg for a in g.args.args]
            regs = []
            ok = True
            for st in tree.body:
                if not isinstance(st, ast.FunctionDef) or st is g:
                    continue
                for d in st.decorator_list:
                    if isinstance(d, ast.Call) and isinstance(d.func, ast.Attribute) and d.func.attr == 'register' and dotted(d.func.value) == g.name:
                        if len(st.decorator_list) != 1 or len(d.args) != 1 or d.keywords or f'{m.name}.{st.name}' in known or \
                                [a.arg for a in st.args.args] and len(st.args.args) != len(params) or st.args.vararg or st.args.kwarg or st.args.kwonlyargs:
                            ok = False
                            break
                        t = d.args[0]
                        if isinstance(t, ast.Call) and dotted(t.func) == 'type' and len(t.args) == 1 and isinstance(t.args[0], ast.Constant) and t.args[0].value is None:
                            regs.append((st, 'NoneType', t))
                        elif isinstance(t, ast.Name) and t.id in _UNRELATED_BUILTINS:
                            regs.append((st, t.id, t))
                        else:
                            ok = False
                    elif isinstance(d, ast.Attribute) and d.attr == 'register' and dotted(d.value) == g.name:
                        ok = False      # annotation-driven registration: not read
            # any other use of the generic function object (F.register elsewhere, F.dispatch, F.registry) keeps it as it is
            for x in ast.walk(tree):
                if isinstance(x, ast.Attribute) and isinstance(x.value, ast.Name) and x.value.id == g.name and \
                        not any(x is d.func for st, _, _ in regs for d in st.decorator_list if isinstance(d, ast.Call)):
                    ok = False
            if not ok or not regs or len({k for _, k, _ in regs}) != len(regs):
                continue
            first = params[0]
            chain: List[ast.stmt] = []
            for st, kind, t in regs:
                if kind == 'NoneType':
                    test: ast.expr = ast.Compare(left=ast.Name(id=first, ctx=ast.Load()), ops=[ast.Is()], comparators=[ast.Constant(value=None)])
                else:
                    test = ast.Call(func=ast.Name(id='isinstance', ctx=ast.Load()), args=[ast.Name(id=first, ctx=ast.Load()), ast.Name(id=kind, ctx=ast.Load())], keywords=[])
                call = ast.Call(func=ast.Name(id=st.name, ctx=ast.Load()), args=[ast.Name(id=p_, ctx=ast.Load()) for p_ in params], keywords=[])
                chain.append(ast.If(test=test, body=[ast.Return(value=call)], orelse=[]))
                st.decorator_list = []
            doc = [g.body[0]] if g.body and isinstance(g.body[0], ast.Expr) and isinstance(g.body[0].value, ast.Constant) else []
            g.body = doc + [ast.copy_location(c_, g) for c_ in chain] + g.body[len(doc):]
            g.decorator_list = []
            changed = True
            ast.fix_missing_locations(tree)
            trees[m.rel] = tree
    if not changed:
        return prog
    return Program(prog.repo, prog.pkg, overrides=prog.overrides, tree_overrides=trees)


def _closures_for_partials(prog: Program) -> Program:
    """`v = functools.partial(self.h, k=a, ...)` / `partial(h, ...)` where h is a NEW method of the same class / function of the
    same module ("closure turned into a method plus partial") becomes the nested function it stands for: the parameters of h
    that the partial does not bind, and h's body with the bound parameters replaced by the (atomic, never reassigned) arguments."""
    import copy
    known_funcs = anchors()
    trees = dict(prog.tree_overrides)
    changed = False
    for m in prog.modules.values():
        if not any(isinstance(x, ast.Call) and (dotted(x.func) or '').rsplit('.', 1)[-1] == 'partial' for x in ast.walk(m.tree)):
            continue
        tree = copy.deepcopy(trees.get(m.rel, m.tree))
        mod_funcs = {st.name: st for st in tree.body if isinstance(st, (ast.FunctionDef, ast.AsyncFunctionDef))}
        did = False
        for cls_node in [None] + [st for st in tree.body if isinstance(st, ast.ClassDef)]:
            holders = tree.body if cls_node is None else cls_node.body
            methods = {st.name: st for st in holders if isinstance(st, (ast.FunctionDef, ast.AsyncFunctionDef))} if cls_node is not None else {}
            for fn in [st for st in holders if isinstance(st, (ast.FunctionDef, ast.AsyncFunctionDef))]:
                fparams = {p.arg for p in list(fn.args.posonlyargs) + list(fn.args.args) + list(fn.args.kwonlyargs)}
                nstores = {}
                for x in ast.walk(fn):
                    if isinstance(x, ast.Name) and isinstance(x.ctx, (ast.Store, ast.Del)):
                        nstores[x.id] = nstores.get(x.id, 0) + 1

                def atomic_ok(a) -> bool:
                    return isinstance(a, ast.Constant) or isinstance(a, ast.Name) and (a.id in fparams and not nstores.get(a.id) or
                                                                                        nstores.get(a.id, 0) <= 1)

                def block(stmts):
                    nonlocal did
                    i = 0
                    while i < len(stmts):
                        st = stmts[i]
                        v = getattr(st, 'value', None) if isinstance(st, (ast.Return, ast.Assign)) else None
                        if isinstance(v, ast.Call) and (dotted(v.func) or '').rsplit('.', 1)[-1] == 'partial' and \
                                (dotted(v.func) or '').split('.')[0] in ('ft', 'functools', 'partial') and v.args and \
                                not any(isinstance(a, ast.Starred) for a in v.args) and all(k.arg is not None for k in v.keywords):
                            target = v.args[0]
                            h = None
                            is_method = False
                            if isinstance(target, ast.Attribute) and isinstance(target.value, ast.Name) and target.value.id == 'self' and \
                                    target.attr in methods and cls_node is not None:
                                q = f'{m.name}.{cls_node.name}.{target.attr}'
                                if q not in known_funcs and not methods[target.attr].decorator_list:
                                    h, is_method = methods[target.attr], True
                            elif isinstance(target, ast.Name) and target.id in mod_funcs and f'{m.name}.{target.id}' not in known_funcs and \
                                    not mod_funcs[target.id].decorator_list:
                                h = mod_funcs[target.id]
                            if h is not None and h is not fn and not h.args.vararg and not h.args.kwarg and \
                                    all(atomic_ok(a) for a in v.args[1:]) and all(atomic_ok(k.value) for k in v.keywords) and \
                                    not any(isinstance(x, (ast.Yield, ast.YieldFrom, ast.Global, ast.Nonlocal)) for x in ast.walk(h)) and \
                                    (not is_method or (h.args.args and h.args.args[0].arg == 'self')):
                                pos = list(h.args.posonlyargs) + list(h.args.args)
                                if is_method:
                                    pos = pos[1:]
                                bind = {}
                                for p_, a_ in zip(pos, v.args[1:]):
                                    bind[p_.arg] = a_
                                if len(v.args) - 1 > len(pos):
                                    i += 1
                                    continue
                                allp = {p_.arg for p_ in pos} | {p_.arg for p_ in h.args.kwonlyargs}
                                okk = True
                                for k in v.keywords:
                                    if k.arg not in allp or k.arg in bind:
                                        okk = False
                                    bind[k.arg] = k.value
                                # a keyword-bound parameter can still be overridden by the caller of the partial: only exact when the
                                # remaining signature cannot name it, i.e. it is keyword-only or comes after the free positional ones
                                h_stores = {x.id for x in ast.walk(h) if isinstance(x, ast.Name) and isinstance(x.ctx, (ast.Store, ast.Del))}
                                if not okk or h_stores & set(bind):
                                    i += 1
                                    continue
                                nd = copy.deepcopy(h)
                                nd.decorator_list = []
                                rem_pos = [p_ for p_ in (nd.args.posonlyargs + nd.args.args)[(1 if is_method else 0):] if p_.arg not in bind]
                                n_def = len(nd.args.defaults)
                                all_pos = nd.args.posonlyargs + nd.args.args
                                defaults_by = {p_.arg: d for p_, d in zip(all_pos[len(all_pos) - n_def:], nd.args.defaults)}
                                nd.args.posonlyargs = []
                                nd.args.args = rem_pos
                                nd.args.defaults = [defaults_by[p_.arg] for p_ in rem_pos if p_.arg in defaults_by]
                                if len(nd.args.defaults) not in (0, len([p_ for p_ in rem_pos if p_.arg in defaults_by])) or \
                                        any(p_.arg in defaults_by for p_ in rem_pos) and not all(p2.arg in defaults_by for p2 in rem_pos[[p3.arg in defaults_by for p3 in rem_pos].index(True):]):
                                    i += 1
                                    continue
                                kwo, kwd = [], []
                                for p_, d in zip(nd.args.kwonlyargs, nd.args.kw_defaults):
                                    if p_.arg not in bind:
                                        kwo.append(p_)
                                        kwd.append(d)
                                nd.args.kwonlyargs, nd.args.kw_defaults = kwo, kwd
                                shadow = {p_.arg for p_ in rem_pos + kwo} | h_stores
                                if any(isinstance(a, ast.Name) and a.id in shadow for a in list(bind.values())):
                                    i += 1
                                    continue

                                class _S(ast.NodeTransformer):
                                    def visit_Name(self_, x):     # noqa: N805
                                        if isinstance(x.ctx, ast.Load) and x.id in bind:
                                            return ast.copy_location(copy.deepcopy(bind[x.id]), x)
                                        return x
                                nd.body = [_S().visit(b) for b in nd.body]
                                name = st.targets[0].id if isinstance(st, ast.Assign) and len(st.targets) == 1 and isinstance(st.targets[0], ast.Name) \
                                    else '_' + h.name.strip('_') + '_partial'
                                nd.name = name
                                ast.copy_location(nd, st)
                                ast.fix_missing_locations(nd)
                                if isinstance(st, ast.Assign) and name == getattr(st.targets[0], 'id', None):
                                    stmts[i] = nd
                                else:
                                    st.value = ast.copy_location(ast.Name(id=name, ctx=ast.Load()), v)
                                    stmts.insert(i, nd)
                                    i += 1
                                did = True
                        for fld in ('body', 'orelse', 'finalbody'):
                            sub = getattr(st, fld, None)
                            if isinstance(sub, list) and sub and isinstance(sub[0], ast.stmt) and not isinstance(st, (ast.FunctionDef, ast.AsyncFunctionDef, ast.ClassDef)):
                                block(sub)
                        for hd in getattr(st, 'handlers', []) or []:
                            block(hd.body)
                        i += 1
                block(fn.body)
        if did:
            trees[m.rel] = tree
            changed = True
    if not changed:
        return prog
    return Program(prog.repo, prog.pkg, overrides=prog.overrides, tree_overrides=trees)


def known_modules() -> Set[str]:
    with open(_ANCHORS_FILE) as fh:
        return set(json.load(fh).get('modules', []))


def _merge_new_modules(prog: Program) -> Program:
    """A NEW module (not a module of the reference tree) that consists of imports and definitions only, and from which exactly one
    known module imports names (`from .batch import Batch, AsyncBatch`), is code that was moved out of that module: its definitions
    are put back in place of the import statement (with the new module's own imports), and the new module becomes a re-export.
    Qualified names, and everything the rules say about "the classes of pjrpc.client.client", then read as before the move."""
    import copy
    known = known_modules()
    if not known:
        return prog
    fresh = [m for m in prog.modules.values() if m.name not in known]
    if not fresh:
        return prog
    trees = dict(prog.tree_overrides)
    changed = False
    for M in fresh:
        body = list(M.tree.body)
        ok = True
        defs: Dict[str, ast.stmt] = {}
        imports: List[ast.stmt] = []
        for st in body:
            if isinstance(st, ast.Expr) and isinstance(st.value, ast.Constant) and isinstance(st.value.value, str):
                continue
            if isinstance(st, (ast.Import, ast.ImportFrom)):
                imports.append(st)
            elif isinstance(st, (ast.ClassDef, ast.FunctionDef, ast.AsyncFunctionDef)):
                defs[st.name] = st
            elif isinstance(st, (ast.Assign, ast.AnnAssign)) and all(isinstance(t, ast.Name) for t in (st.targets if isinstance(st, ast.Assign) else [st.target])):
                for t in (st.targets if isinstance(st, ast.Assign) else [st.target]):
                    defs[t.id] = st      # type: ignore[union-attr]
            elif isinstance(st, ast.If) and 'TYPE_CHECKING' in ast.unparse(st.test) and \
                    all(isinstance(x, (ast.Import, ast.ImportFrom)) for x in st.body) and not st.orelse:
                continue        # imports for annotations only
            else:
                ok = False
        if not ok or not defs:
            continue
        importers = []
        for K in prog.modules.values():
            if K is M or K.name not in known:
                continue
            for st in K.tree.body:
                if isinstance(st, ast.ImportFrom):
                    base = K.name.split('.') if K.is_pkg else K.name.split('.')[:-1]
                    if st.level > 1:
                        base = base[:-(st.level - 1)]
                    target = '.'.join(base + ([st.module] if st.module else [])) if st.level else (st.module or '')
                    if target == M.name:
                        importers.append((K, st))
        if len(importers) != 1:
            continue
        K, imp = importers[0]
        if any(a.name == '*' or a.asname not in (None, a.name) or a.name not in defs for a in imp.names):
            continue
        k_names = set()
        for st in K.tree.body:
            if isinstance(st, (ast.ClassDef, ast.FunctionDef, ast.AsyncFunctionDef)):
                k_names.add(st.name)
            elif isinstance(st, (ast.Assign, ast.AnnAssign)):
                for t in (st.targets if isinstance(st, ast.Assign) else [st.target]):
                    if isinstance(t, ast.Name):
                        k_names.add(t.id)
        if k_names & set(defs):
            continue
        ktree = copy.deepcopy(trees.get(K.rel, K.tree))
        idx = None
        for i, st in enumerate(ktree.body):
            if isinstance(st, ast.ImportFrom) and st.lineno == imp.lineno and [a.name for a in st.names] == [a.name for a in imp.names]:
                idx = i
        if idx is None:
            continue
        moved: List[ast.stmt] = []
        seen_defs = set()
        for st in body:
            if isinstance(st, (ast.Import, ast.ImportFrom)):
                # the new module's import of K itself (cyclic, for annotations) is meaningless inside K
                moved.append(copy.deepcopy(st))
            elif any(st is d for d in defs.values()) and id(st) not in seen_defs:
                seen_defs.add(id(st))
                moved.append(copy.deepcopy(st))
        ktree.body[idx:idx + 1] = moved
        trees[K.rel] = ktree
        # the new module re-exports from K
        rel_names = sorted(defs)
        mtree = ast.Module(body=[ast.ImportFrom(module=K.name, names=[ast.alias(name=n) for n in rel_names], level=0)], type_ignores=[])
        ast.fix_missing_locations(mtree)
        trees[M.rel] = mtree
        changed = True
    if not changed:
        return prog
    out = Program(prog.repo, prog.pkg, overrides=prog.overrides, tree_overrides=trees)
    return out


def _flatten_mixins(prog: Program) -> Program:
    """Methods of a NEW class (none of its methods is in the anchor table) that a KNOWN class inherits directly are cloned
    into that class, exactly where the method resolution order would find them: `class Request(_IdMixin, AbstractRequest)`
    then looks to the rules like the class that defines the methods itself.  A pure mixin (its name occurs only in base
    lists) loses the cloned methods, which nothing can reach through it."""
    import copy
    known_funcs = anchors()
    known_classes = {q.rsplit('.', 1)[0] for q in known_funcs}

    def is_new(ci) -> bool:
        return bool(ci.methods) and ci.qualname not in known_classes and not any(m.qualname in known_funcs for m in ci.methods.values())
    fresh = [ci for ci in prog.classes.values() if is_new(ci)]
    if not fresh:
        return prog
    plan: Dict[str, List[tuple]] = {}      # module rel -> [(target class, mixin, method names)]
    for ci in prog.classes.values():
        if is_new(ci):
            continue
        for b in ci.bases:
            if not (hasattr(b, 'methods') and b in fresh and b.module is ci.module):
                continue
            if any(isinstance(x, ast.Name) and x.id in ('super', '__class__') for m in b.methods.values() for x in ast.walk(m.node)):
                continue
            names = [n for n, m in b.methods.items() if prog.find_method(ci, n) is m]
            if names:
                plan.setdefault(ci.module.rel, []).append((ci, b, names))
    if not plan:
        return prog
    trees = dict(prog.tree_overrides)
    by_rel = {m.rel: m for m in prog.modules.values()}
    log: List[str] = []
    for rel, items in plan.items():
        src = by_rel[rel].tree
        tree = copy.deepcopy(src)
        cdefs = {(x.name, x.lineno): x for x in ast.walk(tree) if isinstance(x, ast.ClassDef)}
        # is the mixin referenced anywhere but in base lists?
        base_ids = {id(y) for m in prog.modules.values() for x in ast.walk(m.tree) if isinstance(x, ast.ClassDef)
                    for b in x.bases for y in ast.walk(b)}
        cloned: Dict[tuple, Set[str]] = {}
        users: Dict[tuple, int] = {}
        for ci, mix, names in items:
            tgt = cdefs[(ci.name, ci.node.lineno)]
            mdef = cdefs[(mix.name, mix.node.lineno)]
            for st in mdef.body:
                if isinstance(st, (ast.FunctionDef, ast.AsyncFunctionDef)) and st.name in names:
                    tgt.body.append(copy.deepcopy(st))
            cloned.setdefault((mix.name, mix.node.lineno), set()).update(names)
            log.append(f'{ci.qualname}: methods {sorted(names)} of new base class {mix.name} cloned into the class')
        for (mname, mline), names in cloned.items():
            pure = not any(isinstance(x, (ast.Name, ast.Attribute)) and (x.id if isinstance(x, ast.Name) else x.attr) == mname
                           and id(x) not in base_ids for m in prog.modules.values() for x in ast.walk(m.tree))
            heirs = [c for c in prog.classes.values() if any(getattr(b, 'name', None) == mname and getattr(b, 'module', None) is by_rel[rel]
                                                             for b in c.bases)]
            done = {ci.qualname for ci, mix, ns in items if mix.name == mname}
            if pure and all(c.qualname in done for c in heirs):
                mdef = cdefs[(mname, mline)]
                # only methods every heir took over
                every = set.intersection(*[set(ns) for ci, mix, ns in items if mix.name == mname])
                mdef.body = [st for st in mdef.body if not (isinstance(st, (ast.FunctionDef, ast.AsyncFunctionDef)) and st.name in every)] \
                    or [ast.copy_location(ast.Pass(), mdef.body[0])]
        trees[rel] = tree
    out = Program(prog.repo, prog.pkg, overrides=prog.overrides, tree_overrides=trees)
    out.__dict__['flatten_log'] = log
    return out


def _without(prog: Program, out: Program, gone: Set[str]) -> Program:
    """Private new helpers that were inlined into every caller and are referenced nowhere else (no call, no value use, no
    string naming them anywhere in the package) are removed from the analysed program: they are not reachable code any more,
    and as stand-alone functions their `self` would be the (possibly abstract) class they were moved to."""
    if not gone:
        return out
    names = {out.funcs[q].name for q in gone}
    # references are counted per helper, ignoring the bodies of the helpers to be removed
    inside: Set[int] = set()
    for q in gone:
        inside |= {id(y) for y in ast.walk(out.funcs[q].node)}
    still = set()
    for m in out.modules.values():
        for x in ast.walk(m.tree):
            if id(x) in inside:
                continue
            nm = x.attr if isinstance(x, ast.Attribute) else x.id if isinstance(x, ast.Name) else \
                x.value if isinstance(x, ast.Constant) and isinstance(x.value, str) else None
            if nm in names:
                still.add(nm)
    gone = {q for q in gone if out.funcs[q].name not in still}
    if not gone:
        return out
    import copy
    trees = dict(out.tree_overrides)
    by_rel = {m.rel: m for m in out.modules.values()}
    todo: Dict[str, Set[tuple]] = {}
    for q in gone:
        f = out.funcs[q]
        todo.setdefault(f.module.rel, set()).add((f.cls.name if f.cls is not None else None, f.name, f.node.lineno))
    for rel, items in todo.items():
        tree = copy.deepcopy(by_rel[rel].tree)
        for x in ast.walk(tree):
            body = getattr(x, 'body', None)
            if not isinstance(body, list) or not isinstance(x, (ast.Module, ast.ClassDef)):
                continue
            cn = x.name if isinstance(x, ast.ClassDef) else None
            keep = [st for st in body if not (isinstance(st, (ast.FunctionDef, ast.AsyncFunctionDef)) and (cn, st.name, st.lineno) in items)]
            if len(keep) != len(body):
                x.body = keep or [ast.copy_location(ast.Pass(), body[0])]
        trees[rel] = tree
    new = Program(out.repo, out.pkg, overrides=out.overrides, tree_overrides=trees)
    new.__dict__['inline_log'] = inline_log(out) + [f'{q}: removed (inlined everywhere, unreferenced)' for q in sorted(gone)]
    return new


def write_anchor_table(prog: Program) -> int:
    funcs = sorted(q for q, f in prog.funcs.items() if not isinstance(f.node, ast.Lambda))
    from .peval import _module_level_bindings
    globs: Set[str] = set()
    for m in prog.modules.values():
        for name in _module_level_bindings(m.tree):
            globs.add(f'{m.name}.{name}')
        for st in ast.walk(m.tree):
            if isinstance(st, ast.ClassDef):
                for cs in st.body:
                    for x in ast.walk(cs) if isinstance(cs, (ast.Assign, ast.AnnAssign, ast.AugAssign)) else []:
                        if isinstance(x, ast.Name) and isinstance(x.ctx, ast.Store):
                            globs.add(f'{m.name}.{st.name}.{x.id}')
    with open(_ANCHORS_FILE, 'w') as fh:
        json.dump({'_comment': 'qualified names of the functions of the tree the rules were written against (names only); '
                               'functions not listed here are inlined into their callers before analysis (pjx/normal.py)',
                   'functions': funcs,
                   'modules': sorted(prog.modules),
                   'globals_comment': 'module-level and class-level names of the same tree (names only); a NEW name bound once to an '
                                      'immutable expression is a constant that pjx/peval.py replaces by its value',
                   'globals': sorted(globs)}, fh, indent=0)
    return len(funcs)
