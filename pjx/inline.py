"""Helper inliner.

"Extract helper" is the most common behaviour-preserving edit of an anchor function: part of its body moves into a
private function of the same module and is replaced by a call.  The syntactic / CFG rules look at the anchor
function only, so they would either stop recognising the construct (exit 2) or, worse, report that a guard has gone.
`inlined_program` undoes such an extraction *in the analysed program model* (never on disk): it returns a Program
whose anchor functions have calls to private same-module helpers replaced by the helper's body, with parameters
substituted, locals renamed on a clash and `return` turned into the assignment the call site makes.

Only exact rewrites are made; a call that cannot be inlined exactly is left alone:
  * callee resolved to exactly one repo function (no override anywhere in the class hierarchy), same module,
    private name, not one of the functions the rule names as anchors (`keep`), not recursive;
  * no generators, no nested defs, no global/nonlocal, no super()/locals();
  * call without * / ** arguments; an async callee must be awaited at the call;
  * tail calls (`return h(..)`) keep the helper's returns; `x = h(..)` / `h(..)` need returns that can be turned
    into assignments by nesting the remainder into else-branches (no return inside a loop);
  * a call inside a larger expression is replaced by the helper's expression when the helper is expression-like
    (`return E`, or `if c: return A` + `return B`), otherwise hoisted into a temporary when it is evaluated
    unconditionally by a simple statement.
Line numbers of the inlined statements stay those of the helper (same file), so reports point at real code.
"""
from __future__ import annotations

import ast
import copy
from typing import Dict, Iterable, List, Optional, Sequence, Set, Tuple

from .model import ClassInfo, FuncInfo, Program, dotted
from .types import FuncScope, members, types_of

MAX_ROUNDS = 3
CM_DECORATORS = {'contextlib.contextmanager': 'sync', 'contextmanager': 'sync',
                 'contextlib.asynccontextmanager': 'async', 'asynccontextmanager': 'async'}


# ------------------------------------------------------------------------------------------------
# public entry
# ------------------------------------------------------------------------------------------------

def inlined_program(prog: Program, callers: Iterable[str], keep: Iterable[str] = (), keep_callers: bool = True,
                    any_name: bool = False) -> Program:
    callers = tuple(sorted(set(callers)))
    keepset = set(keep) | (set(callers) if keep_callers else set())
    if any_name:
        keepset.add('<any-name>')       # public helpers may be inlined too (used by normal.py, where `keep` lists every known function)
    key = (callers, tuple(sorted(keepset)))
    cache: Dict[object, Program] = prog.__dict__.setdefault('_inline_cache', {})
    if key in cache:
        return cache[key]
    log: List[str] = []
    # dry run on the unmodified program: anything to do at all?
    if not _round(prog, callers, keepset, log, dry=True):
        cache[key] = prog
        return prog
    trees: Dict[str, ast.Module] = {}
    cur = prog
    for _ in range(MAX_ROUNDS):
        rels = {cur.funcs[q].module.rel for q in callers if q in cur.funcs}
        fresh = [r for r in rels if r not in trees]
        if fresh:
            by_rel = {m.rel: m for m in cur.modules.values()}
            for r in fresh:
                trees[r] = copy.deepcopy(by_rel[r].tree)
            cur = Program(prog.repo, prog.pkg, overrides=prog.overrides, tree_overrides={**prog.tree_overrides, **trees})
        if not _round(cur, callers, keepset, log, dry=False):
            break
        cur = Program(prog.repo, prog.pkg, overrides=prog.overrides, tree_overrides={**prog.tree_overrides, **trees})
    cur.__dict__['inline_log'] = log
    cache[key] = cur
    return cur


def inline_log(prog: Program) -> List[str]:
    return list(prog.__dict__.get('inline_log', []))


# ------------------------------------------------------------------------------------------------
# one round
# ------------------------------------------------------------------------------------------------

def _all_nested(f: FuncInfo) -> List[FuncInfo]:
    out = [f]
    for g in f.nested.values():
        out += _all_nested(g)
    return out


def _round(prog: Program, callers: Sequence[str], keep: Set[str], log: List[str], dry: bool) -> bool:
    changed = False
    for q in callers:
        f = prog.funcs.get(q)
        if f is None:
            continue
        for g in _all_nested(f):
            inl = _Inliner(prog, g, keep, log, dry)
            if inl.run():
                changed = True
                if dry:
                    return True
    return changed


class _GiveUp(Exception):
    pass


def _strip_doc(body: List[ast.stmt]) -> List[ast.stmt]:
    if body and isinstance(body[0], ast.Expr) and isinstance(body[0].value, ast.Constant) and isinstance(body[0].value.value, str):
        return body[1:]
    return body


def _contains(node: ast.AST, types: tuple, into_defs: bool = False) -> bool:
    stack = [node]
    while stack:
        n = stack.pop()
        if isinstance(n, types):
            return True
        for ch in ast.iter_child_nodes(n):
            if not into_defs and isinstance(ch, (ast.FunctionDef, ast.AsyncFunctionDef, ast.ClassDef, ast.Lambda)):
                continue
            stack.append(ch)
    return False


def _has_return(stmts: Sequence[ast.stmt]) -> bool:
    return any(_contains(s, (ast.Return,)) for s in stmts)


def _definitely_exits(stmts: Sequence[ast.stmt]) -> bool:
    if not stmts:
        return False
    s = stmts[-1]
    if isinstance(s, (ast.Return, ast.Raise)):
        return True
    if isinstance(s, ast.If):
        return bool(s.orelse) and _definitely_exits(s.body) and _definitely_exits(s.orelse)
    if isinstance(s, (ast.With, ast.AsyncWith)):
        return _definitely_exits(s.body)
    if isinstance(s, ast.Try):
        if s.finalbody and _definitely_exits(s.finalbody):
            return True
        return _definitely_exits(s.body if not s.orelse else s.orelse) and all(_definitely_exits(h.body) for h in s.handlers)
    return False


def _atomic(e: ast.expr) -> bool:
    return isinstance(e, ast.Constant) or dotted(e) is not None


class _Subst(ast.NodeTransformer):
    def __init__(self, subst: Dict[str, ast.expr], rename: Dict[str, str]):
        self.subst = subst
        self.rename = rename

    def visit_Name(self, node: ast.Name) -> ast.AST:
        if node.id in self.rename:
            return ast.copy_location(ast.Name(id=self.rename[node.id], ctx=node.ctx), node)
        if node.id in self.subst and isinstance(node.ctx, ast.Load):
            new = copy.deepcopy(self.subst[node.id])
            return _relocate(new, node)
        return node

    def visit_arg(self, node: ast.arg) -> ast.AST:   # lambda parameters shadowing: leave
        return node


def _relocate(new: ast.AST, like: ast.AST) -> ast.AST:
    for x in ast.walk(new):
        if hasattr(x, 'lineno') or isinstance(x, (ast.expr, ast.stmt)):
            ast.copy_location(x, like)
    return new


def _fold(stmts: List[ast.stmt]) -> List[ast.stmt]:
    """After a constant was substituted for a flag parameter: `if True: A else: B` is A (exact)."""
    out: List[ast.stmt] = []
    for s in stmts:
        for fld in ('body', 'orelse', 'finalbody'):
            sub = getattr(s, fld, None)
            if isinstance(sub, list) and sub and isinstance(sub[0], ast.stmt):
                setattr(s, fld, _fold(sub) or ([ast.copy_location(ast.Pass(), s)] if fld == 'body' else []))
        if isinstance(s, ast.Try):
            for h in s.handlers:
                h.body = _fold(h.body) or [ast.copy_location(ast.Pass(), h)]
        if isinstance(s, ast.If) and isinstance(s.test, ast.Constant):
            out += s.body if s.test.value else s.orelse
            continue
        for x in ast.walk(s):
            for fld, val in ast.iter_fields(x):
                if isinstance(val, ast.IfExp) and isinstance(val.test, ast.Constant):
                    setattr(x, fld, val.body if val.test.value else val.orelse)
                elif isinstance(val, list):
                    for i, v in enumerate(val):
                        if isinstance(v, ast.IfExp) and isinstance(v.test, ast.Constant):
                            val[i] = v.body if v.test.value else v.orelse
        out.append(s)
    return out


class _Inliner:
    def __init__(self, prog: Program, f: FuncInfo, keep: Set[str], log: List[str], dry: bool):
        self.prog = prog
        self.f = f
        self.keep = keep
        self.log = log
        self.dry = dry
        self.ty = types_of(prog)
        self.scope = FuncScope(f, self.ty)
        self.names: Set[str] = set()
        root = f.node
        for x in ast.walk(root):
            if isinstance(x, ast.Name):
                self.names.add(x.id)
            elif isinstance(x, ast.arg):
                self.names.add(x.arg)
            elif isinstance(x, (ast.FunctionDef, ast.AsyncFunctionDef)):
                self.names.add(x.name)
        g = f.parent
        while g is not None:       # closures see the enclosing function's names
            for x in ast.walk(g.node):
                if isinstance(x, ast.Name):
                    self.names.add(x.id)
                elif isinstance(x, ast.arg):
                    self.names.add(x.arg)
            g = g.parent
        self.changed = False
        self._locals: Set[str] = {p.arg for p in f.params}
        for x in ast.walk(root):
            if isinstance(x, ast.Name) and isinstance(x.ctx, ast.Store):
                self._locals.add(x.id)

    # -- driver -------------------------------------------------------------------------------------
    def run(self) -> bool:
        body = getattr(self.f.node, 'body', None)
        if not isinstance(body, list):
            return False
        self._block(body)
        return self.changed

    def _block(self, stmts: List[ast.stmt]) -> None:
        i = 0
        while i < len(stmts):
            s = stmts[i]
            if isinstance(s, (ast.FunctionDef, ast.AsyncFunctionDef, ast.ClassDef)):
                i += 1
                continue
            try:
                new = self._statement(s)
            except _GiveUp:
                new = None
            if new is not None:
                self.changed = True
                if self.dry:
                    return
                stmts[i:i + 1] = new
                i += len(new)
                continue
            for fld in ('body', 'orelse', 'finalbody'):
                sub = getattr(s, fld, None)
                if isinstance(sub, list) and sub and isinstance(sub[0], ast.stmt):
                    self._block(sub)
                    if self.dry and self.changed:
                        return
            if isinstance(s, ast.Try):
                for h in s.handlers:
                    self._block(h.body)
            i += 1

    # -- one statement ------------------------------------------------------------------------------
    def _statement(self, s: ast.stmt) -> Optional[List[ast.stmt]]:
        # (A) tail call
        if isinstance(s, ast.Return) and s.value is not None:
            c, awaited = self._direct_call(s.value)
            if c is not None:
                h = self._inlinable(c, awaited)
                if h is not None:
                    return self._expand(s, c, h, mode='tail', target=None)
        # (B) assignment / expression statement
        if isinstance(s, ast.Assign) and len(s.targets) == 1 or isinstance(s, ast.AnnAssign) and s.value is not None \
                or isinstance(s, ast.Expr):
            c, awaited = self._direct_call(s.value)
            if c is not None:
                h = self._inlinable(c, awaited)
                if h is not None:
                    if isinstance(s, ast.Assign):
                        return self._expand(s, c, h, mode='assign', target=s.targets[0])
                    if isinstance(s, ast.AnnAssign):
                        return self._expand(s, c, h, mode='assign', target=s.target, ann=s.annotation)
                    return self._expand(s, c, h, mode='expr', target=None)
        # (D) `with helper(..):` where the helper is a @contextmanager generator with a single `yield`: the block takes the
        # place of the yield inside the generator's body (PEP 343: an exception of the block is raised at the yield)
        if isinstance(s, (ast.With, ast.AsyncWith)) and s.items and isinstance(s.items[0].context_expr, ast.Call):
            c = s.items[0].context_expr
            h = self._inlinable(c, False, cm='async' if isinstance(s, ast.AsyncWith) else 'sync')
            if h is not None:
                out = self._expand_cm(s, c, h)
                if out is not None:
                    return out
        # (E) `for T in gen(..): BODY` / `v = list(gen(..))` where gen is a generator helper: the loop body takes the place of every
        # `yield E` (as `T = E; BODY`) inside the generator's body
        if isinstance(s, ast.Assign) and len(s.targets) == 1 and isinstance(s.targets[0], ast.Name) and isinstance(s.value, ast.Call) and \
                dotted(s.value.func) == 'list' and len(s.value.args) == 1 and not s.value.keywords and isinstance(s.value.args[0], ast.Call):
            gc = s.value.args[0]
            h = self._inlinable(gc, False, gen=True)
            if h is not None and not any(isinstance(x, ast.Name) and x.id == s.targets[0].id for x in ast.walk(gc)):
                tmp = self._fresh('_item')
                self.names.add(tmp)
                acc = s.targets[0].id
                app = ast.Expr(value=ast.Call(func=ast.Attribute(value=ast.Name(id=acc, ctx=ast.Load()), attr='append', ctx=ast.Load()),
                                              args=[ast.Name(id=tmp, ctx=ast.Load())], keywords=[]))
                loop = ast.For(target=ast.Name(id=tmp, ctx=ast.Store()), iter=gc, body=[app], orelse=[])
                init = ast.Assign(targets=[ast.Name(id=acc, ctx=ast.Store())], value=ast.List(elts=[], ctx=ast.Load()))
                for st_ in (init, loop):
                    ast.copy_location(st_, s)
                    ast.fix_missing_locations(st_)
                out = self._expand_gen(loop, gc, h)
                if out is not None:
                    return [init] + out
        if isinstance(s, ast.For) and not s.orelse and isinstance(s.iter, ast.Call):
            h = self._inlinable(s.iter, False, gen=True)
            if h is not None:
                out = self._expand_gen(s, s.iter, h)
                if out is not None:
                    return out
        # (C) nested call
        for root in self._header_exprs(s):
            parents: Dict[int, ast.AST] = {}
            for x in ast.walk(root):
                for ch in ast.iter_child_nodes(x):
                    parents[id(ch)] = x
            for x in ast.walk(root):
                if not isinstance(x, ast.Call):
                    continue
                par = parents.get(id(x))
                awaited = isinstance(par, ast.Await)
                h = self._inlinable(x, awaited)
                if h is None:
                    continue
                whole = par if awaited else x
                # expression-like helper: substitute
                e = self._as_expression(x, h, self._boolean_context(whole, parents, root, s))
                if e is not None and not awaited:
                    if self.dry:
                        return []
                    self._replace_child(parents.get(id(whole)), whole, e, s, root)
                    self.log.append(f'{self.f.qualname}: `{h.name}` substituted as an expression (line {x.lineno})')
                    return [s]
                if self._hoistable(whole, parents, root, s):
                    if self.dry:
                        return []
                    tmp = self._fresh('_' + h.name.strip('_') + '_value')
                    self.names.add(tmp)
                    call_stmt = ast.copy_location(ast.Assign(targets=[ast.Name(id=tmp, ctx=ast.Store())], value=whole, lineno=s.lineno), s)
                    ast.fix_missing_locations(call_stmt)
                    pre = self._expand(call_stmt, x, h, mode='assign', target=call_stmt.targets[0])
                    self._replace_child(parents.get(id(whole)), whole, ast.copy_location(ast.Name(id=tmp, ctx=ast.Load()), whole), s, root)
                    return pre + [s]
        return None

    @staticmethod
    def _direct_call(v: ast.expr) -> Tuple[Optional[ast.Call], bool]:
        if isinstance(v, ast.Await) and isinstance(v.value, ast.Call):
            return v.value, True
        if isinstance(v, ast.Call):
            return v, False
        return None, False

    @staticmethod
    def _header_exprs(s: ast.stmt) -> List[ast.AST]:
        if isinstance(s, (ast.Assign, ast.AnnAssign, ast.AugAssign, ast.Expr, ast.Return)):
            return [s.value] if getattr(s, 'value', None) is not None else []
        if isinstance(s, (ast.If, ast.While)):
            return [s.test]
        if isinstance(s, (ast.For, ast.AsyncFor)):
            return [s.iter]
        if isinstance(s, (ast.With, ast.AsyncWith)):
            return [i.context_expr for i in s.items]
        if isinstance(s, ast.Raise):
            return [x for x in (s.exc, s.cause) if x is not None]
        if isinstance(s, ast.Assert):
            return [s.test]
        return []

    def _replace_child(self, parent: Optional[ast.AST], old: ast.AST, new: ast.AST, s: ast.stmt, root: ast.AST) -> None:
        if parent is None:      # `old` is the root expression of the statement
            for fld, val in ast.iter_fields(s):
                if val is old:
                    setattr(s, fld, new)
                    return
                if isinstance(val, list):
                    for i, v in enumerate(val):
                        if v is old:
                            val[i] = new
                            return
                        if isinstance(v, ast.withitem) and v.context_expr is old:
                            v.context_expr = new
                            return
            raise _GiveUp()
        for fld, val in ast.iter_fields(parent):
            if val is old:
                setattr(parent, fld, new)
                return
            if isinstance(val, list):
                for i, v in enumerate(val):
                    if v is old:
                        val[i] = new
                        return
        raise _GiveUp()

    @staticmethod
    def _boolean_context(e: ast.AST, parents: Dict[int, ast.AST], root: ast.AST, s: ast.stmt) -> bool:
        p = parents.get(id(e))
        if p is None:
            return isinstance(s, (ast.If, ast.While, ast.Assert)) and e is root
        if isinstance(p, ast.UnaryOp) and isinstance(p.op, ast.Not):
            return True
        if isinstance(p, ast.IfExp) and p.test is e:
            return True
        if isinstance(p, ast.BoolOp):
            return _Inliner._boolean_context(p, parents, root, s)
        return False

    @staticmethod
    def _hoistable(e: ast.AST, parents: Dict[int, ast.AST], root: ast.AST, s: ast.stmt) -> bool:
        if not isinstance(s, (ast.Assign, ast.AnnAssign, ast.AugAssign, ast.Expr, ast.Return, ast.If)):
            return False
        cur = e
        while True:
            p = parents.get(id(cur))
            if p is None:
                return True
            if isinstance(p, (ast.Lambda, ast.ListComp, ast.SetComp, ast.DictComp, ast.GeneratorExp, ast.NamedExpr, ast.comprehension)):
                return False
            if isinstance(p, ast.IfExp) and p.test is not cur:
                return False
            if isinstance(p, ast.BoolOp) and p.values[0] is not cur:
                return False
            cur = p

    # -- which callee ---------------------------------------------------------------------------------
    def _inlinable(self, c: ast.Call, awaited: bool, cm: Optional[str] = None, gen: bool = False) -> Optional[FuncInfo]:
        try:
            tg = self.ty.callees(c, self.scope)
        except RecursionError:
            return None
        if len(tg) != 1 or tg[0][0] != 'func' or not isinstance(tg[0][1], FuncInfo):
            return None
        h: FuncInfo = tg[0][1]
        if h.qualname in self.keep or h is self.f:
            return None
        # the call must name the helper itself: a callable held in a variable / attribute / parameter (whose default happens to
        # be the helper) can be anything at run time
        called = c.func.attr if isinstance(c.func, ast.Attribute) else c.func.id if isinstance(c.func, ast.Name) else None
        if called != h.name:
            return None
        if isinstance(c.func, ast.Attribute) and h.cls is None and not isinstance(self.prog.resolve(self.f.module, c.func), FuncInfo):
            return None
        if isinstance(c.func, ast.Name) and (c.func.id in self._locals):
            return None
        if h.module is not self.f.module and not self._same_globals(h):
            return None     # (a method of a base class defined in another module is as good as a module-level helper, under the same condition)
        if (not h.name.startswith('_') and '<any-name>' not in self.keep) or (h.name.startswith('__') and h.name.endswith('__')):
            return None
        if h.parent is not None or not isinstance(h.node, (ast.FunctionDef, ast.AsyncFunctionDef)):
            return None
        if h.kind not in ('method', 'function', 'staticmethod', 'classmethod'):
            return None
        decs = [dotted(d) for d in h.decorators]
        cm_decs = [d for d in decs if d in CM_DECORATORS]
        if cm is None and cm_decs:
            return None
        if cm is not None and (len(cm_decs) != 1 or CM_DECORATORS[cm_decs[0]] != cm or h.is_async != (cm == 'async')):
            return None
        if any(d not in ('staticmethod', 'classmethod') and d not in CM_DECORATORS for d in decs):
            return None
        if cm is None and h.is_async != awaited:
            return None
        if any(isinstance(a, ast.Starred) for a in c.args):
            return None
        node = h.node
        spreads = [k for k in c.keywords if k.arg is None]
        if spreads:
            # `h(…, **kw)` handed on to a helper that takes `**K` and only spreads K again (`g(…, **K)`): K is the caller's mapping
            kwp = node.args.kwarg.arg if node.args.kwarg else None
            if len(spreads) != 1 or kwp is None or not isinstance(spreads[0].value, ast.Name):
                return None
            k_uses = [x for b in node.body for x in ast.walk(b) if isinstance(x, ast.Name) and x.id == kwp]
            k_spread = [k.value for b in node.body for x in ast.walk(b) if isinstance(x, ast.Call) for k in x.keywords if k.arg is None]
            if any(not isinstance(u.ctx, ast.Load) or not any(u is v for v in k_spread) for u in k_uses):
                return None
        has_yield = _contains(node, (ast.Yield,))
        if gen != has_yield and not cm:
            return None
        if _contains(node, (ast.YieldFrom, ast.Global, ast.Nonlocal)) or \
                any(isinstance(x, (ast.FunctionDef, ast.AsyncFunctionDef, ast.ClassDef)) for b in node.body for x in ast.walk(b)):
            return None
        for x in ast.walk(node):
            if isinstance(x, ast.Name) and x.id in ('super', 'locals', 'vars', '__class__'):
                return None
            if isinstance(x, ast.Call) and x is not c:
                # direct recursion
                if dotted(x.func) in (h.name, f'self.{h.name}', f'cls.{h.name}'):
                    return None
        # receiver
        if h.cls is not None:
            if not isinstance(c.func, ast.Attribute):
                return None
            if h.kind == 'method':
                rt = self.ty.expr(c.func.value, self.scope)
                if not members(rt) or any(m[0] != 'inst' for m in members(rt)):
                    return None
                if not _atomic(c.func.value):
                    return None
        return h

    def _same_globals(self, h: FuncInfo) -> bool:
        """A module-level helper of ANOTHER module can be inlined exactly when every global name it uses denotes the same
        entity in the caller's module (imported under the same name) — or is a builtin in both."""
        local = {p.arg for p in h.params}
        for x in ast.walk(h.node):
            if isinstance(x, ast.Name) and isinstance(x.ctx, (ast.Store, ast.Del)):
                local.add(x.id)
            elif isinstance(x, ast.ExceptHandler) and x.name:
                local.add(x.name)
            elif isinstance(x, ast.comprehension):
                local |= {y.id for y in ast.walk(x.target) if isinstance(y, ast.Name)}
        for b in list(h.node.body) + [d for d in h.node.args.defaults] + [d for d in h.node.args.kw_defaults if d is not None]:
            for x in ast.walk(b):
                if not isinstance(x, ast.Name) or x.id in local:
                    continue
                a = self.prog.module_attr(h.module, x.id) if x.id in h.module.ns else None
                c = self.prog.module_attr(self.f.module, x.id) if x.id in self.f.module.ns else None
                if a is None and c is None and x.id not in h.module.ns and x.id not in self.f.module.ns:
                    continue        # builtin in both
                if a is None or c is None:
                    return False
                if a is c or (isinstance(a, str) and a == c):
                    continue
                if isinstance(a, tuple) and isinstance(c, tuple) and len(a) == 3 and len(c) == 3 and a[1] is c[1] and a[2] is c[2]:
                    continue
                return False
        return True

    # -- parameter binding ----------------------------------------------------------------------------
    def _bind(self, c: ast.Call, h: FuncInfo, allow_pre: bool) -> Tuple[Dict[str, ast.expr], Dict[str, str], List[ast.stmt]]:
        a = h.node.args
        pos = list(a.posonlyargs) + list(a.args)
        defaults: Dict[str, ast.expr] = {}
        for p, d in zip(pos[len(pos) - len(a.defaults):], a.defaults):
            defaults[p.arg] = d
        for p, d in zip(a.kwonlyargs, a.kw_defaults):
            if d is not None:
                defaults[p.arg] = d
        ann = {p.arg: p.annotation for p in pos + list(a.kwonlyargs)}
        bound: Dict[str, ast.expr] = {}
        if h.cls is not None and h.kind in ('method', 'classmethod'):
            if not pos:
                raise _GiveUp()
            recv = c.func.value  # type: ignore[union-attr]
            first = pos.pop(0).arg
            if h.kind == 'method':
                bound[first] = recv
            else:
                rt = self.ty.expr(recv, self.scope)
                if members(rt) and all(m[0] == 'cls' for m in members(rt)):
                    bound[first] = recv
                else:
                    bound[first] = ast.Call(func=ast.Name(id='type', ctx=ast.Load()), args=[copy.deepcopy(recv)], keywords=[])
        args = list(c.args)
        for p in pos:
            if args:
                bound[p.arg] = args.pop(0)
        if args:
            if a.vararg is None:
                raise _GiveUp()
        if a.vararg is not None:
            bound[a.vararg.arg] = ast.Tuple(elts=list(args), ctx=ast.Load())
        extra_kw: List[ast.keyword] = []
        names = {p.arg for p in pos} | {p.arg for p in a.kwonlyargs}
        spread: Optional[ast.expr] = None
        for kw in c.keywords:
            if kw.arg is None:
                spread = kw.value
            elif kw.arg in names and kw.arg not in bound and kw.arg not in {p.arg for p in a.posonlyargs}:
                bound[kw.arg] = kw.value
            elif a.kwarg is not None:
                extra_kw.append(kw)
            else:
                raise _GiveUp()
        if spread is not None and (a.kwarg is None or extra_kw or any(n not in bound for n in names)):
            raise _GiveUp()     # the mapping could carry a named parameter: not decided
        if a.kwarg is not None:
            bound[a.kwarg.arg] = spread if spread is not None else \
                ast.Dict(keys=[ast.Constant(value=k.arg) for k in extra_kw], values=[k.value for k in extra_kw])
        for n in names:
            if n not in bound:
                if n in defaults:
                    bound[n] = defaults[n]
                else:
                    raise _GiveUp()
        stored = {x.id for b in h.node.body for x in ast.walk(b) if isinstance(x, ast.Name) and isinstance(x.ctx, (ast.Store, ast.Del))}
        uses: Dict[str, int] = {}
        for b in h.node.body:
            for x in ast.walk(b):
                if isinstance(x, ast.Name) and isinstance(x.ctx, ast.Load):
                    uses[x.id] = uses.get(x.id, 0) + 1
        subst: Dict[str, ast.expr] = {}
        rename: Dict[str, str] = {}
        pre: List[ast.stmt] = []
        for p, e in bound.items():
            simple = _atomic(e) or (isinstance(e, ast.Tuple) and all(_atomic(x) or not _contains(x, (ast.Call, ast.Await, ast.NamedExpr)) for x in e.elts)
                                    and a.vararg is not None and p == a.vararg.arg)
            if p not in stored and (simple or (uses.get(p, 0) <= 1 and not allow_pre) or
                                    (uses.get(p, 0) == 1 and not _contains(e, (ast.Call, ast.Await, ast.NamedExpr, ast.Yield)))):
                subst[p] = e
                continue
            if p not in stored and not _contains(e, (ast.Call, ast.Await, ast.NamedExpr, ast.Yield)) and not allow_pre:
                subst[p] = e
                continue
            if not allow_pre:
                raise _GiveUp()
            new = p if p not in self.names else self._fresh(p)
            self.names.add(new)
            if new != p:
                rename[p] = new
            tgt = ast.Name(id=new, ctx=ast.Store())
            if ann.get(p) is not None:
                st: ast.stmt = ast.AnnAssign(target=tgt, annotation=copy.deepcopy(ann[p]), value=copy.deepcopy(e), simple=1)
            else:
                st = ast.Assign(targets=[tgt], value=copy.deepcopy(e))
            pre.append(st)
        # callee locals clashing with caller names
        for n in sorted(stored):
            if n in bound and n not in rename and n in subst:
                continue
            if n in rename:
                continue
            if n in bound:
                continue
            if n in self.names:
                new = self._fresh(n)
                rename[n] = new
                self.names.add(new)
        return subst, rename, pre

    def _fresh(self, base: str) -> str:
        k = 0
        n = base + '_h'
        while n in self.names:
            k += 1
            n = f'{base}_h{k}'
        return n

    # -- expression-like helper -----------------------------------------------------------------------
    def _as_expression(self, c: ast.Call, h: FuncInfo, boolean: bool) -> Optional[ast.expr]:
        body = _strip_doc(list(h.node.body))
        e: Optional[ast.expr] = None
        if len(body) == 1 and isinstance(body[0], ast.Return) and body[0].value is not None:
            e = body[0].value
            if boolean and isinstance(e, ast.Call) and dotted(e.func) == 'bool' and len(e.args) == 1 and not e.keywords:
                e = e.args[0]
        elif len(body) == 2 and isinstance(body[0], ast.If) and not body[0].orelse and len(body[0].body) == 1 and \
                isinstance(body[0].body[0], ast.Return) and isinstance(body[1], ast.Return) and \
                body[0].body[0].value is not None and body[1].value is not None:
            e = self._ifexp(body[0].test, body[0].body[0].value, body[1].value, boolean)
        elif len(body) == 1 and isinstance(body[0], ast.If) and len(body[0].body) == 1 and len(body[0].orelse) == 1 and \
                isinstance(body[0].body[0], ast.Return) and isinstance(body[0].orelse[0], ast.Return) and \
                body[0].body[0].value is not None and body[0].orelse[0].value is not None:
            e = self._ifexp(body[0].test, body[0].body[0].value, body[0].orelse[0].value, boolean)
        elif len(body) >= 3 and isinstance(body[-1], ast.Return) and body[-1].value is not None and \
                all(isinstance(b, ast.If) and not b.orelse and len(b.body) == 1 and isinstance(b.body[0], ast.Return) and b.body[0].value is not None
                    for b in body[:-1]):
            # guard clauses: `if T1: return E1` … `return En`  ==  E1 if T1 else (E2 if T2 else … En)
            e = body[-1].value
            for b in reversed(body[:-1]):
                e = self._ifexp(b.test, b.body[0].value, e, boolean)
        if e is None:
            return None
        try:
            subst, rename, pre = self._bind(c, h, allow_pre=False)
        except _GiveUp:
            return None
        if pre or rename:
            return None
        new = _Subst(subst, {}).visit(copy.deepcopy(e))
        return new

    @staticmethod
    def _ifexp(test: ast.expr, a: ast.expr, b: ast.expr, boolean: bool) -> ast.expr:
        def const(x: ast.expr, v: bool) -> bool:
            return isinstance(x, ast.Constant) and x.value is v

        def unbool(x: ast.expr) -> ast.expr:       # bool(X) in a boolean context is X
            if isinstance(x, ast.Call) and dotted(x.func) == 'bool' and len(x.args) == 1 and not x.keywords:
                return x.args[0]
            return x

        def neg(x: ast.expr) -> ast.expr:
            return ast.copy_location(ast.UnaryOp(op=ast.Not(), operand=x), x)
        if boolean:
            a, b = unbool(a), unbool(b)
            if const(a, True) and const(b, False):
                return test
            if const(a, False) and const(b, True):
                return neg(test)
            if const(a, True):        # True if c else B  ==  c or B
                return ast.copy_location(ast.BoolOp(op=ast.Or(), values=[test, b]), test)
            if const(a, False):       # False if c else B  ==  not c and B
                return ast.copy_location(ast.BoolOp(op=ast.And(), values=[neg(test), b]), test)
            if const(b, True):        # A if c else True  ==  not c or A
                return ast.copy_location(ast.BoolOp(op=ast.Or(), values=[neg(test), a]), test)
            if const(b, False):       # A if c else False  ==  c and A
                return ast.copy_location(ast.BoolOp(op=ast.And(), values=[test, a]), test)
        return ast.copy_location(ast.IfExp(test=test, body=a, orelse=b), test)

    # -- statement-level expansion ---------------------------------------------------------------------
    def _expand(self, s: ast.stmt, c: ast.Call, h: FuncInfo, mode: str, target: Optional[ast.expr],
                ann: Optional[ast.expr] = None) -> Optional[List[ast.stmt]]:
        body = _strip_doc(list(h.node.body))
        if self.dry:
            # feasibility only
            self._bind(c, h, allow_pre=True)
            if mode != 'tail':
                self._elim(copy.deepcopy(body), lambda v, like: [])
            return []
        saved_names = set(self.names)
        try:
            subst, rename, pre = self._bind(c, h, allow_pre=True)
            # return-variable trick: the helper's result variable takes the name of the assignment target
            drop_self_assign = False
            if mode == 'assign' and isinstance(target, ast.Name):
                rets = [x for b in body for x in ast.walk(b) if isinstance(x, ast.Return)]
                rn = {x.value.id for x in rets if isinstance(x.value, ast.Name)} if rets and all(isinstance(x.value, ast.Name) for x in rets) else set()
                if len(rn) == 1:
                    r = next(iter(rn))
                    stored = {x.id for b in body for x in ast.walk(b) if isinstance(x, ast.Name) and isinstance(x.ctx, ast.Store)}
                    arg_names = {x.id for e in subst.values() for x in ast.walk(e) if isinstance(x, ast.Name)}
                    others = (stored | set(subst)) - {r}
                    if r in stored and r not in subst and target.id not in arg_names and target.id not in others and \
                            target.id not in {v for k, v in rename.items() if k != r}:
                        rename[r] = target.id
                        drop_self_assign = True
            body2 = _fold([_Subst(subst, rename).visit(copy.deepcopy(b)) for b in body])
            for p in pre:
                ast.copy_location(p, s)
                ast.fix_missing_locations(p)
            if mode == 'tail':
                out = pre + body2
                if not _definitely_exits(body2):
                    out.append(ast.copy_location(ast.Return(value=ast.copy_location(ast.Constant(value=None), s)), s))
            else:
                def mk(v: Optional[ast.expr], like: ast.AST) -> List[ast.stmt]:
                    val = v if v is not None else ast.Constant(value=None)
                    if mode == 'expr':
                        if _contains(val, (ast.Call, ast.Await)):
                            st: ast.stmt = ast.Expr(value=val)
                        else:
                            return []
                    elif drop_self_assign and isinstance(val, ast.Name) and isinstance(target, ast.Name) and val.id == target.id:
                        return []
                    elif ann is not None:
                        st = ast.AnnAssign(target=copy.deepcopy(target), annotation=copy.deepcopy(ann), value=val, simple=1)
                    else:
                        st = ast.Assign(targets=[copy.deepcopy(target)], value=val)
                    ast.copy_location(st, like)
                    ast.fix_missing_locations(st)
                    return [st]
                if mode == 'assign' and not _definitely_exits(body2):
                    body2 = body2 + [ast.copy_location(ast.Return(value=None), s)]    # falling off the end returns None
                out2 = self._elim(body2, mk)
                out = pre + out2
            if not out:
                out = [ast.copy_location(ast.Pass(), s)]
            self.log.append(f'{self.f.qualname}: `{h.name}` inlined ({mode}, line {c.lineno})')
            return out
        except _GiveUp:
            self.names = saved_names
            raise

    def _expand_cm(self, s: ast.stmt, c: ast.Call, h: FuncInfo) -> Optional[List[ast.stmt]]:
        """`with h(args) [as v][, more]: BLOCK`  ->  h's body with its single `yield [X]` statement replaced by `[v = X;] BLOCK`.
        Exact when the generator has exactly one yield, as a statement outside any loop, no `return`, and — if BLOCK can leave
        by return/break/continue — nothing but handlers / finally clauses follows the yield (the code after the yield runs in
        __exit__ on those exits, but would be skipped by the jump once inlined)."""
        body = _strip_doc(list(h.node.body))
        ys = [x for b in body for x in ast.walk(b) if isinstance(x, (ast.Yield, ast.YieldFrom))]
        if len(ys) != 1 or not isinstance(ys[0], ast.Yield) or _has_return(body):
            return None
        item = s.items[0]
        if item.optional_vars is not None and not isinstance(item.optional_vars, ast.Name):
            return None

        def locate(stmts: List[ast.stmt], trailing: bool) -> Optional[bool]:
            """None: not here; otherwise whether code follows the yield on the normal path"""
            for i, st in enumerate(stmts):
                if isinstance(st, ast.Expr) and st.value is ys[0]:
                    return trailing or i + 1 < len(stmts)
                if isinstance(st, (ast.For, ast.AsyncFor, ast.While)):
                    if any(x is ys[0] for x in ast.walk(st)):
                        raise _GiveUp()
                    continue
                more = trailing or i + 1 < len(stmts)
                if isinstance(st, ast.Try):
                    r = locate(st.body, more or bool(st.orelse))
                    if r is not None:
                        return r
                    for part in [st.orelse, st.finalbody] + [hd.body for hd in st.handlers]:
                        if any(x is ys[0] for b in part for x in ast.walk(b)):
                            raise _GiveUp()
                elif isinstance(st, (ast.If, ast.With, ast.AsyncWith)):
                    for part in (st.body, getattr(st, 'orelse', [])):
                        r = locate(part, more)
                        if r is not None:
                            return r
                elif any(x is ys[0] for x in ast.walk(st)):
                    raise _GiveUp()
            return None
        trailing = locate(body, False)
        if trailing is None:
            return None
        jumps = _contains(ast.Module(body=s.body, type_ignores=[]), (ast.Return,)) or self._loop_jumps(s.body)
        if trailing and jumps:
            return None
        hnames = {x.name for b in body for x in ast.walk(b) if isinstance(x, ast.ExceptHandler) and x.name}
        if hnames & {x.id for b in s.body for x in ast.walk(b) if isinstance(x, ast.Name)}:
            return None
        if self.dry:
            self._bind(c, h, allow_pre=True)
            return []
        saved_names = set(self.names)
        try:
            subst, rename, pre = self._bind(c, h, allow_pre=True)
            body_c = copy.deepcopy(body)
            # find the yield statement in the copy by position
            orig_nodes = [x for b in body for x in ast.walk(b)]
            copy_nodes = [x for b in body_c for x in ast.walk(b)]
            ycopy = copy_nodes[[i for i, x in enumerate(orig_nodes) if x is ys[0]][0]]
            yval = ycopy.value
            ycopy.value = None
            body2 = _fold([_Subst(subst, rename).visit(b) for b in body_c])
            block: List[ast.stmt] = []
            if item.optional_vars is not None:
                v = _Subst(subst, rename).visit(yval) if yval is not None else ast.Constant(value=None)
                st = ast.Assign(targets=[copy.deepcopy(item.optional_vars)], value=v)
                ast.copy_location(st, s)
                ast.fix_missing_locations(st)
                block.append(st)
            elif yval is not None and _contains(yval, (ast.Call, ast.Await)):
                st2 = ast.Expr(value=_Subst(subst, rename).visit(yval))
                ast.copy_location(st2, s)
                ast.fix_missing_locations(st2)
                block.append(st2)
            if len(s.items) > 1:
                inner = copy.copy(s)
                inner.items = s.items[1:]
                block.append(inner)
            else:
                block += s.body

            def put(stmts: List[ast.stmt]) -> bool:
                for i, st in enumerate(stmts):
                    if isinstance(st, ast.Expr) and st.value is ycopy:
                        stmts[i:i + 1] = block
                        return True
                    for fld in ('body', 'orelse', 'finalbody'):
                        sub = getattr(st, fld, None)
                        if isinstance(sub, list) and sub and isinstance(sub[0], ast.stmt) and put(sub):
                            return True
                    if isinstance(st, ast.Try):
                        for hd in st.handlers:
                            if put(hd.body):
                                return True
                return False
            if not put(body2):
                raise _GiveUp()
            for p in pre:
                ast.copy_location(p, s)
                ast.fix_missing_locations(p)
            self.log.append(f'{self.f.qualname}: context manager `{h.name}` inlined around the block (line {c.lineno})')
            return pre + body2
        except _GiveUp:
            self.names = saved_names
            raise

    def _expand_gen(self, s: ast.For, c: ast.Call, h: FuncInfo) -> Optional[List[ast.stmt]]:
        """for T in h(args): BODY  ->  h's body with every statement `yield E` replaced by `T = E; BODY`.
        Exact when the generator yields only in statement position, never returns explicitly and has no try/finally or with around a
        yield (the consumer runs to exhaustion: BODY has no break / return / yield), and BODY has no `continue` (it would have to
        resume the generator)."""
        body = _strip_doc(list(h.node.body))
        if _has_return(body) or h.is_async:
            return None
        ys = [x for b in body for x in ast.walk(b) if isinstance(x, ast.Yield)]
        if not ys or len(ys) > 3:
            return None
        ystmts = [x for b in body for x in ast.walk(b) if isinstance(x, ast.Expr) and isinstance(x.value, ast.Yield)]
        if len(ystmts) != len(ys):
            return None
        for b in body:
            for x in ast.walk(b):
                if isinstance(x, (ast.With, ast.AsyncWith)) and any(isinstance(y, ast.Yield) for y in ast.walk(x)):
                    return None
                if isinstance(x, ast.Try) and x.finalbody and any(isinstance(y, ast.Yield) for y in ast.walk(x)):
                    return None
                if isinstance(x, ast.Try) and any(isinstance(y, ast.Yield) for part in [x.body] for st_ in part for y in ast.walk(st_)):
                    return None     # an exception of BODY would be caught by the generator's handler once inlined
        loop_body = ast.Module(body=s.body, type_ignores=[])
        if _contains(loop_body, (ast.Return, ast.Yield, ast.YieldFrom, ast.Await)) and _contains(loop_body, (ast.Return, ast.Yield, ast.YieldFrom)):
            return None
        if self._loop_jumps(s.body):
            return None
        if not isinstance(s.target, (ast.Name, ast.Tuple)):
            return None
        if self.dry:
            self._bind(c, h, allow_pre=True)
            return []
        saved_names = set(self.names)
        try:
            subst, rename, pre = self._bind(c, h, allow_pre=True)
            body_c = copy.deepcopy(body)
            ycopies = [x for b in body_c for x in ast.walk(b) if isinstance(x, ast.Expr) and isinstance(x.value, ast.Yield)]
            marks = {id(x) for x in ycopies}
            vals = {id(x): x.value.value for x in ycopies}     # type: ignore[union-attr]
            for x in ycopies:
                x.value = ast.Constant(value=None)
            body2 = _fold([_Subst(subst, rename).visit(b) for b in body_c])

            def put(stmts: List[ast.stmt]) -> None:
                i = 0
                while i < len(stmts):
                    st = stmts[i]
                    if id(st) in marks:
                        v = vals[id(st)]
                        v = _Subst(subst, rename).visit(v) if v is not None else ast.Constant(value=None)
                        asg = ast.Assign(targets=[copy.deepcopy(s.target)], value=v)
                        ast.copy_location(asg, st)
                        ast.fix_missing_locations(asg)
                        blk = [asg] + copy.deepcopy(s.body)
                        stmts[i:i + 1] = blk
                        i += len(blk)
                        continue
                    for fld in ('body', 'orelse', 'finalbody'):
                        sub = getattr(st, fld, None)
                        if isinstance(sub, list) and sub and isinstance(sub[0], ast.stmt):
                            put(sub)
                    if isinstance(st, ast.Try):
                        for hd in st.handlers:
                            put(hd.body)
                    i += 1
            put(body2)
            for p in pre:
                ast.copy_location(p, s)
                ast.fix_missing_locations(p)
            self.log.append(f'{self.f.qualname}: generator `{h.name}` inlined into its consuming loop (line {c.lineno})')
            return pre + body2
        except _GiveUp:
            self.names = saved_names
            raise

    @staticmethod
    def _loop_jumps(stmts: Sequence[ast.stmt]) -> bool:
        """break/continue in `stmts` that target a loop outside them"""
        stack = list(stmts)
        while stack:
            n = stack.pop()
            if isinstance(n, (ast.Break, ast.Continue)):
                return True
            if isinstance(n, (ast.For, ast.AsyncFor, ast.While, ast.FunctionDef, ast.AsyncFunctionDef, ast.ClassDef, ast.Lambda)):
                if isinstance(n, (ast.For, ast.AsyncFor, ast.While)):
                    stack += n.orelse
                continue
            stack += list(ast.iter_child_nodes(n))
        return False

    def _elim(self, stmts: List[ast.stmt], mk) -> List[ast.stmt]:
        out: List[ast.stmt] = []
        for i, s in enumerate(stmts):
            rest = stmts[i + 1:]
            if isinstance(s, ast.Return):
                out += mk(s.value, s)
                return out
            if not _contains(s, (ast.Return,)):
                out.append(s)
                continue
            if isinstance(s, ast.If):
                b_def, o_def = _definitely_exits(s.body), _definitely_exits(s.orelse)
                if b_def and o_def:
                    s.body, s.orelse = self._elim(s.body, mk) or [ast.copy_location(ast.Pass(), s)], self._elim(s.orelse, mk)
                elif b_def:
                    s.body, s.orelse = self._elim(s.body, mk) or [ast.copy_location(ast.Pass(), s)], self._elim(s.orelse + rest, mk)
                elif o_def:
                    s.body, s.orelse = self._elim(s.body + rest, mk) or [ast.copy_location(ast.Pass(), s)], self._elim(s.orelse, mk)
                else:
                    s.body, s.orelse = (self._elim(s.body + copy.deepcopy(rest), mk) or [ast.copy_location(ast.Pass(), s)],
                                        self._elim(s.orelse + rest, mk))
                out.append(s)
                return out
            if isinstance(s, (ast.With, ast.AsyncWith)):
                if rest:
                    raise _GiveUp()
                s.body = self._elim(s.body, mk) or [ast.copy_location(ast.Pass(), s)]
                out.append(s)
                return out
            if isinstance(s, ast.Try):
                if rest or _has_return(s.finalbody) or (s.orelse and _has_return(s.body)):
                    raise _GiveUp()
                s.body = self._elim(s.body, mk) or [ast.copy_location(ast.Pass(), s)]
                for hd in s.handlers:
                    hd.body = self._elim(hd.body, mk) or [ast.copy_location(ast.Pass(), hd)]
                s.orelse = self._elim(s.orelse, mk)
                out.append(s)
                return out
            raise _GiveUp()
        return out
