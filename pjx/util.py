"""Shared syntactic / CFG helpers for the rules."""
from __future__ import annotations

import ast
from typing import Dict, Iterable, Iterator, List, Optional, Sequence, Set, Tuple

from .cfg import CFG, Edge, Node
from .model import AnalysisError, ClassInfo, FuncInfo, Program, dotted, norm
from .types import FuncScope, Types, members, types_of, walk_own


def node_exprs(n: Node) -> List[ast.AST]:
    """AST fragments evaluated when control passes through CFG node n."""
    a = n.ast
    if a is None:
        return []
    if n.kind in ('cond', 'iter'):
        return [a]
    if n.kind == 'next':
        return [a.target]
    if n.kind == 'with':
        return [i.context_expr for i in a.items]
    if n.kind == 'handler':
        return []
    if isinstance(a, (ast.FunctionDef, ast.AsyncFunctionDef, ast.ClassDef)):
        return list(a.decorator_list)
    return [a]


def walk_no_defs(root: ast.AST) -> Iterator[ast.AST]:
    stack = [root]
    while stack:
        n = stack.pop()
        yield n
        for ch in ast.iter_child_nodes(n):
            if isinstance(ch, (ast.FunctionDef, ast.AsyncFunctionDef, ast.ClassDef, ast.Lambda)):
                continue
            stack.append(ch)


def calls_in(n: Node) -> List[ast.Call]:
    out = []
    for frag in node_exprs(n):
        for x in walk_no_defs(frag):
            if isinstance(x, ast.Call):
                out.append(x)
    return out


def names_in(e: ast.AST) -> Set[str]:
    return {x.id for x in ast.walk(e) if isinstance(x, ast.Name)}


def assigned_names(n: Node) -> Set[str]:
    """Names (and dotted attribute chains) assigned by node n."""
    a = n.ast
    out: Set[str] = set()
    if a is None:
        return out

    def tg(t: ast.AST) -> None:
        if isinstance(t, (ast.Tuple, ast.List)):
            for el in t.elts:
                tg(el.value if isinstance(el, ast.Starred) else el)
        else:
            d = dotted(t)
            if d:
                out.add(d)
    if n.kind == 'next':
        tg(a.target)
    elif n.kind == 'with':
        for i in a.items:
            if i.optional_vars is not None:
                tg(i.optional_vars)
    elif n.kind == 'handler':
        if isinstance(a, ast.ExceptHandler) and a.name:
            out.add(a.name)
    elif isinstance(a, ast.Assign):
        for t in a.targets:
            tg(t)
    elif isinstance(a, (ast.AnnAssign, ast.AugAssign)):
        if not (isinstance(a, ast.AnnAssign) and a.value is None):
            tg(a.target)
    for frag in node_exprs(n):
        for x in walk_no_defs(frag):
            if isinstance(x, ast.NamedExpr):
                out.add(x.target.id)
    return out


def guard_edges(cfg: CFG, n: Node) -> List[Edge]:
    """Cond edges (T/F) that dominate node n: every entry->n path takes the edge."""
    out = []
    live = cfg.live_nodes()
    for c in cfg.nodes:
        if c.kind != 'cond' or c.id not in live:
            continue
        for e in cfg.succ[c.id]:
            if e.label in ('T', 'F') and n.id in cfg.reachable(e.dst) | {e.dst.id}:
                others = [x for x in cfg.succ[c.id] if x is not e and x.label != 'exc']
                # n not reachable from entry when this edge is removed
                if n.id not in cfg.reachable(cfg.entry, avoid_edges=[e]):
                    out.append(e)
    return out


def edge_postdominated_by(cfg: CFG, e: Edge, targets: Sequence[Node], normal_only: bool = True) -> bool:
    """Every path from edge e to the normal exit passes one of `targets`."""
    if e.dst in targets:
        return True
    reach = cfg.reachable(e.dst, avoid_nodes=targets,
                          edge_ok=(lambda x: x.label != 'exc') if normal_only else None)
    return cfg.exit.id not in reach


class CondKind:
    """Classification of an atomic condition expression."""

    def __init__(self, kind: str, subject: Optional[str], negated: bool = False, detail: str = ''):
        self.kind = kind          # 'is-unset' 'is-none' 'truthy' 'isinstance' 'len-cmp' 'other'
        self.subject = subject    # dotted subject or None
        self.negated = negated    # True for `is not`
        self.detail = detail

    def __repr__(self) -> str:
        return f'{"not " if self.negated else ""}{self.kind}({self.subject})'


def single_defs(f: FuncInfo) -> Dict[str, ast.expr]:
    """Locals of f that are assigned exactly once (plain or annotated assignment to a bare name) and are not parameters."""
    cached = f.__dict__.get('_single_defs')
    if cached is not None:
        return cached
    counts: Dict[str, int] = {}
    vals: Dict[str, ast.expr] = {}
    params = {p.arg for p in f.params}
    for x in walk_own(f.node):
        if isinstance(x, ast.Name) and isinstance(x.ctx, (ast.Store, ast.Del)):
            counts[x.id] = counts.get(x.id, 0) + 1
        if isinstance(x, ast.Assign) and len(x.targets) == 1 and isinstance(x.targets[0], ast.Name):
            vals[x.targets[0].id] = x.value
        elif isinstance(x, ast.AnnAssign) and isinstance(x.target, ast.Name) and x.value is not None:
            vals[x.target.id] = x.value
        elif isinstance(x, ast.Assign) and len(x.targets) == 1 and isinstance(x.targets[0], (ast.Tuple, ast.List)) and \
                isinstance(x.value, (ast.Tuple, ast.List)) and len(x.targets[0].elts) == len(x.value.elts) and \
                all(isinstance(t, ast.Name) for t in x.targets[0].elts) and not any(isinstance(v_, ast.Starred) for v_ in x.value.elts):
            # a, b = X, Y  (parallel assignment of displays)
            tn = {t.id for t in x.targets[0].elts}      # type: ignore[attr-defined]
            if not any(isinstance(y, ast.Name) and y.id in tn for v_ in x.value.elts for y in ast.walk(v_)):
                for t, v_ in zip(x.targets[0].elts, x.value.elts):
                    vals[t.id] = v_      # type: ignore[attr-defined]
    out = {k: v for k, v in vals.items() if counts.get(k, 0) == 1 and k not in params}
    f.__dict__['_single_defs'] = out
    return out


def canon_expr(f: Optional[FuncInfo], e: ast.AST, _depth: int = 0) -> ast.AST:
    """`e` with a leading local that is a pure alias (`ctx_name = self.context`, assigned once) replaced by what it stands for."""
    if f is None or _depth > 4:
        return e
    parts: List[str] = []
    root = e
    while isinstance(root, ast.Attribute):
        parts.append(root.attr)
        root = root.value
    if isinstance(root, ast.Name) and isinstance(getattr(root, 'ctx', ast.Load()), ast.Load):
        v = single_defs(f).get(root.id)
        if v is not None and _pure_path(v) and norm(v) != root.id:
            base = canon_expr(f, v, _depth + 1)
            out: ast.AST = base
            for a in reversed(parts):
                out = ast.Attribute(value=out, attr=a, ctx=ast.Load())
            return ast.copy_location(out, e) if hasattr(e, 'lineno') else out
    return e


def canon_deep(f: Optional[FuncInfo], e: ast.AST, _depth: int = 0) -> ast.AST:
    """`e` with every local that is assigned once and stands for a pure path (`empty = inspect.Parameter.empty`, `annotation =
    param.annotation`) or for a condition (`has_default = param.default is not empty`) replaced by what it stands for, recursively."""
    if f is None or _depth > 5:
        return e
    sd = single_defs(f)
    import copy as _copy

    class _T(ast.NodeTransformer):
        def visit_Name(self, n: ast.Name) -> ast.AST:
            if isinstance(n.ctx, ast.Load) and n.id in sd:
                v = sd[n.id]
                if norm(v) != n.id and (_pure_path(v) or isinstance(v, ast.Constant) or
                                        isinstance(v, ast.Compare) and all(_pure_path(x) or isinstance(x, ast.Constant) or
                                                                           isinstance(canon_deep(f, x, _depth + 1), (ast.Attribute, ast.Name, ast.Constant))
                                                                           for x in [v.left] + list(v.comparators))):
                    return canon_deep(f, _copy.deepcopy(v), _depth + 1)
            return n
    return _T().visit(_copy.deepcopy(e))


def canon_deep_text(f: Optional[FuncInfo], e: ast.AST) -> str:
    return norm(canon_deep(f, e))


def _pure_path(v: ast.AST) -> bool:
    """Name / attribute / constant-or-name subscript chain: evaluating it again gives the same object (no calls)."""
    if isinstance(v, ast.Name):
        return True
    if isinstance(v, ast.Attribute):
        return _pure_path(v.value)
    if isinstance(v, ast.Subscript):
        sl = v.slice
        ok_sl = isinstance(sl, (ast.Constant, ast.Name)) or (isinstance(sl, ast.Tuple) and all(isinstance(x, (ast.Constant, ast.Name)) for x in sl.elts))
        return ok_sl and _pure_path(v.value)
    return False


def canon_text(f: Optional[FuncInfo], e: ast.AST) -> str:
    return norm(canon_expr(f, e))


def canon_dotted(f: Optional[FuncInfo], e: ast.AST) -> Optional[str]:
    return dotted(canon_expr(f, e))


def _flag_expr(f: FuncInfo, e: ast.expr) -> Optional[ast.expr]:
    """A local boolean flag (`has_ctx = ctx_name is not None`, assigned once) stands for its defining condition."""
    if isinstance(e, ast.Name):
        v = single_defs(f).get(e.id)
        if isinstance(v, (ast.Compare, ast.BoolOp)) or (isinstance(v, ast.UnaryOp) and isinstance(v.op, ast.Not)) or \
                (isinstance(v, ast.Call) and dotted(v.func) in ('isinstance', 'hasattr', 'callable', 'bool')):
            return v
    return None


def classify_cond(prog: Program, f: FuncInfo, e: ast.expr) -> CondKind:
    from .absint import Interp  # local import to avoid cycle
    fl_ = _flag_expr(f, e) if f is not None else None
    if fl_ is not None:
        if isinstance(fl_, ast.Call) and dotted(fl_.func) == 'bool' and len(fl_.args) == 1:
            return classify_cond(prog, f, fl_.args[0])
        if not isinstance(fl_, ast.BoolOp):
            return classify_cond(prog, f, fl_)
    return _canon_kind(f, _classify_cond(prog, f, e))


def _canon_kind(f: FuncInfo, k: 'CondKind') -> 'CondKind':
    if f is None or not k.subject:
        return k
    root = k.subject.split('.')[0]
    v = single_defs(f).get(root)
    if v is not None and dotted(v) is not None and dotted(v) != root:
        try:
            tree = ast.parse(k.subject, mode='eval').body
        except SyntaxError:
            return k
        c = canon_dotted(f, tree)
        if c:
            return CondKind(k.kind, c, k.negated, k.detail)
    return k


def _classify_cond(prog: Program, f: FuncInfo, e: ast.expr) -> CondKind:
    from .absint import Interp  # local import to avoid cycle
    if isinstance(e, ast.UnaryOp) and isinstance(e.op, ast.Not):
        inner = classify_cond(prog, f, e.operand)
        return CondKind(inner.kind, inner.subject, not inner.negated, inner.detail)
    if isinstance(e, ast.Compare) and len(e.ops) == 1:
        op, l, r = e.ops[0], e.left, e.comparators[0]
        if isinstance(op, (ast.Is, ast.IsNot)):
            for a, b in ((l, r), (r, l)):
                subj = a.target.id if isinstance(a, ast.NamedExpr) else dotted(a)     # `(x := f()) is None` tests x
                if isinstance(b, ast.Constant) and b.value is None:
                    return CondKind('is-none', subj, isinstance(op, ast.IsNot))
                if is_unset_expr(prog, f, b):
                    return CondKind('is-unset', subj, isinstance(op, ast.IsNot))
        if isinstance(l, ast.Call) and dotted(l.func) == 'len' and l.args:
            return CondKind('len-cmp', dotted(l.args[0]), False, norm(e))
        if isinstance(op, (ast.Eq, ast.NotEq)):
            return CondKind('eq', dotted(l), isinstance(op, ast.NotEq), norm(r))
        return CondKind('other', dotted(l), False, norm(e))
    if isinstance(e, ast.Call) and dotted(e.func) == 'isinstance' and len(e.args) == 2:
        tp = e.args[1]
        elts = tp.elts if isinstance(tp, ast.Tuple) else [tp]
        names = []
        for x in elts:
            ent = prog.resolve(f.module, x)
            names.append(ent.qualname if isinstance(ent, ClassInfo) else (ent if isinstance(ent, str) else norm(x)))
        if len(names) == 1 and names[0] == 'pjrpc.common.common.UnsetType':
            return CondKind('is-unset', dotted(e.args[0]), False, 'isinstance')
        return CondKind('isinstance', dotted(e.args[0]), False, ','.join(sorted(map(str, names))))
    if isinstance(e, (ast.Name, ast.Attribute)):
        return CondKind('truthy', dotted(e))
    if isinstance(e, ast.NamedExpr):
        return CondKind('truthy', e.target.id)
    return CondKind('other', None, False, norm(e))


def is_unset_expr(prog: Program, f: FuncInfo, e: ast.AST) -> bool:
    if not isinstance(e, (ast.Name, ast.Attribute)):
        return False
    ty = types_of(prog)
    if isinstance(e, ast.Name) and ty.local_type(f, e.id) is not None:
        return False
    ent = prog.resolve(f.module, e)
    if isinstance(ent, tuple) and ent[0] == 'value' and isinstance(ent[2], ast.Call):
        t = prog.resolve(ent[1], ent[2].func)
        return isinstance(t, ClassInfo) and t.qualname == 'pjrpc.common.common.UnsetType'
    return False


def const_value(prog: Program, f: FuncInfo, e: ast.AST, recv: Optional[ClassInfo] = None) -> Tuple[bool, object]:
    """(known, value) for constants, class constants (`cls.version`, `self.version`) and module constants."""
    if isinstance(e, ast.Constant):
        return True, e.value
    if isinstance(e, ast.UnaryOp) and isinstance(e.op, ast.USub) and isinstance(e.operand, ast.Constant):
        return True, -e.operand.value
    if isinstance(e, ast.Attribute) and isinstance(e.value, ast.Name) and e.value.id in ('self', 'cls') and recv is not None:
        for c in prog.mro(recv):
            if isinstance(c, ClassInfo) and e.attr in c.attrs:
                return const_value(prog, f, c.attrs[e.attr], recv)
        return False, None
    if isinstance(e, (ast.Name, ast.Attribute)):
        ty = types_of(prog)
        if isinstance(e, ast.Name) and ty.local_type(f, e.id) is not None:
            return False, None
        ent = prog.resolve(f.module, e)
        if isinstance(ent, tuple) and ent[0] == 'value':
            return const_value(prog, f, ent[2], None)
    if isinstance(e, ast.Tuple):
        vals = [const_value(prog, f, x, recv) for x in e.elts]
        if all(k for k, _ in vals):
            return True, tuple(v for _, v in vals)
    return False, None


class KeyWrite:
    def __init__(self, key: str, node: Node, value: Optional[ast.expr], var: Optional[str], extra=None):
        self.key = key
        self.node = node
        self.value = value
        self.var = var
        self.extra = list(extra or [])     # expression-level conditions of the write: [(cond, polarity)] (`**({k: v} if c else {})`)

    def __repr__(self) -> str:
        return f'<write {self.key!r} @{self.node.line}>'


def key_writes(cfg: CFG) -> List[KeyWrite]:
    """String keys written into dict values built in the function (literals, .update(k=v), d['k'] = v)."""
    out: List[KeyWrite] = []
    for n in cfg.stmt_nodes():
        a = n.ast
        if n.kind != 'stmt':
            continue
        tgt_var: Optional[str] = None
        val: Optional[ast.expr] = None
        if isinstance(a, ast.Assign) and len(a.targets) == 1:
            tgt_var, val = dotted(a.targets[0]), a.value
            if isinstance(a.targets[0], ast.Subscript):
                s = a.targets[0]
                if isinstance(s.slice, ast.Constant) and isinstance(s.slice.value, str):
                    out.append(KeyWrite(s.slice.value, n, a.value, dotted(s.value)))
                continue
        elif isinstance(a, ast.AnnAssign) and a.value is not None:
            tgt_var, val = dotted(a.target), a.value
        elif isinstance(a, ast.Return) and a.value is not None:
            tgt_var, val = '<return>', a.value
        elif isinstance(a, ast.Expr):
            val = a.value
        if val is None:
            continue
        if isinstance(val, ast.IfExp):
            # `return {..} if c else {..}` / `x = {..} if c else y`: each arm's display is written under the arm's condition
            def arms(e: ast.expr, extra) -> None:
                if isinstance(e, ast.IfExp):
                    arms(e.body, extra + [(e.test, True)])
                    arms(e.orelse, extra + [(e.test, False)])
                elif isinstance(e, ast.Dict):
                    for k2, v2 in zip(e.keys, e.values):
                        if isinstance(k2, ast.Constant) and isinstance(k2.value, str):
                            out.append(KeyWrite(k2.value, n, v2, tgt_var, extra))
            arms(val, [])
        if isinstance(val, ast.Dict):
            for k, v in zip(val.keys, val.values):
                if isinstance(k, ast.Constant) and isinstance(k.value, str):
                    out.append(KeyWrite(k.value, n, v, tgt_var))
                elif k is None:
                    # `**{...}` / `**({...} if cond else {})` merged into the literal
                    def merged(e: ast.expr, extra) -> None:
                        if isinstance(e, ast.Dict):
                            for k2, v2 in zip(e.keys, e.values):
                                if isinstance(k2, ast.Constant) and isinstance(k2.value, str):
                                    out.append(KeyWrite(k2.value, n, v2, tgt_var, extra))
                        elif isinstance(e, ast.IfExp):
                            merged(e.body, extra + [(e.test, True)])
                            merged(e.orelse, extra + [(e.test, False)])
                    merged(v, [])
        elif isinstance(val, ast.Call) and isinstance(val.func, ast.Name) and val.func.id == 'dict' and not val.args:
            for kw in val.keywords:
                if kw.arg:
                    out.append(KeyWrite(kw.arg, n, kw.value, tgt_var))
        for x in walk_no_defs(val):
            if isinstance(x, ast.Call) and isinstance(x.func, ast.Attribute) and x.func.attr in ('update', 'setdefault'):
                var = dotted(x.func.value)
                for kw in x.keywords:
                    if kw.arg:
                        out.append(KeyWrite(kw.arg, n, kw.value, var))
                for arg in x.args:
                    if isinstance(arg, ast.Dict):
                        for k, v in zip(arg.keys, arg.values):
                            if isinstance(k, ast.Constant) and isinstance(k.value, str):
                                out.append(KeyWrite(k.value, n, v, var))
                    elif x.func.attr == 'setdefault' and isinstance(arg, ast.Constant) and isinstance(arg.value, str):
                        out.append(KeyWrite(arg.value, n, x.args[1] if len(x.args) > 1 else None, var))
                        break
    return out


class KeyRead:
    def __init__(self, key: str, node: Node, how: str, default: Optional[ast.expr], var: Optional[str], expr: ast.AST):
        self.key = key
        self.node = node
        self.how = how            # 'subscript' | 'get'
        self.default = default
        self.var = var
        self.expr = expr

    def __repr__(self) -> str:
        return f'<read {self.key!r} {self.how} @{self.node.line}>'


def key_reads(cfg: CFG) -> List[KeyRead]:
    out: List[KeyRead] = []
    for n in cfg.stmt_nodes():
        for frag in node_exprs(n):
            for x in walk_no_defs(frag):
                if isinstance(x, ast.Subscript) and isinstance(x.ctx, ast.Load) and isinstance(x.slice, ast.Constant) \
                        and isinstance(x.slice.value, str):
                    out.append(KeyRead(x.slice.value, n, 'subscript', None, dotted(x.value), x))
                elif isinstance(x, ast.Call) and isinstance(x.func, ast.Attribute) and x.func.attr == 'get' and x.args \
                        and isinstance(x.args[0], ast.Constant) and isinstance(x.args[0].value, str):
                    out.append(KeyRead(x.args[0].value, n, 'get', x.args[1] if len(x.args) > 1 else None,
                                       dotted(x.func.value), x))
    return out


def find_calls(prog: Program, f: FuncInfo, pred) -> List[Tuple[ast.Call, List[Tuple[str, object]]]]:
    """Calls in f (own body) whose resolved targets satisfy pred(kind, obj)."""
    ty = types_of(prog)
    sc = FuncScope(f, ty)
    out = []
    for x in walk_own(f.node):
        if isinstance(x, ast.Call):
            try:
                tg = ty.callees(x, sc)
            except RecursionError:
                tg = []
            if any(pred(k, o) for k, o in tg):
                out.append((x, tg))
    return out


def stmt_node_of(cfg: CFG, sub: ast.AST) -> Optional[Node]:
    """CFG node whose fragment contains AST node `sub`."""
    for n in cfg.nodes:
        for frag in node_exprs(n):
            for x in ast.walk(frag):
                if x is sub:
                    return n
    return None


def self_method_calls(prog: Program, f: FuncInfo) -> List[Tuple[ast.Call, FuncInfo]]:
    ty = types_of(prog)
    sc = FuncScope(f, ty)
    out = []
    for x in walk_own(f.node):
        if isinstance(x, ast.Call):
            for k, o in ty.callees(x, sc):
                if k == 'func' and isinstance(o, FuncInfo) and o.cls is not None:
                    out.append((x, o))
    return out


def short(q: str) -> str:
    parts = q.split('.')
    return '.'.join(parts[-2:]) if len(parts) > 1 else q


def bound_args(callee, call: ast.Call, skip_first: bool = True) -> Optional[Dict[str, ast.expr]]:
    """The call's arguments by parameter name of `callee` (a FuncInfo), positional and keyword forms alike; None when the call spreads
    (`*a` / `**k`) or names a parameter the callee does not have."""
    a = callee.node.args
    pos = [p.arg for p in list(a.posonlyargs) + list(a.args)]
    if skip_first and pos:
        pos = pos[1:]
    names = set(pos) | {p.arg for p in a.kwonlyargs}
    if any(isinstance(x, ast.Starred) for x in call.args) or any(k.arg is None for k in call.keywords):
        return None
    out: Dict[str, ast.expr] = {}
    for p, v in zip(pos, call.args):
        out[p] = v
    if len(call.args) > len(pos) and a.vararg is None:
        return None
    for k in call.keywords:
        if k.arg not in names or k.arg in out:
            if a.kwarg is None:
                return None
            continue
        out[k.arg] = k.value
    order = pos + [p.arg for p in a.kwonlyargs]
    return {p: out[p] for p in order if p in out}
