"""Value provenance (flow-insensitive origins) used for provisos and copy-only flow questions."""
from __future__ import annotations

import ast
from typing import Optional, Set, Tuple

from .model import ClassInfo, FuncInfo, Program, dotted, norm
from .types import Types, types_of, walk_own, _targets

PASS_THROUGH = {'reversed', 'list', 'tuple', 'iter', 'sorted', 'set', 'itertools.chain', 'functools.partial',
                'typing.cast', 'copy.copy', 'copy.deepcopy', 'filter', 'enumerate', 'zip', 'map'}

Origin = Tuple[str, ...]


class Prov:
    def __init__(self, prog: Program):
        self.prog = prog
        self.types: Types = types_of(prog)

    def origins(self, e: ast.expr, f: FuncInfo, _seen: Optional[Set] = None, _depth: int = 0) -> Set[Origin]:
        seen = _seen if _seen is not None else set()
        key = (f.qualname, id(e))
        if key in seen or _depth > 12:
            return set()
        seen.add(key)
        try:
            return self._origins(e, f, seen, _depth)
        finally:
            seen.discard(key)

    def _origins(self, e: ast.expr, f: FuncInfo, seen: Set, _depth: int) -> Set[Origin]:
        if isinstance(e, ast.Constant) or isinstance(e, (ast.List, ast.Tuple, ast.Dict, ast.Set)) and not getattr(e, 'elts', getattr(e, 'keys', [])):
            return {('lit',)}
        if isinstance(e, ast.Name):
            return self._name(e.id, f, seen, _depth)
        if isinstance(e, ast.Attribute):
            if isinstance(e.value, ast.Name) and e.value.id == 'self':
                return self._self_attr(e.attr, f, seen, _depth)
            return self.origins(e.value, f, seen, _depth + 1)
        if isinstance(e, ast.Await):
            return self.origins(e.value, f, seen, _depth + 1)
        if isinstance(e, (ast.BoolOp,)):
            out: Set[Origin] = set()
            for v in e.values:
                out |= self.origins(v, f, seen, _depth + 1)
            return out
        if isinstance(e, ast.IfExp):
            return self.origins(e.body, f, seen, _depth + 1) | self.origins(e.orelse, f, seen, _depth + 1)
        if isinstance(e, ast.Subscript):
            return self.origins(e.value, f, seen, _depth + 1)
        if isinstance(e, ast.Starred):
            return self.origins(e.value, f, seen, _depth + 1)
        if isinstance(e, (ast.List, ast.Tuple, ast.Set)):
            out = set()
            for x in e.elts:
                out |= self.origins(x, f, seen, _depth + 1)
            return out or {('lit',)}
        if isinstance(e, ast.Call):
            ent = None
            if isinstance(e.func, (ast.Name, ast.Attribute)):
                d = dotted(e.func)
                if d is not None and self.types.local_type(f, d.split('.')[0]) is None:
                    ent = self.prog.resolve(f.module, e.func)
            if isinstance(ent, str) and ent in PASS_THROUGH:
                out = set()
                for a in e.args:
                    out |= self.origins(a, f, seen, _depth + 1)
                for kw in e.keywords:
                    out |= self.origins(kw.value, f, seen, _depth + 1)
                return out
            if isinstance(e.func, ast.Attribute) and e.func.attr in ('get', 'values', 'items', 'copy', 'pop'):
                out = self.origins(e.func.value, f, seen, _depth + 1)
                for a in e.args[1:]:
                    out |= self.origins(a, f, seen, _depth + 1)
                return out
            return {('call', norm(e.func))}
        if isinstance(e, ast.Lambda):
            return {('lit',)}
        return {('expr', norm(e)[:40])}

    def _name(self, name: str, f: FuncInfo, seen: Set, depth: int) -> Set[Origin]:
        g: Optional[FuncInfo] = f
        while g is not None:
            if any(p.arg == name for p in g.params):
                owner = g.cls.qualname if g.cls is not None and g.parent is None else g.qualname
                return {('param', owner, g.name, name)}
            if name in g.nested:
                return {('func', g.nested[name].qualname)}
            out: Set[Origin] = set()
            found = False
            for st in walk_own(g.node):
                if isinstance(st, ast.Assign):
                    for tg in st.targets:
                        for nm, sub in _targets(tg, st.value):
                            if nm == name:
                                found = True
                                out |= self.origins(sub if sub is not None else st.value, g, seen, depth + 1)
                elif isinstance(st, ast.AnnAssign) and isinstance(st.target, ast.Name) and st.target.id == name and st.value is not None:
                    found = True
                    out |= self.origins(st.value, g, seen, depth + 1)
                elif isinstance(st, (ast.For, ast.AsyncFor, ast.comprehension)):
                    if any(nm == name for nm, _ in _targets(st.target, None)):
                        found = True
                        out |= self.origins(st.iter, g, seen, depth + 1)
                elif isinstance(st, ast.ExceptHandler) and st.name == name:
                    found = True
                    out.add(('exc',))
                elif isinstance(st, ast.NamedExpr) and st.target.id == name:
                    found = True
                    out |= self.origins(st.value, g, seen, depth + 1)
            if found:
                return out
            g = g.parent
        ent = self.prog.resolve(f.module, ast.Name(id=name))
        if isinstance(ent, FuncInfo):
            return {('func', ent.qualname)}
        if isinstance(ent, ClassInfo):
            return {('class', ent.qualname)}
        return {('global', name)}

    def _self_attr(self, attr: str, f: FuncInfo, seen: Set, depth: int) -> Set[Origin]:
        ci = self.types.self_class(f)
        if ci is None:
            return {('expr', 'self.' + attr)}
        meth = self.prog.find_method(ci, attr)
        if meth is not None:
            return {('selfmeth', meth.qualname)}
        out: Set[Origin] = set()
        for c in self.prog.mro(ci):
            if not isinstance(c, ClassInfo):
                continue
            for fn in c.methods.values():
                for st in walk_own(fn.node):
                    if isinstance(st, ast.Assign):
                        for tg in st.targets:
                            if isinstance(tg, ast.Attribute) and isinstance(tg.value, ast.Name) and \
                                    tg.value.id == 'self' and tg.attr == attr:
                                out |= self.origins(st.value, fn, seen, depth + 1)
        return out or {('expr', 'self.' + attr)}
