"""Engine self-test: /repo parses, the anchors exist, the CFG/interpreter run on the anchored functions."""
from __future__ import annotations

from .model import AnalysisError, Program


def selftest() -> int:
    try:
        prog = Program()
        from .props.common import dispatchers
        roles = dispatchers(prog)
        n = len(prog.modules), len(prog.classes), len(prog.funcs)
        print(f'selftest: {n[0]} modules, {n[1]} classes, {n[2]} functions; {len(roles)} dispatchers anchored')
        if n[0] < 40 or n[2] < 300:
            print('ANALYSIS-ERROR: fewer modules/functions than the package is known to have')
            return 2
        return 0
    except AnalysisError as e:
        print(f'ANALYSIS-ERROR: {e}')
        return 2
