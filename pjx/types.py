"""Annotation-driven abstract type inference and call resolution (flow-insensitive per function).

Abstract types are hashable tuples:
  ('inst', classq)   instance of a repo class          ('cls', classq)     the class object itself
  ('b', name)        instance of a builtin (int, str…)  ('ext', dotted)     external callable / object
  ('extinst', dotted) instance of an external class     ('mod', name)       repo module
  ('func', funcq)    repo function                      ('bound', funcq, recv) bound repo method
  ('partial', t)     functools.partial over t           ('lambda', id)      lambda expression
  ('seq', t) ('dict', t) ('gen', t)                     containers (element / value / yield type)
  ('none',) ('any',) ('user',)                          None, unknown, user-supplied code or value
  ('union', frozenset)                                  several of the above
"""
from __future__ import annotations

import ast
from typing import Dict, Iterable, List, Optional, Set, Tuple

from .model import ClassInfo, FuncInfo, Module, Program, dotted

T = tuple
NONE: T = ('none',)
ANY: T = ('any',)
USER: T = ('user',)
UNSET_Q = 'pjrpc.common.common.UnsetType'
UNSET_T: T = ('inst', UNSET_Q)

_BUILTIN_TYPES = {'int', 'str', 'float', 'bool', 'bytes', 'list', 'dict', 'tuple', 'set', 'frozenset', 'object',
                  'type', 'complex'}


def union(ts: Iterable[T]) -> T:
    flat: Set[T] = set()
    for t in ts:
        if t is None:
            continue
        if t[0] == 'union':
            flat |= set(t[1])
        else:
            flat.add(t)
    if not flat:
        return ANY
    if len(flat) == 1:
        return next(iter(flat))
    return ('union', frozenset(flat))


def members(t: T) -> List[T]:
    return sorted(t[1], key=repr) if t[0] == 'union' else [t]


def fmt(t: T) -> str:
    k = t[0]
    if k == 'union':
        return ' | '.join(sorted(fmt(m) for m in t[1]))
    if k in ('inst',):
        return t[1].rsplit('.', 1)[-1]
    if k == 'cls':
        return 'Type[' + t[1].rsplit('.', 1)[-1] + ']'
    if k in ('b', 'ext', 'extinst', 'mod', 'func'):
        return f'{k}:{t[1]}' if k != 'b' else t[1]
    if k == 'bound':
        return f'bound:{t[1]}'
    if k in ('seq', 'dict', 'gen', 'partial'):
        return f'{k}[{fmt(t[1])}]'
    return k


class Types:
    def __init__(self, prog: Program):
        self.prog = prog
        self._attr_cache: Dict[Tuple[str, str], T] = {}
        self._attr_busy: Set[Tuple[str, str]] = set()
        self._local_cache: Dict[Tuple[str, str], T] = {}
        self._local_busy: Set[Tuple[str, str]] = set()
        self._ret_busy: Set[str] = set()

    # -- annotations ---------------------------------------------------------------------------
    def ann(self, e: Optional[ast.expr], m: Module, cls_scope: Optional[ClassInfo] = None, _d: int = 0) -> T:
        if e is None or _d > 10:
            return ANY
        if isinstance(e, ast.Constant):
            if e.value is None:
                return NONE
            if isinstance(e.value, str):
                try:
                    return self.ann(ast.parse(e.value, mode='eval').body, m, cls_scope, _d + 1)
                except SyntaxError:
                    return ANY
            return ANY
        if isinstance(e, ast.BinOp) and isinstance(e.op, ast.BitOr):
            return union([self.ann(e.left, m, cls_scope, _d + 1), self.ann(e.right, m, cls_scope, _d + 1)])
        if isinstance(e, ast.Subscript):
            head = self._ann_head(e.value, m)
            args = e.slice.elts if isinstance(e.slice, ast.Tuple) else [e.slice]
            if head in ('typing.Optional',):
                return union([self.ann(args[0], m, cls_scope, _d + 1), NONE])
            if head in ('typing.Union',):
                return union(self.ann(a, m, cls_scope, _d + 1) for a in args)
            if head == 'pjrpc.common.common.MaybeSet':
                return union([UNSET_T, self.ann(args[0], m, cls_scope, _d + 1)])
            if head in ('typing.Type', 'type'):
                t = self.ann(args[0], m, cls_scope, _d + 1)
                return union(('cls', x[1]) if x[0] == 'inst' else ANY for x in members(t))
            if head in ('typing.List', 'typing.Iterable', 'typing.Sequence', 'typing.Set', 'typing.Iterator',
                        'typing.FrozenSet', 'list', 'set', 'typing.Collection', 'typing.ValuesView', 'typing.KeysView'):
                return ('seq', self.ann(args[0], m, cls_scope, _d + 1))
            if head in ('typing.Tuple', 'tuple'):
                return ('seq', union(self.ann(a, m, cls_scope, _d + 1) for a in args
                                     if not (isinstance(a, ast.Constant) and a.value is Ellipsis)))
            if head in ('typing.Dict', 'typing.Mapping', 'dict', 'typing.MutableMapping', 'typing.DefaultDict'):
                return ('dict', self.ann(args[-1], m, cls_scope, _d + 1))
            if head in ('typing.Generator', 'typing.AsyncGenerator'):
                return ('gen', self.ann(args[0], m, cls_scope, _d + 1))
            if head in ('typing.Awaitable', 'typing.Coroutine'):
                return self.ann(args[-1], m, cls_scope, _d + 1)
            if head in ('typing.ClassVar', 'typing.Final', 'typing.Annotated'):
                return self.ann(args[0], m, cls_scope, _d + 1)
            if head == 'typing.Callable':
                rt = self.ann(args[-1], m, cls_scope, _d + 1) if len(args) == 2 else ANY
                return USER if rt == ANY else ('user', rt)
            if head == 'typing.Literal':
                return ANY
            # Generic repo class subscripted: Tracer[Any]
            return self.ann(e.value, m, cls_scope, _d + 1)
        ent = self.prog.resolve(m, e, cls_scope=cls_scope)
        if isinstance(ent, ClassInfo):
            return ('inst', ent.qualname)
        if isinstance(ent, str):
            if ent in _BUILTIN_TYPES:
                return ('b', ent)
            if ent == 'typing.Any':
                return ANY
            if ent == 'typing.Callable':
                return USER
            if ent.startswith('typing.'):
                return ANY
            return ('extinst', ent)
        if isinstance(ent, tuple) and ent[0] == 'value':
            val = ent[2]
            if isinstance(val, ast.Call) and dotted(val.func) in ('TypeVar', 'typing.TypeVar'):
                return ANY
            return self.ann(val, ent[1], None, _d + 1)
        return ANY

    def _ann_head(self, e: ast.expr, m: Module) -> Optional[str]:
        ent = self.prog.resolve(m, e)
        if isinstance(ent, str):
            return ent
        if isinstance(ent, tuple) and ent[0] == 'value':
            d = dotted(e)
            # MaybeSet = Union[UnsetType, MaybeSetType]
            if d and d.split('.')[-1] == 'MaybeSet':
                return 'pjrpc.common.common.MaybeSet'
        return None

    # -- scopes --------------------------------------------------------------------------------
    def self_class(self, f: FuncInfo) -> Optional[ClassInfo]:
        """Class of `self` in f (nested wrappers declare `self: 'AbstractClient'`)."""
        g: Optional[FuncInfo] = f
        while g is not None:
            if g.cls is not None and g.parent is None:
                return g.cls
            g = g.parent
        return f.cls

    def param_type(self, f: FuncInfo, name: str) -> T:
        ps = f.params
        if not ps:
            return ANY
        first_is_recv = ps[0].arg == name and f.cls is not None and f.parent is None and \
            (ps[0].annotation is None or name in ('self', 'cls', 'mcs'))
        if first_is_recv and f.kind in ('method', 'property', 'setter'):
            return ('inst', f.cls.qualname)
        if first_is_recv and f.kind == 'classmethod':
            return ('cls', f.cls.qualname)
        a = f.node.args
        if a.vararg is not None and a.vararg.arg == name:
            return ('seq', self.ann(a.vararg.annotation, f.module, f.cls))
        if a.kwarg is not None and a.kwarg.arg == name:
            return ('dict', self.ann(a.kwarg.annotation, f.module, f.cls))
        t = self.ann(f.param_ann(name), f.module, f.cls)
        if name == 'self' and f.cls is not None and t == ANY:
            return ('inst', f.cls.qualname)
        d = f.param_default(name)
        if d is not None and (t == ANY or t[0] in ('user', 'cls')):
            dt = self.expr(d, _ModuleScope(f.module, f.cls, self))
            if dt[0] in ('ext', 'func', 'cls', 'lambda'):
                return dt
        return t

    def local_type(self, f: FuncInfo, name: str) -> Optional[T]:
        key = (f.qualname, name)
        if key in self._local_cache:
            return self._local_cache[key]
        if key in self._local_busy:
            return ANY
        self._local_busy.add(key)
        try:
            t = self._local_type(f, name)
        finally:
            self._local_busy.discard(key)
        if t is not None:
            self._local_cache[key] = t
        return t

    def _local_type(self, f: FuncInfo, name: str) -> Optional[T]:
        ts: List[T] = []
        found = False
        if any(p.arg == name for p in f.params):
            found = True
            ts.append(self.param_type(f, name))
        if name in f.nested:
            return ('func', f.nested[name].qualname)
        scope = FuncScope(f, self)
        for st in walk_own(f.node):
            if isinstance(st, ast.Assign):
                for tg in st.targets:
                    for nm, sub in _targets(tg, st.value):
                        if nm == name:
                            found = True
                            ts.append(self.expr(sub, scope) if sub is not None else ANY)
            elif isinstance(st, ast.AnnAssign) and isinstance(st.target, ast.Name) and st.target.id == name:
                found = True
                ts.append(self.ann(st.annotation, f.module, f.cls))
                if st.value is not None:      # `x: Callable[..., Any] = self._m`: the value says more than the annotation
                    ts.append(self.expr(st.value, scope))
            elif isinstance(st, ast.AugAssign) and isinstance(st.target, ast.Name) and st.target.id == name:
                found = True
            elif isinstance(st, (ast.For, ast.AsyncFor, ast.comprehension)):
                for nm, _ in _targets(st.target, None):
                    if nm == name:
                        found = True
                        ts.append(self.elem(self.expr(st.iter, scope)))
            elif isinstance(st, ast.NamedExpr) and st.target.id == name:
                found = True
                ts.append(self.expr(st.value, scope))
            elif isinstance(st, ast.ExceptHandler) and st.name == name:
                found = True
                if st.type is not None:
                    elts = st.type.elts if isinstance(st.type, ast.Tuple) else [st.type]
                    for e in elts:
                        ent = self.prog.resolve(f.module, e)
                        if isinstance(ent, ClassInfo):
                            ts.append(('inst', ent.qualname))
                        elif isinstance(ent, str):
                            ts.append(('extinst', ent))
                        else:
                            ts.append(('extinst', 'Exception'))
            elif isinstance(st, (ast.With, ast.AsyncWith)):
                for item in st.items:
                    if item.optional_vars is not None:
                        for nm, _ in _targets(item.optional_vars, None):
                            if nm == name:
                                found = True
                                ts.append(ANY)
        if not found:
            return None
        # annotation-only declarations are weaker than assignments: prefer specific info
        return union(ts)

    def elem(self, t: T) -> T:
        out = []
        for m in members(t):
            if m[0] in ('seq', 'gen'):
                out.append(m[1])
            elif m[0] == 'dict':
                out.append(ANY)
            elif m[0] == 'inst':
                ci = self.prog.classes.get(m[1])
                it = self.prog.find_method(ci, '__iter__') if ci else None
                if it is not None:
                    rt = self.ann(it.node.returns, it.module, it.cls)
                    out.append(self.elem(rt) if rt[0] in ('seq', 'gen') else ANY)
                else:
                    out.append(ANY)
            else:
                out.append(ANY)
        return union(out)

    # -- attributes ----------------------------------------------------------------------------
    def inst_attr(self, cq: str, name: str) -> T:
        key = (cq, name)
        if key in self._attr_cache:
            return self._attr_cache[key]
        if key in self._attr_busy:
            return ANY
        self._attr_busy.add(key)
        try:
            t = self._inst_attr(cq, name)
        finally:
            self._attr_busy.discard(key)
        self._attr_cache[key] = t
        return t

    def _inst_attr(self, cq: str, name: str) -> T:
        ci = self.prog.classes.get(cq)
        if ci is None:
            return ANY
        meth = self.prog.find_method(ci, name)
        if meth is not None:
            if meth.kind == 'property':
                return self.ann(meth.node.returns, meth.module, meth.cls)
            if meth.kind == 'staticmethod':
                return ('func', meth.qualname)
            return ('bound', meth.qualname, ('inst', cq))
        ts: List[T] = []
        for c in self.prog.mro(ci):
            if not isinstance(c, ClassInfo):
                continue
            for fn in c.methods.values():
                for st in walk_own(fn.node):
                    tgts: List[Tuple[ast.expr, Optional[ast.expr]]] = []
                    if isinstance(st, ast.Assign):
                        for tg in st.targets:
                            if isinstance(tg, ast.Tuple) and isinstance(st.value, ast.Tuple) and \
                                    len(tg.elts) == len(st.value.elts):
                                tgts += list(zip(tg.elts, st.value.elts))
                            else:
                                tgts.append((tg, st.value))
                    elif isinstance(st, ast.AnnAssign):
                        if isinstance(st.target, ast.Attribute) and isinstance(st.target.value, ast.Name) and \
                                st.target.value.id == 'self' and st.target.attr == name:
                            ts.append(self.ann(st.annotation, fn.module, fn.cls))
                            continue
                    for tg, val in tgts:
                        if isinstance(tg, ast.Attribute) and isinstance(tg.value, ast.Name) and \
                                tg.value.id == 'self' and tg.attr == name and val is not None:
                            ts.append(self.expr(val, FuncScope(fn, self)))
            if name in c.attr_ann:
                ts.append(self.ann(c.attr_ann[name], c.module, c))
            elif name in c.attrs:
                ts.append(self.expr(c.attrs[name], _ModuleScope(c.module, c, self)))
            if name in c.nested:
                ts.append(('cls', c.nested[name].qualname))
        if not ts:
            return ANY
        spec = [t for t in ts if t not in (ANY,)]
        return union(spec or ts)

    def attr(self, base: T, name: str) -> T:
        out: List[T] = []
        for b in members(base):
            k = b[0]
            if k == 'inst':
                out.append(self.inst_attr(b[1], name))
            elif k == 'cls':
                ci = self.prog.classes.get(b[1])
                if ci is None:
                    out.append(ANY)
                    continue
                meth = self.prog.find_method(ci, name)
                if meth is not None:
                    if meth.kind == 'classmethod':
                        out.append(('bound', meth.qualname, b))
                    else:
                        out.append(('func', meth.qualname))
                    continue
                got = None
                for c in self.prog.mro(ci):
                    if isinstance(c, ClassInfo):
                        if name in c.nested:
                            got = ('cls', c.nested[name].qualname)
                            break
                        if name in c.attr_ann:
                            got = self.ann(c.attr_ann[name], c.module, c)
                            break
                        if name in c.attrs:
                            got = self.expr(c.attrs[name], _ModuleScope(c.module, c, self))
                            break
                out.append(got or ANY)
            elif k == 'mod':
                out.append(self.entity_type(self.prog.module_attr(self.prog.modules[b[1]], name)))
            elif k == 'ext':
                out.append(('ext', f'{b[1]}.{name}'))
            elif k == 'extinst':
                out.append(('ext', f'{b[1]}().{name}'))
            elif k == 'dict' and name == 'get':
                out.append(('dictget', b[1]))
            elif k in ('dict', 'seq') and name in ('values', 'items', 'keys', 'copy'):
                out.append(('contmeth', name, b))
            elif k == 'user':
                out.append(ANY)
            else:
                out.append(ANY)
        return union(out)

    def entity_type(self, ent: object) -> T:
        if isinstance(ent, ClassInfo):
            return ('cls', ent.qualname)
        if isinstance(ent, FuncInfo):
            return ('func', ent.qualname)
        if isinstance(ent, Module):
            return ('mod', ent.name)
        if isinstance(ent, str):
            return ('ext', ent)
        if isinstance(ent, tuple) and ent[0] == 'value':
            return self.expr(ent[2], _ModuleScope(ent[1], None, self))
        return ANY

    # -- expressions ---------------------------------------------------------------------------
    def expr(self, e: ast.expr, scope: 'Scope') -> T:
        if isinstance(e, ast.Constant):
            if e.value is None:
                return NONE
            return ('b', type(e.value).__name__)
        if isinstance(e, ast.Name):
            return scope.name(e.id)
        if isinstance(e, ast.Attribute):
            return self.attr(self.expr(e.value, scope), e.attr)
        if isinstance(e, ast.Await):
            return self.expr(e.value, scope)
        if isinstance(e, ast.Call):
            return self.call_result(e, scope)
        if isinstance(e, ast.BoolOp):
            return union(self.expr(v, scope) for v in e.values)
        if isinstance(e, ast.IfExp):
            return union([self.expr(e.body, scope), self.expr(e.orelse, scope)])
        if isinstance(e, ast.NamedExpr):
            return self.expr(e.value, scope)
        if isinstance(e, (ast.List, ast.Tuple, ast.Set)):
            return ('seq', union(self.expr(x.value if isinstance(x, ast.Starred) else x, scope) for x in e.elts)
                    if e.elts else ANY)
        if isinstance(e, (ast.ListComp, ast.GeneratorExp, ast.SetComp)):
            return ('seq', ANY)
        if isinstance(e, (ast.Dict, ast.DictComp)):
            return ('dict', ANY)
        if isinstance(e, ast.JoinedStr):
            return ('b', 'str')
        if isinstance(e, ast.Compare):
            return ('b', 'bool')
        if isinstance(e, ast.UnaryOp) and isinstance(e.op, ast.Not):
            return ('b', 'bool')
        if isinstance(e, ast.Lambda):
            return ('lambda', id(e))
        if isinstance(e, ast.Subscript):
            bt = self.expr(e.value, scope)
            if isinstance(e.slice, ast.Slice):
                return bt           # a slice of a sequence is a sequence of the same elements
            out = []
            for b in members(bt):
                if b[0] in ('seq', 'dict'):
                    out.append(b[1])
                elif b[0] == 'cls':
                    out.append(b)       # Generic[...] subscription: Dispatcher[None]
                elif b[0] == 'inst':
                    ci = self.prog.classes.get(b[1])
                    gi = self.prog.find_method(ci, '__getitem__') if ci else None
                    out.append(self.ann(gi.node.returns, gi.module, gi.cls) if gi is not None else ANY)
                else:
                    out.append(ANY)
            return union(out)
        if isinstance(e, ast.Starred):
            return self.expr(e.value, scope)
        return ANY

    def func_return(self, f: FuncInfo) -> T:
        if f.node.returns is not None if not isinstance(f.node, ast.Lambda) else False:
            t = self.ann(f.node.returns, f.module, f.cls)
            if t != ANY and t[0] != 'user':
                return t
        # infer from return statements (closures returning nested functions)
        if f.qualname in self._ret_busy:
            return ANY
        self._ret_busy.add(f.qualname)
        try:
            ts = []
            scope = FuncScope(f, self)
            for st in walk_own(f.node):
                if isinstance(st, ast.Return) and st.value is not None:
                    ts.append(self.expr(st.value, scope))
            return union(ts) if ts else (NONE if f.node.returns is None else ANY)
        finally:
            self._ret_busy.discard(f.qualname)

    def call_result(self, call: ast.Call, scope: 'Scope') -> T:
        ft = self.expr(call.func, scope)
        out: List[T] = []
        for c in members(ft):
            k = c[0]
            if k == 'cls':
                out.append(('inst', c[1]))
            elif k in ('func', 'bound'):
                f = self.prog.funcs[c[1]]
                rt = self.func_return(f)
                out.append(rt)
            elif k == 'partial':
                out.append(self.call_result_of(c[1]))
            elif k == 'dictget':
                dflt = self.expr(call.args[1], scope) if len(call.args) > 1 else NONE
                out.append(union([c[1], dflt]))
            elif k == 'contmeth':
                out.append(('seq', c[2][1]) if c[1] in ('values',) else (c[2] if c[1] == 'copy' else ('seq', ANY)))
            elif k == 'ext':
                out.append(self._ext_call(c[1], call, scope))
            elif k == 'user':
                out.append(c[1] if len(c) > 1 else ANY)
            elif k == 'inst':
                ci = self.prog.classes.get(c[1])
                cm = self.prog.find_method(ci, '__call__') if ci else None
                out.append(self.func_return(cm) if cm is not None else ANY)
            else:
                out.append(ANY)
        return union(out)

    def call_result_of(self, t: T) -> T:
        out = []
        for c in members(t):
            if c[0] in ('func', 'bound'):
                out.append(self.func_return(self.prog.funcs[c[1]]))
            elif c[0] == 'cls':
                out.append(('inst', c[1]))
            elif c[0] == 'user':
                out.append(c[1] if len(c) > 1 else ANY)
            else:
                out.append(ANY)
        return union(out)

    def _ext_call(self, name: str, call: ast.Call, scope: 'Scope') -> T:
        a0 = self.expr(call.args[0], scope) if call.args and not isinstance(call.args[0], ast.Starred) else ANY
        if name == 'functools.partial':
            return ('partial', a0)
        if name in ('copy.deepcopy', 'copy.copy', 'typing.cast') and call.args:
            return self.expr(call.args[-1], scope) if name == 'typing.cast' else a0
        if name in ('list', 'tuple', 'set', 'sorted', 'reversed', 'frozenset', 'iter'):
            return ('seq', self.elem(a0)) if call.args else ('seq', ANY)
        if name in ('itertools.chain',):
            return ('seq', union(self.elem(self.expr(a, scope)) for a in call.args if not isinstance(a, ast.Starred)))
        if name == 'dict':
            return ('dict', ANY)
        if name == 'next':
            return self.elem(a0)
        if name in ('str', 'repr', 'format'):
            return ('b', 'str')
        if name in ('len', 'int'):
            return ('b', 'int')
        if name in ('bool', 'isinstance', 'callable', 'hasattr', 'issubclass', 'all', 'any'):
            return ('b', 'bool')
        if name in ('getattr',):
            return ANY
        if name == 'type':
            return union(('cls', x[1]) if x[0] == 'inst' else ANY for x in members(a0))
        if name == 'super':
            return ('super',)
        if name == 'inspect.signature':
            return ('extinst', 'inspect.Signature')
        if name in ('json.loads',):
            return ANY
        if name in ('json.dumps',):
            return ('b', 'str')
        if name == 'asyncio.gather':
            return ('seq', ANY)
        if name and name[0].isupper() or (name.rsplit('.', 1)[-1][:1].isupper()):
            return ('extinst', name)
        return ANY

    # -- call resolution -----------------------------------------------------------------------
    def callees(self, call: ast.Call, scope: 'Scope') -> List[Tuple[str, object]]:
        """Resolve a call to targets: ('func', FuncInfo) | ('ctor', ClassInfo) | ('ext', dotted) |
        ('user', None) | ('unknown', text)."""
        func = call.func
        # super().m(...)
        if isinstance(func, ast.Attribute) and isinstance(func.value, ast.Call) and \
                isinstance(func.value.func, ast.Name) and func.value.func.id == 'super':
            ci = scope.cls()
            if ci is not None:
                for c in self.prog.mro(ci)[1:]:
                    if isinstance(c, ClassInfo) and func.attr in c.methods:
                        return [('func', c.methods[func.attr])]
                return [('ext', f'super().{func.attr}')]
        ft = self.expr(func, scope)
        return self.targets_of(ft, func)

    def targets_of(self, ft: T, func_expr: Optional[ast.expr] = None) -> List[Tuple[str, object]]:
        out: List[Tuple[str, object]] = []
        seen = set()

        def add(kind: str, obj: object) -> None:
            key = (kind, getattr(obj, 'qualname', obj))
            if key not in seen:
                seen.add(key)
                out.append((kind, obj))

        for c in members(ft):
            k = c[0]
            if k == 'cls':
                ci = self.prog.classes.get(c[1])
                if ci is not None:
                    add('ctor', ci)
            elif k == 'func':
                add('func', self.prog.funcs[c[1]])
            elif k == 'bound':
                f = self.prog.funcs[c[1]]
                add('func', f)
                recv = c[2]
                # class-hierarchy analysis: overrides in subclasses of the static receiver class
                if recv[0] in ('inst', 'cls'):
                    rc = self.prog.classes.get(recv[1])
                    if rc is not None:
                        for sc in self.prog.subclasses(rc, strict=True):
                            if f.name in sc.methods and sc.methods[f.name].kind != 'setter':
                                add('func', sc.methods[f.name])
            elif k == 'partial':
                for t in self.targets_of(c[1]):
                    add(*t)
            elif k == 'ext':
                add('ext', c[1])
            elif k == 'user':
                add('user', None)
            elif k == 'lambda':
                add('lambda', c[1])
            elif k == 'inst':
                ci = self.prog.classes.get(c[1])
                cm = self.prog.find_method(ci, '__call__') if ci else None
                if cm is not None:
                    add('func', cm)
                    for sc in self.prog.subclasses(ci, strict=True):
                        if '__call__' in sc.methods:
                            add('func', sc.methods['__call__'])
                else:
                    add('unknown', dotted(func_expr) or '?')
            elif k == 'dictget':
                add('ext', 'dict.get')
            elif k == 'contmeth':
                add('ext', f'dict.{c[1]}')
            else:
                add('unknown', dotted(func_expr) or (ast.unparse(func_expr) if func_expr is not None else '?'))
        return out


# ----------------------------------------------------------------------------------------------
# scopes
# ----------------------------------------------------------------------------------------------

class Scope:
    def name(self, n: str) -> T:
        raise NotImplementedError

    def cls(self) -> Optional[ClassInfo]:
        return None


class _ModuleScope(Scope):
    def __init__(self, m: Module, cls_scope: Optional[ClassInfo], types: 'Types'):
        self.m = m
        self.c = cls_scope
        self.t = types

    def name(self, n: str) -> T:
        ty = self.t
        prog = ty.prog
        if n in ('True', 'False'):
            return ('b', 'bool')
        ent = prog.resolve(self.m, ast.Name(id=n), cls_scope=self.c)
        if ent is None:
            return ANY
        return ty.entity_type(ent)

    def cls(self) -> Optional[ClassInfo]:
        return self.c


class FuncScope(Scope):
    def __init__(self, f: FuncInfo, types: Types):
        self.f = f
        self.t = types

    def name(self, n: str) -> T:
        g: Optional[FuncInfo] = self.f
        while g is not None:
            t = self.t.local_type(g, n)
            if t is not None:
                return t
            g = g.parent
        return _ModuleScope(self.f.module, self.f.cls, self.t).name(n)

    def cls(self) -> Optional[ClassInfo]:
        return self.t.self_class(self.f)


class CompScope(Scope):
    """Scope inside a comprehension: generator targets shadow the enclosing scope."""

    def __init__(self, outer: Scope, comp: ast.AST, types: Types):
        self.outer = outer
        self.comp = comp
        self.t = types
        self.bound: Dict[str, T] = {}
        cur: Scope = outer
        for gen in getattr(comp, 'generators', []):
            it_t = types.expr(gen.iter, self if self.bound else outer)
            for nm, _ in _targets(gen.target, None):
                self.bound[nm] = types.elem(it_t)

    def name(self, n: str) -> T:
        if n in self.bound:
            return self.bound[n]
        return self.outer.name(n)

    def cls(self) -> Optional[ClassInfo]:
        return self.outer.cls()


def _targets(tg: ast.expr, value: Optional[ast.expr]) -> List[Tuple[str, Optional[ast.expr]]]:
    if isinstance(tg, ast.Name):
        return [(tg.id, value)]
    if isinstance(tg, (ast.Tuple, ast.List)):
        out: List[Tuple[str, Optional[ast.expr]]] = []
        vals = value.elts if isinstance(value, (ast.Tuple, ast.List)) and len(value.elts) == len(tg.elts) else None
        for i, el in enumerate(tg.elts):
            if isinstance(el, ast.Starred):
                el = el.value
            out += _targets(el, vals[i] if vals else None)
        return out
    return []


def walk_own(fnode: ast.AST) -> Iterable[ast.AST]:
    """Walk a function body without descending into nested function/class definitions
    (comprehensions and lambdas are included)."""
    stack: List[ast.AST] = list(getattr(fnode, 'body', [])) if not isinstance(fnode, ast.Lambda) else [fnode.body]
    if isinstance(stack, ast.AST):
        stack = [stack]
    while stack:
        n = stack.pop()
        yield n
        for ch in ast.iter_child_nodes(n):
            if isinstance(ch, (ast.FunctionDef, ast.AsyncFunctionDef, ast.ClassDef)):
                continue
            stack.append(ch)


_TYPES: Dict[int, Types] = {}


def types_of(prog: Program) -> Types:
    t = _TYPES.get(id(prog))
    if t is None:
        t = _TYPES[id(prog)] = Types(prog)
    return t
