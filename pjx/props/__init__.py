"""Property rule sets.  `run_check` is what every driver calls: the property's own rules, then the TOTAL-* rules over the
functions it analysed and what they call (totality.py)."""


def run_check(mod, ck, prog) -> None:
    mod.run(ck, prog)
    from .totality import totality
    extra = getattr(mod, 'TOTAL_SCOPE', ())
    totality(ck, prog, extra(prog) if callable(extra) else extra)
