"""Property rule sets.  `run_check` is what every driver calls: the property's own rules, then the TOTAL-* rules over the
functions it analysed and what they call (totality.py)."""


def run_check(mod, ck, prog) -> None:
    mod.run(ck, prog)
    from .totality import totality
    extra = getattr(mod, 'TOTAL_SCOPE', ())
    totality(ck, prog, extra(prog) if callable(extra) else extra)


_BORROWING = set()


def borrow(ck, prog, from_prop: str, rules, why: str) -> None:
    """Run the rules `rules` of another property's check as part of this one: a property whose statement relies on a mechanism runs
    the rules that guard that mechanism, whichever property they were written for.  The borrowed findings keep their rule ids."""
    import importlib
    from ..report import Check
    key = (ck.prop, from_prop)
    if key in _BORROWING or (from_prop, ck.prop) in _BORROWING:
        return
    _BORROWING.add(key)
    try:
        mod = importlib.import_module(f'pjx.props.{from_prop.lower()}')
        tmp = Check(from_prop, 'quick')
        mod.run(tmp, prog)
        rules = set(rules)
        got = [f for f in tmp.findings if f.rule in rules]
        n_ob = sum(tmp.rules.get(r, {}).get('instances', 0) for r in rules)
        ck.ob(sorted(rules)[0], f'{", ".join(sorted(rules))} of {from_prop} ({why}): {n_ob} rule instances', not got, nontrivial=n_ob > 0)
        for f in got:
            ck.finding(f.rule, f.func, f.construct, f.file, f.line, f.message, f.witness)
        ck.functions |= {q for q in tmp.functions if any(q == f.func for f in got)}
    finally:
        _BORROWING.discard(key)
