"""SENT-TRUTH: truthiness tests on sentinel-typed values and protocol scalars (shared by C05, C06, C20)."""
from __future__ import annotations

import ast
from typing import Dict, FrozenSet, List, Optional, Set, Tuple

from ..absint import EMPTY_ENV, Ctx, Env, FuncResult, Interp
from ..cfg import Node
from ..model import FuncInfo, Program, dotted, norm
from ..types import FuncScope, members, types_of
from ..util import node_exprs, walk_no_defs


class TruthSite:
    def __init__(self, f: FuncInfo, node: Node, expr: ast.expr, context: str):
        self.f = f
        self.node = node
        self.expr = expr
        self.context = context      # 'branch' | 'or' | 'and' | 'not' | 'ifexp' | 'assert'


def truth_sites(res: FuncResult) -> List[TruthSite]:
    """Every expression evaluated for its truth value in the function (branch tests are already
    decomposed into cond nodes by the CFG)."""
    out: List[TruthSite] = []
    cfg = res.cfg
    assert cfg is not None
    f = res.func
    for n in cfg.nodes:
        if n.kind == 'cond' and n.ast is not None:
            _operands(f, n, n.ast, 'branch', out, top=True)
        for frag in node_exprs(n):
            if n.kind == 'cond':
                continue
            for x in walk_no_defs(frag):
                if isinstance(x, ast.Assert):
                    _operands(f, n, x.test, 'assert', out, top=True)
                elif isinstance(x, ast.BoolOp):
                    for v in x.values[:-1]:
                        _operands(f, n, v, 'or' if isinstance(x.op, ast.Or) else 'and', out, top=True)
                elif isinstance(x, ast.IfExp):
                    _operands(f, n, x.test, 'ifexp', out, top=True)
                elif isinstance(x, ast.UnaryOp) and isinstance(x.op, ast.Not):
                    _operands(f, n, x.operand, 'not', out, top=True)
                elif isinstance(x, ast.comprehension):
                    for c in x.ifs:
                        _operands(f, n, c, 'branch', out, top=True)
    # dedupe by expr identity
    seen = set()
    uniq = []
    for s in out:
        if id(s.expr) not in seen:
            seen.add(id(s.expr))
            uniq.append(s)
    return uniq


def _operands(f: FuncInfo, n: Node, e: ast.expr, ctx: str, out: List[TruthSite], top: bool) -> None:
    if isinstance(e, ast.BoolOp):
        for v in e.values:
            _operands(f, n, v, ctx, out, False)
        return
    if isinstance(e, ast.UnaryOp) and isinstance(e.op, ast.Not):
        _operands(f, n, e.operand, ctx, out, False)
        return
    if isinstance(e, (ast.Name, ast.Attribute, ast.Subscript, ast.NamedExpr)):
        out.append(TruthSite(f, n, e, ctx))


def static_scalar_optional(prog: Program, f: FuncInfo, e: ast.expr) -> bool:
    """Static type is exactly Optional[int|str] (a protocol scalar such as id / code / message)."""
    ty = types_of(prog)
    t = ty.expr(e, FuncScope(f, ty))
    ms = members(t)
    kinds = {m for m in ms}
    has_none = ('none',) in kinds
    scal = [m for m in ms if m[0] == 'b' and m[1] in ('int', 'str')]
    rest = [m for m in ms if m not in scal and m != ('none',)]
    return has_none and bool(scal) and not rest


def sent_truth(prog: Program, interp: Interp, f: FuncInfo, init: Optional[Set[Env]] = None, recv: Optional[str] = None,
               scalar_rule: bool = False) -> Tuple[List[Tuple[TruthSite, str, FrozenSet[str]]], int]:
    """Returns (flagged sites with reason, number of truthiness sites examined)."""
    res = interp.analyze(f, init or {EMPTY_ENV}, recv=recv or (f.cls.qualname if f.cls else None))
    sites = truth_sites(res)
    flagged: List[Tuple[TruthSite, str, FrozenSet[str]]] = []
    scope = FuncScope(f, interp.types)
    for s in sites:
        kinds: Set[str] = set()
        for env in res.states.get(s.node.id, ()):  # envs on entry to the node
            cx = Ctx(f, scope, recv or (f.cls.qualname if f.cls else None), 99, s.node, ())
            kinds |= interp.ev(s.expr, env, cx)
        if not kinds:
            continue
        k = frozenset(kinds)
        if 'U' in k and (k & frozenset('NF')):
            flagged.append((s, 'the value may be the UNSET sentinel or a set-but-falsy value (None, 0, "", [], false): '
                               'truthiness cannot tell "absent" from "present but falsy"; an identity test against UNSET is required', k))
        elif scalar_rule and 'F' in k and static_scalar_optional(prog, f, s.expr):
            flagged.append((s, 'protocol scalar (id / code / message) tested by truthiness: 0 and "" are legitimate values '
                               'and are treated like None; `is None` / `is not None` is required', k))
    conds = sum(1 for n in res.cfg.nodes if n.kind == 'cond') + sum(
        1 for n in res.cfg.nodes for frag in node_exprs(n) if n.kind != 'cond'
        for x in walk_no_defs(frag) if isinstance(x, (ast.Assert, ast.BoolOp, ast.IfExp)))
    return flagged, conds


def sized_truth_tests(prog, f):
    """Truthiness tests (`if x:` / `x if x else …` / `x and …`) on a local or parameter whose static type is Optional[C] with C a repo
    class defining __len__ or __bool__: for such a value "falsy" is not "None".  Returns [(line, text, why)]."""
    import ast as _ast
    from ..types import FuncScope, members, types_of
    from ..util import classify_cond
    ty = types_of(prog)
    sc = FuncScope(f, ty)
    out = []

    def atoms(e):
        if isinstance(e, _ast.BoolOp):
            for v in e.values:
                yield from atoms(v)
        elif isinstance(e, _ast.UnaryOp) and isinstance(e.op, _ast.Not):
            yield from atoms(e.operand)
        else:
            yield e
    tests = []
    for x in _ast.walk(f.node):
        if isinstance(x, (_ast.If, _ast.While, _ast.IfExp, _ast.Assert)):
            tests += list(atoms(x.test))
        elif isinstance(x, _ast.BoolOp):
            tests += [v for v in x.values[:-1] for v in atoms(v)]
    seen = set()
    for t in tests:
        if id(t) in seen or not isinstance(t, _ast.Name):
            continue
        seen.add(id(t))
        k = classify_cond(prog, f, t)
        if k.kind != 'truthy':
            continue
        tt = ty.expr(t, sc)
        ms = members(tt)
        if not any(m == ('none',) for m in ms):
            continue
        for m in ms:
            if m[0] == 'inst':
                ci = prog.classes.get(m[1])
                if ci is None or ci.module.name != 'pjrpc.common.v20':      # message objects only (sentinels are meant to be falsy)
                    continue
                sized = [n for n in ('__len__', '__bool__') if any(
                    n in c.methods for c in [ci] + prog.subclasses(ci, strict=True))]
                if sized:
                    out.append((t.lineno, _norm_test(t), f'`{t.id}` is Optional[{ci.name}] and {ci.name} (or a subclass) defines {"/".join(sized)}'))
                    break
    return out


def _norm_test(t):
    from ..model import norm
    return norm(t)
