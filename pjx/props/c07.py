"""C07 — calling through client and server equals calling the function, in any notation (structural clauses)."""
from __future__ import annotations

import ast
from typing import Any, Dict, List, Optional, Set, Tuple

from ..cfg import CFG
from ..model import AnalysisError, ClassInfo, FuncInfo, Program, dotted, norm
from ..report import Check
from ..types import FuncScope, members, types_of, walk_own
from ..util import assigned_names, calls_in, classify_cond, guard_edges, short
from ..util import canon_dotted as _cdot
from .cfacts import BASE_CLIENT, ClientRoles, clients, strip_await
from .common import kwarg

BASE_BATCH = 'pjrpc.client.client.BaseBatch'
GENS = 'pjrpc.common.generators'
V20 = 'pjrpc.common.v20'


def request_ctor_calls(f: FuncInfo) -> List[ast.Call]:
    out = []
    for x in walk_own(f.node):
        if isinstance(x, ast.Call) and (dotted(x.func) or '').endswith('request_class'):
            out.append(x)
    return out


def ctor_args(call: ast.Call) -> Dict[str, ast.expr]:
    """Request(method, params=None, id=None) — map to parameter names."""
    names = ['method', 'params', 'id']
    out: Dict[str, ast.expr] = {}
    for i, a in enumerate(call.args):
        if i < len(names):
            out[names[i]] = a
    for kw in call.keywords:
        if kw.arg:
            out[kw.arg] = kw.value
    return out


def send_facts(prog: Program, cr: ClientRoles) -> Tuple[Dict[str, Any], List[Tuple[str, str, int, str]]]:
    """_send: merge request_args then kwargs → dumper(request, cls=encoder) → one _request(text, is_notification, **kwargs) →
    (call) from_json(loader(text, cls=decoder), error_cls=…) → validator(request, response) / (notification) strict∧body → BaseError, None."""
    f = cr.send_impl
    cfg = CFG(f, prog)
    problems: List[Tuple[str, str, int, str]] = []
    facts: Dict[str, Any] = {}
    req = f.params[1].arg
    treq = [(n, c) for n in cfg.stmt_nodes() for c in calls_in(n) if dotted(c.func) == 'self._request']
    facts['transmissions'] = len(treq)
    if len(treq) != 1:
        problems.append(('ONE-TRANSMISSION', f'{len(treq)} transport calls', f.node.lineno,
                         f'{short(f.qualname)} must put exactly one request document on the wire per attempt; found {len(treq)} _request calls'))
        return facts, problems
    tn, tc = treq[0]
    if any(tn.id in cfg.reachable(tn) and e.dst.id == tn.id for e in cfg.succ[tn.id]) or tn.id in {n.id for n in cfg.nodes if n.kind == 'next'}:
        problems.append(('ONE-TRANSMISSION', 'transport call in a loop', tn.line, 'the transport call sits in a loop'))
    # the text handed to the transport is the encoder output of the request object (through locals / tuple unpacking)
    from ..flow import Flow as _Flw
    _fl0 = _Flw(cfg)
    texts = [al.expr for al in _fl0.alts(tn, tc.args[0])] if tc.args else []
    ok_dump = bool(texts) and all(
        isinstance(v, ast.Call) and dotted(v.func) == 'self.json_dumper' and v.args and dotted(v.args[0]) == req and
        any(kw.arg == 'cls' and dotted(kw.value) == 'self.json_encoder' for kw in v.keywords) for v in texts)
    facts['document'] = 'json_dumper(request, cls=json_encoder)' if ok_dump else ' | '.join(norm(v)[:70] for v in texts) or '?'
    if not ok_dump:
        problems.append(('ONE-TRANSMISSION', 'request text is not the encoder output of the request object', tn.line,
                         'the text handed to the transport must be json_dumper(request, cls=json_encoder)'))
    isn = dotted(tc.args[1]) if len(tc.args) > 1 else dotted(kwarg(tc, 'is_notification')) if kwarg(tc, 'is_notification') is not None else None
    facts['is_notification_arg'] = isn == f'{req}.is_notification'
    if isn != f'{req}.is_notification':
        problems.append(('INTEROP-TABLE', 'transport is not told whether a reply is expected', tn.line,
                         f'`{norm(tc)}` must pass {req}.is_notification'))
    # branches on request.is_notification
    branches = [c for c in cfg.nodes if c.kind == 'cond' and classify_cond(prog, f, c.ast).subject == f'{req}.is_notification']
    if len(branches) != 1:
        raise AnalysisError(f'{f.qualname}: expected one branch on {req}.is_notification')
    b = branches[0]
    ckd = classify_cond(prog, f, b.ast)
    call_edge = [e for e in cfg.succ[b.id] if e.label in ('T', 'F') and (e.label == 'F') != ckd.negated][0]
    notif_edge = [e for e in cfg.succ[b.id] if e.label in ('T', 'F') and e is not call_edge][0]
    call_region = (cfg.reachable(call_edge.dst) | {call_edge.dst.id}) - (cfg.reachable(notif_edge.dst) | {notif_edge.dst.id})
    notif_region = (cfg.reachable(notif_edge.dst) | {notif_edge.dst.id}) - (cfg.reachable(call_edge.dst) | {call_edge.dst.id})
    fj = [c for i in call_region for c in calls_in(cfg.nodes[i]) if isinstance(c.func, ast.Attribute) and c.func.attr == 'from_json']
    ok_fj = len(fj) == 1 and dotted(fj[0].func.value) == f.params[2].arg and any(kw.arg == 'error_cls' and dotted(kw.value) == 'self.error_cls' for kw in fj[0].keywords) \
        and fj[0].args and isinstance(fj[0].args[0], ast.Call) and dotted(fj[0].args[0].func) == 'self.json_loader'
    facts['decode'] = 'response_class.from_json(json_loader(text, cls=json_decoder), error_cls=self.error_cls)' if ok_fj else [norm(c)[:60] for c in fj]
    if not ok_fj:
        problems.append(('ERROR-CLASS', 'response is not decoded with the client\'s error class', f.node.lineno,
                         'a call\'s response must be response_class.from_json(json_loader(text), error_cls=self.error_cls)'))
    val = [c for i in call_region for c in calls_in(cfg.nodes[i]) if isinstance(c.func, ast.Name) and c.func.id == f.params[3].arg]
    facts['validated'] = len(val) == 1
    if len(val) != 1 or [dotted(a) for a in val[0].args][:1] != [req]:
        problems.append(('INTEROP-TABLE', 'response is not related to the request', f.node.lineno, 'validator(request, response) must run for every call'))
    else:
        # ... for EVERY call: nothing but the notification test may stand between the decoded response and the validator
        from ..util import stmt_node_of as _sno
        vn_ = _sno(cfg, val[0])
        extra = [g for g in (guard_edges(cfg, vn_) if vn_ is not None else []) if g.src is not b and not isinstance(g.src.ast, ast.Constant)]
        facts['validator_guards'] = sorted(norm(g.src.ast) + ':' + g.label for g in extra)
        if extra:
            problems.append(('INTEROP-TABLE', 'response related to the request only conditionally', vn_.line if vn_ is not None else f.node.lineno,
                             f'`{norm(val[0])}` runs only when {[norm(g.src.ast) + ":" + g.label for g in extra]}: on the other path the response id is '
                             f'never compared with the request id (no IdentityError for a foreign response) and the response is not linked to its request'))
    # notification side: strict ∧ body → error; response None
    nr = [cfg.nodes[i] for i in notif_region if isinstance(cfg.nodes[i].ast, ast.Raise)]
    ok_n = False
    for n in nr:
        conj = set()
        for g in guard_edges(cfg, n):
            k = classify_cond(prog, f, g.src.ast)
            if k.kind == 'truthy' and k.subject == 'self.strict' and (g.label == 'T') != k.negated:
                conj.add('strict')
            if k.kind == 'truthy' and k.subject and 'response_text' in k.subject and (g.label == 'T') != k.negated:
                conj.add('body')
        if {'strict', 'body'} <= conj:
            ok_n = True
    none_assign = any(isinstance(cfg.nodes[i].ast, (ast.Assign, ast.Return)) and isinstance(cfg.nodes[i].ast.value, ast.Constant) and
                      cfg.nodes[i].ast.value.value is None for i in notif_region)
    facts['notification'] = f'strict∧body→error={ok_n}; response None={none_assign}'
    if not (ok_n and none_assign):
        problems.append(('INTEROP-TABLE', 'notification reply handling', f.node.lineno,
                         'for a notification (or all-notification batch) a non-empty body is an error in strict mode and the result is None: '
                         'this must agree with the server, which answers such requests with nothing'))
    # merge of request args: what is splatted into the transport call is the client-wide arguments overridden by the per-call ones
    from ..flow import Flow
    fl = Flow(cfg)
    kwp = f.node.args.kwarg.arg if f.node.args.kwarg else 'kwargs'
    splat = [k.value for k in tc.keywords if k.arg is None]
    order: List[str] = []
    if len(splat) == 1:
        for al in fl.alts(tn, splat[0]):
            v = al.expr
            if isinstance(v, ast.Dict) and all(k is None for k in v.keys):
                order = [norm(x) for x in v.values]
            elif isinstance(v, ast.Call) and dotted(v.func) == 'dict' and len(v.args) == 1 and not v.keywords and isinstance(splat[0], ast.Name):
                upd = [c for m in cfg.stmt_nodes() for c in calls_in(m) if isinstance(c.func, ast.Attribute) and c.func.attr == 'update'
                       and dotted(c.func.value) == splat[0].id and tn.id in cfg.reachable(m) and cfg.dominated_by(tn, [m])]
                order = [norm(v.args[0])] + [norm(c.args[0]) for c in upd if c.args]
            else:
                order = [norm(v)]
    facts['kwargs_merge'] = order
    if order != ['self._request_args', kwp]:
        problems.append(('ONE-TRANSMISSION', 'per-call transport arguments do not override the client-wide ones', f.node.lineno,
                         f'the transport call must receive {{**self._request_args, **{kwp}}} (client-wide arguments overridden by the per-call ones); found {order}'))
    return facts, problems


def _universal_notification(prog: Program, bn: FuncInfo) -> bool:
    """BatchRequest.is_notification is ∀ element: element.is_notification — as all(...) over the stored requests, or as a loop
    that returns False at the first element that is not a notification and True after the loop."""
    rets = [x for x in walk_own(bn.node) if isinstance(x, ast.Return)]
    if rets and all(isinstance(r.value, ast.Call) and dotted(r.value.func) == 'all' and 'is_notification' in norm(r.value)
                    and 'self._requests' in norm(r.value) and ' not ' not in f' {norm(r.value)} ' for r in rets):
        return True
    cfg = CFG(bn, prog)
    heads = [n for n in cfg.nodes if n.kind == 'next']
    if len(heads) != 1 or dotted(heads[0].ast.iter) != 'self._requests':
        return False
    tv = dotted(heads[0].ast.target)
    body = cfg.reachable(heads[0], edge_ok=lambda e: e.label != 'exhausted')
    ok_false = ok_true = False
    for n in cfg.stmt_nodes():
        if n.kind != 'stmt' or not isinstance(n.ast, ast.Return):
            continue
        v = n.ast.value
        if not (isinstance(v, ast.Constant) and isinstance(v.value, bool)):
            return False
        in_loop = n.id in body and heads[0].id in cfg.reachable(n) or (n.id in body and any(
            classify_cond(prog, bn, g.src.ast).subject == f'{tv}.is_notification' for g in guard_edges(cfg, n)))
        st = None
        for g in guard_edges(cfg, n):
            k = classify_cond(prog, bn, g.src.ast)
            if k.kind == 'truthy' and k.subject == f'{tv}.is_notification':
                st = (g.label == 'T') != k.negated
        if v.value is False:
            if st is not False:
                return False
            ok_false = True
        else:
            if st is not None:
                return False
            # True only once the loop is exhausted
            if n.id in cfg.reachable(cfg.entry, avoid_edges=[e for e in cfg.succ[heads[0].id] if e.label == 'exhausted']):
                return False
            ok_true = True
    return ok_false and ok_true


def run(ck: Check, prog: Program) -> None:
    ck.explain('Structural necessary conditions only: every call notation funnels into one request construction with an id drawn from '
               'the generator (notifications pass none; one generator instance per batch; positional xor named arguments; the method '
               'name reaches the constructor unmodified); every public id generator yields str or int; _send puts one document on the '
               'wire, decodes with the client\'s error class, relates the response, and for notifications treats a body as an error in '
               'strict mode — matching the server rule that notifications and all-notification batches are answered with nothing; '
               'is_notification definitions (id is None; all() over a batch).')
    ck.not_decided += ['value equality of results / arguments end to end', 'interchangeability of notations on concrete data (runtime values)']
    from .cfacts import client_program
    prog = client_program(prog)
    crs = clients(prog)
    base = prog.cls(BASE_CLIENT)
    ty = types_of(prog)
    # ---- NOTATION-SHAPE: single calls ---------------------------------------------------------------
    for cr in crs:
        for f, want_id in ((cr.call, 'generated'), (cr.notify, 'none')):
            ck.functions.add(f.qualname)
            problems = []
            rc = request_ctor_calls(f)
            if len(rc) != 1:
                problems.append(f'{len(rc)} request constructions')
            else:
                a = ctor_args(rc[0])
                m = dotted(a.get('method')) if a.get('method') is not None else None
                if m != f.params[1].arg:
                    problems.append(f'method name `{norm(a.get("method")) if a.get("method") is not None else "?"}` is not the notation\'s method argument')
                p = a.get('params')
                vararg, kwarg_ = f.node.args.vararg, f.node.args.kwarg
                from ..flow import Flow as _F
                from ..util import stmt_node_of as _sno
                _cfg = CFG(f, prog)
                _n = _sno(_cfg, rc[0])
                _fl = _F(_cfg)
                p_alts = [al.expr for al in _fl.alts(_n, p)] if (p is not None and _n is not None) else []
                if not (len(p_alts) == 1 and isinstance(p_alts[0], ast.BoolOp) and isinstance(p_alts[0].op, ast.Or) and vararg and kwarg_ and
                        [dotted(v) for v in p_alts[0].values] == [vararg.arg, kwarg_.arg]):
                    problems.append(f'params `{norm(p) if p is not None else "?"}` is not `args or kwargs`')
                i = a.get('id')
                if i is not None and _n is not None:
                    i_alts = [al.expr for al in _fl.alts(_n, i)]
                    if len(i_alts) == 1:
                        i = i_alts[0]
                if want_id == 'none':
                    if not (i is None or (isinstance(i, ast.Constant) and i.value is None)):
                        problems.append(f'a notification is built with id `{norm(i)}`')
                else:
                    ok_i = isinstance(i, ast.Call) and dotted(i.func) == 'next' and len(i.args) == 1 and \
                        isinstance(i.args[0], ast.Call) and dotted(i.args[0].func) == 'self.id_gen_impl'
                    if not ok_i:
                        problems.append(f'call id `{norm(i) if i is not None else "<missing>"}` is not drawn from the configured id generator')
            # positional xor named
            asserts = [x for x in walk_own(f.node) if isinstance(x, ast.Assert)]
            va, kw = f.node.args.vararg, f.node.args.kwarg

            def _exclusive(t: ast.expr) -> bool:
                """`not (args and kwargs)` or its De Morgan form `not args or not kwargs` (either order)"""
                if isinstance(t, ast.UnaryOp) and isinstance(t.op, ast.Not) and isinstance(t.operand, ast.BoolOp) and \
                        isinstance(t.operand.op, ast.And):
                    return va is not None and kw is not None and sorted(dotted(v) or '?' for v in t.operand.values) == sorted([va.arg, kw.arg])
                if isinstance(t, ast.BoolOp) and isinstance(t.op, ast.Or) and len(t.values) == 2 and \
                        all(isinstance(v, ast.UnaryOp) and isinstance(v.op, ast.Not) for v in t.values):
                    return va is not None and kw is not None and \
                        sorted(dotted(v.operand) or '?' for v in t.values) == sorted([va.arg, kw.arg])     # type: ignore[attr-defined]
                return False
            if not any(_exclusive(x.test) for x in asserts):
                problems.append('positional and named arguments are not mutually exclusive')
            # sends it
            sends = [x for x in walk_own(f.node) if isinstance(x, ast.Call) and dotted(x.func) == 'self.send']
            var = None
            for st in walk_own(f.node):
                if isinstance(st, ast.Assign) and st.value in rc:
                    var = dotted(st.targets[0])
            if len(sends) != 1 or not sends[0].args or dotted(sends[0].args[0]) != var:
                problems.append('the constructed request is not what is sent')
            if want_id == 'generated':
                rets = [x for x in walk_own(f.node) if isinstance(x, ast.Return)]
                if not rets or not all(norm(r.value).endswith('.result') for r in rets if r.value is not None):
                    problems.append('call does not return response.result')
            ck.ob('NOTATION-SHAPE', f'{short(f.qualname)}: one request, id {want_id}, method and params as given', not problems)
            for p_ in problems:
                ck.finding('NOTATION-SHAPE', f.qualname, p_[:70], f.module.rel, f.node.lineno, f'{short(f.qualname)}: {p_}')
    # __call__ and proxy
    call_dunder = base.methods.get('__call__')
    ok = call_dunder is not None and any(isinstance(x, ast.Return) and isinstance(x.value, ast.Call) and dotted(x.value.func) == 'self.call'
                                         and x.value.args and dotted(x.value.args[0]) == call_dunder.params[1].arg for x in walk_own(call_dunder.node))
    if not ok and call_dunder is not None:
        # the same delegation through functools.partial: `partial(self.call, method, …)(*args, **kwargs)`, directly or held in a local
        from ..flow import Flow as _FlowC
        from ..util import stmt_node_of as _snoC
        ccfg = CFG(call_dunder, prog)
        cfl = _FlowC(ccfg)
        for x in walk_own(call_dunder.node):
            if isinstance(x, ast.Return) and isinstance(x.value, ast.Call):
                n_x = _snoC(ccfg, x.value)
                fs = [al.expr for al in cfl.alts(n_x, x.value.func)] if n_x is not None else [x.value.func]
                if fs and all(isinstance(v_, ast.Call) and (dotted(v_.func) or '').rsplit('.', 1)[-1] == 'partial' and len(v_.args) >= 2 and
                              dotted(v_.args[0]) == 'self.call' and dotted(v_.args[1]) == call_dunder.params[1].arg for v_ in fs):
                    ok = True
    ck.ob('NOTATION-SHAPE', 'client(method, …) delegates to call with the method name unchanged', ok)
    if not ok:
        ck.finding('NOTATION-SHAPE', base.qualname + '.__call__', 'delegation to call', base.module.rel, base.node.lineno, '__call__ must delegate to self.call(method, *args, **kwargs)')
    proxy = base.nested.get('Proxy')
    ga = proxy.methods.get('__getattr__') if proxy else None
    ok = ga is not None and any(isinstance(x, ast.Return) and isinstance(x.value, ast.Call) and dotted(x.value.func) in ('ft.partial', 'functools.partial') and
                                [dotted(a) for a in x.value.args] == ['self._client.call', ga.params[1].arg] for x in walk_own(ga.node))
    ck.ob('NOTATION-SHAPE', 'client.proxy.<name>(…) is call(<name>, …)', ok)
    if not ok:
        ck.finding('NOTATION-SHAPE', base.qualname + '.Proxy.__getattr__', 'proxy attribute is not call(attr)', base.module.rel, base.node.lineno,
                   'the proxy must turn attribute access into partial(client.call, <attribute name>)')
    # ---- batch notations ----------------------------------------------------------------------------
    bb = prog.cls(BASE_BATCH)
    binit = bb.methods['__init__']
    gen_attr = None
    for st in walk_own(binit.node):
        if isinstance(st, ast.Assign) and isinstance(st.value, ast.Call) and (dotted(st.value.func) or '').endswith('.id_gen_impl'):
            gen_attr = dotted(st.targets[0])
    n_gen_assign = sum(1 for m in bb.methods.values() for x in walk_own(m.node) if isinstance(x, ast.Attribute) and isinstance(x.ctx, ast.Store)
                       and gen_attr and dotted(x) == gen_attr)
    ck.ob('NOTATION-SHAPE', 'a batch draws all its ids from one generator instance created with the batch', gen_attr is not None and n_gen_assign == 1)
    if gen_attr is None or n_gen_assign != 1:
        ck.finding('NOTATION-SHAPE', binit.qualname, 'one id generator per batch', binit.module.rel, binit.node.lineno,
                   'BaseBatch must create exactly one id generator instance; ids of the calls of one batch must be pairwise distinct')
    for mname, want_id in (('add', 'generated'), ('notify', 'none'), ('__getitem__', 'generated')):
        f = bb.methods.get(mname)
        if f is None:
            raise AnalysisError(f'BaseBatch.{mname} not found')
        ck.functions.add(f.qualname)
        problems = []
        rc = request_ctor_calls(f)
        if len(rc) != 1:
            problems.append(f'{len(rc)} request constructions')
        else:
            a = ctor_args(rc[0])
            i = a.get('id')
            if want_id == 'none':
                if i is not None and not (isinstance(i, ast.Constant) and i.value is None):
                    problems.append(f'a notification is added with id `{norm(i)}`')
            else:
                if not (isinstance(i, ast.Call) and dotted(i.func) == 'next' and len(i.args) == 1 and dotted(i.args[0]) == gen_attr):
                    problems.append(f'id `{norm(i) if i is not None else "<missing>"}` is not next(<the batch\'s generator>)')
            m = a.get('method')
            if m is None or dotted(m) != 'method':
                problems.append(f'method name `{norm(m) if m is not None else "?"}` is not the notation\'s method argument')
            p = a.get('params')
            if mname != '__getitem__':
                # through locals: `params = args or kwargs`
                from ..flow import Flow as _F
                from ..util import stmt_node_of as _sno
                _cfg = CFG(f, prog)
                _n = _sno(_cfg, rc[0])
                p_alts = [al.expr for al in _F(_cfg).alts(_n, p)] if (p is not None and _n is not None) else []
                if not (len(p_alts) == 1 and isinstance(p_alts[0], ast.BoolOp) and isinstance(p_alts[0].op, ast.Or) and
                        [dotted(v) for v in p_alts[0].values] == ['args', 'kwargs']):
                    problems.append(f'params `{norm(p) if p is not None else "?"}` is not `args or kwargs`')
                stored = False
                for n__ in _cfg.stmt_nodes():
                    for x in calls_in(n__):
                        if isinstance(x.func, ast.Attribute) and x.func.attr == 'append' and len(x.args) == 1 and \
                                any(al.expr is rc[0] for al in _F(_cfg).alts(n__, x.args[0])):
                            stored = True
                if not stored:
                    problems.append('the request is not appended to the batch')
            else:
                if dotted(p) != 'params':
                    problems.append(f'params `{norm(p) if p is not None else "?"}`')
                # the requests handed to the batch are built for every item of the argument, in order (comprehension or loop)
                from ..flow import Flow
                cfg_ = CFG(f, prog)
                fl_ = Flow(cfg_)
                ok_c = False
                for n_ in cfg_.stmt_nodes():
                    for c_ in calls_in(n_):
                        if isinstance(c_.func, ast.Attribute) and c_.func.attr == 'extend' and len(c_.args) == 1:
                            sqs = fl_.seq(n_, c_.args[0])
                            if len(sqs) == 1 and sqs[0].kind == 'iter' and sqs[0].total and not sqs[0].reordered and \
                                    dotted(sqs[0].iter) == f.params[1].arg and len(sqs[0].elt) == 1 and sqs[0].elt[0].expr is rc[0]:
                                ok_c = True
                if not ok_c:
                    problems.append('requests are not built for every item, in order')
        ck.ob('NOTATION-SHAPE', f'BaseBatch.{mname}: one request per call, id {want_id}', not problems)
        for p_ in problems:
            ck.finding('NOTATION-SHAPE', f.qualname, p_[:70], f.module.rel, f.node.lineno, f'BaseBatch.{mname}: {p_}')
    cd = bb.methods.get('__call__')
    ok = cd is not None and any(isinstance(x, ast.Return) and norm(x.value) == 'self.add(method, *args, **kwargs)' for x in walk_own(cd.node))
    ck.ob('NOTATION-SHAPE', 'batch(method, …) is batch.add(method, …)', ok)
    if not ok:
        ck.finding('NOTATION-SHAPE', bb.qualname + '.__call__', 'batch call notation', bb.module.rel, bb.node.lineno, 'batch(...) must delegate to add')
    bp = bb.nested.get('BaseProxy')
    ga = bp.methods.get('__getattr__') if bp else None
    ok = ga is not None and any(isinstance(x, ast.Call) and norm(x) == f'self._batch.add({ga.params[1].arg}, *args, **kwargs)' for w in ga.nested.values() for x in walk_own(w.node))
    ck.ob('NOTATION-SHAPE', 'batch.proxy.<name>(…) is batch.add(<name>, …)', ok)
    if not ok:
        ck.finding('NOTATION-SHAPE', bb.qualname + '.BaseProxy.__getattr__', 'batch proxy notation', bb.module.rel, bb.node.lineno,
                   'the batch proxy must turn attribute access into batch.add(<attribute name>, …)')
    # Batch.call / send
    for cq in ('pjrpc.client.client.Batch', 'pjrpc.client.client.AsyncBatch'):
        ci = prog.cls(cq)
        call, send = ci.methods['call'], ci.methods['send']
        ok_c = any(isinstance(x, ast.Call) and dotted(x.func) == 'self.send' and x.args and dotted(x.args[0]) == 'self._requests' for x in walk_own(call.node))
        kws = set()
        for x in walk_own(send.node):
            if isinstance(x, ast.Call) and (_cdot(send, x.func) or dotted(x.func)) == 'self._client._send':
                kws = {kw.arg for kw in x.keywords if kw.arg}
                kv = {kw.arg: (_cdot(send, kw.value) or norm(kw.value)) for kw in x.keywords if kw.arg}
        ok_s = kws >= {'response_class', 'validator', '_trace_ctx'} and kv.get('response_class') == 'self._client.batch_response_class' and kv.get('validator') == 'self._relate'
        ck.ob('NOTATION-SHAPE', f'{ci.name}.call sends the accumulated batch through the client\'s _send with the batch response class and validator', ok_c and ok_s)
        if not (ok_c and ok_s):
            ck.finding('NOTATION-SHAPE', call.qualname, 'batch send wiring', ci.module.rel, call.node.lineno,
                       f'{ci.name}.call/send must send self._requests via client._send(response_class=batch_response_class, validator=self._relate)')
    # ---- _send ---------------------------------------------------------------------------------------
    for cr in crs:
        ck.functions.add(cr.send_impl.qualname)
        facts, problems = send_facts(prog, cr)
        for rule in ('ONE-TRANSMISSION', 'INTEROP-TABLE', 'ERROR-CLASS'):
            bad = [p for p in problems if p[0] == rule]
            ck.ob(rule, f'{cr.cls.name}._send: {rule}', not bad, sample={'facts': facts} if rule == 'ONE-TRANSMISSION' else None)
        for rule, construct, line, msg in problems:
            ck.finding(rule, cr.send_impl.qualname, construct, cr.cls.module.rel, line, msg)
    # ---- REQUEST-WIRE: the document on the wire has an id iff the request is a call (identity, so ids 0 and "" are kept) ---------
    from .wire import REQUEST_SPEC, check_wire_shape
    rtj = prog.func(V20 + '.Request.to_json')
    ck.functions.add(rtj.qualname)
    wp, _n = check_wire_shape(prog, rtj, REQUEST_SPEC)
    ck.ob('REQUEST-WIRE', 'Request.to_json: jsonrpc, method always; id iff not None; params iff non-empty', not wp)
    for construct, msg, line in wp:
        ck.finding('REQUEST-WIRE', rtj.qualname, construct, rtj.module.rel, line, msg)
    # ---- server side of the round trip ---------------------------------------------------------------------
    # (a) a server error reaches the caller as the exception class registered for its code (typed except clauses)
    from .c05 import _registry
    from .c06 import model_program
    _registry(ck, model_program(prog))
    # (b) the results of a batch come back in request order: the dispatcher maps the batch to its responses in order
    from .common import dispatcher_program, dispatchers
    from .dfacts import batch_facts
    dprog = dispatcher_program(prog)
    # (c) named and positional notations reach the function alike: the binder hands over exactly the caller's arguments
    from .c04 import _bind_strict
    _bind_strict(ck, prog)
    # (d) an exception raised by the method reaches the caller as the same class in every configuration: protocol errors verbatim,
    #     anything else as ServerError (the dispatcher's error mapping, C03 rule reused)
    from . import c01 as _c01
    from .dfacts import errmap_facts
    _roles = dispatchers(dprog)
    _interp = _c01.make_interp(dprog, _roles)
    for r_ in _roles:
        _, ep = errmap_facts(dprog, _interp, r_)
        bad = [p_ for p_ in ep if p_[0] in ('ERRMAP', 'VERBATIM')]
        ck.ob('ERROR-CLASS', f'{r_.cls.name}: method failures are mapped to the protocol error classes the client raises', not bad)
        for rule, construct, line, msg in bad:
            ck.finding('ERROR-CLASS', r_.handle_rpc_method.qualname, construct, r_.dispatch.module.rel, line, msg)
    # (d') "an exception … with the same code, message and data the function raised": the error members are read back with UNSET as the
    #      absent marker — `data: null` is data, not the absence of data
    from . import c06 as _c06x
    _c06x._presence_by_identity(ck, _c06x.model_program(prog))
    from . import borrow
    borrow(ck, prog, 'C01', {'EMPTY-BATCH'}, 'batches made only of notifications return nothing')
    borrow(ck, prog, 'C08', {'RELATE-STRICT'}, 'the caller obtains the value: an answer with the request\'s own id is accepted')
    # (e) the function is actually run, once: the bound method is invoked exactly once and, on the async side, what it returned is
    #     awaited whenever it is awaitable (decided on the returned object)
    from .dfacts import method_call_facts
    for r_ in _roles:
        _, mp = method_call_facts(dprog, _interp, r_)
        bad = [p_ for p_ in mp if p_[0] == 'ONCE-INVOKE']
        ck.ob('ONCE-INVOKE', f'{r_.cls.name}: the addressed function runs exactly once per accepted call', not bad)
        for rule, construct, line, msg in bad:
            ck.finding('ONCE-INVOKE', r_.handle_rpc_method.qualname, construct, r_.dispatch.module.rel, line, msg)
    for r_ in _roles:
        ck.functions.add(r_.dispatch.qualname)
        _, bp = batch_facts(dprog, r_)
        bad = [p_ for p_ in bp if p_[0] in ('ORDER-MAP', 'PER-ELEMENT-ONCE')]
        ck.ob('ORDER-MAP', f'{r_.cls.name}.dispatch: every element of a batch is handled once and the responses are collected in request order', not bad)
        for rule, construct, line, msg in bad:
            ck.finding('ORDER-MAP', r_.dispatch.qualname, construct, r_.dispatch.module.rel, line, msg)
    # ---- IS-NOTIF-DEF ----------------------------------------------------------------------------------
    from ..flow import Flow as _Flow
    rn = prog.func(V20 + '.Request.is_notification')
    cfg_r = CFG(rn, prog)
    fl_r = _Flow(cfg_r)

    def _id_none(c: ast.expr, pol: bool) -> Optional[bool]:
        k = classify_cond(prog, rn, c)
        if k.kind == 'is-none' and k.subject in ('self.id', 'self._id'):
            return (not k.negated) == pol
        return None
    ok = False
    rets_r = [n for n in cfg_r.stmt_nodes() if n.kind == 'stmt' and isinstance(n.ast, ast.Return)]
    if rets_r:
        ok = True
        for n in rets_r:
            for al in (fl_r.alts(n, n.ast.value) if n.ast.value is not None else []):
                v = al.expr
                direct = _id_none(v, True)
                if direct is True and not al.guards:
                    continue
                if direct is True:
                    continue
                if isinstance(v, ast.Constant) and isinstance(v.value, bool):
                    est = [x for x in (_id_none(c, p) for c, p in al.guards) if x is not None]
                    if est and est[-1] == v.value:
                        continue
                ok = False
            if n.ast.value is None:
                ok = False
    ck.ob('IS-NOTIF-DEF', 'Request.is_notification ⇔ id is None', ok)
    if not ok:
        ck.finding('IS-NOTIF-DEF', rn.qualname, 'notification definition', rn.module.rel, rn.node.lineno, 'a request is a notification iff its id is None (identity, not truthiness: id 0 is a call)')
    bn = prog.func(V20 + '.BatchRequest.is_notification')
    ok = _universal_notification(prog, bn)
    ck.ob('IS-NOTIF-DEF', 'BatchRequest.is_notification is the universal (all) over its elements', ok)
    if not ok:
        ck.finding('IS-NOTIF-DEF', bn.qualname, 'batch notification definition', bn.module.rel, bn.node.lineno,
                   'a batch expects no reply only if ALL elements are notifications; with `any` the responses of mixed batches are silently dropped')
    # ---- BATCH-RESULT-STORAGE-ORDER ---------------------------------------------------------------------
    from .c08 import result_iteration
    it_attr, reorder = result_iteration(prog)
    brf = prog.func(V20 + '.BatchResponse.result')
    ck.functions.add(brf.qualname)
    ck.ob('RESULT-ATTRIB', 'BatchResponse.result reads the stored responses in storage order (no sort / reverse / set)', it_attr is not None and not reorder)
    if reorder:
        ck.finding('RESULT-ATTRIB', brf.qualname, f'batch results re-ordered by {reorder[0]}', brf.module.rel, reorder[1],
                   f'BatchResponse.result iterates `{reorder[2]}`: the values a batch returns are permuted relative to the calls '
                   f'(e.g. with a non-monotonic id generator), so the caller does not obtain the value of the function it called')
    from .wire import ctor_precedence_problems as _cpp
    _ci = prog.cls('pjrpc.common.exceptions.JsonRpcError')
    _pp = _cpp(prog, _ci)
    ck.ob('CTOR-PRECEDENCE', 'JsonRpcError.__init__: a given code / message wins over the class-level default', not _pp)
    for _c, _m, _l in _pp:
        ck.finding('CTOR-PRECEDENCE', _ci.qualname + '.__init__', _c, _ci.module.rel, _l, _m)
    # ---- IDGEN-TYPE -------------------------------------------------------------------------------------
    gm = prog.modules.get(GENS)
    if gm is None:
        raise AnalysisError('pjrpc.common.generators not found')
    gens = [b.target for n_, b in gm.ns.items() if b.kind == 'func' and not n_.startswith('_')]
    ck.require('IDGEN-TYPE', 'public id generators', len(gens), 4)
    for g in gens:
        ck.functions.add(g.qualname)
        t = ty.ann(g.node.returns, g.module)
        yt = t[1] if t[0] == 'gen' else t
        ok = all(m[0] == 'b' and m[1] in ('int', 'str') for m in members(yt))
        # yield expressions agree with the annotation for the external constructors we can see
        for x in walk_own(g.node):
            if isinstance(x, ast.Yield) and isinstance(x.value, ast.Call):
                ent = prog.resolve(g.module, x.value.func)
                if isinstance(ent, str) and ent.startswith('uuid.'):
                    ok = False
        ck.ob('IDGEN-TYPE', f'{short(g.qualname)} yields str | int (the JSON-RPC id type the client declares for id_gen_impl)', ok,
              sample={'declared_yield': norm(g.node.returns) if g.node.returns is not None else None})
        if not ok:
            ck.finding('IDGEN-TYPE', g.qualname, 'generator yields a value that is not a JSON-RPC id (str | int)', g.module.rel, g.node.lineno,
                       f'{short(g.qualname)} is declared `{norm(g.node.returns) if g.node.returns is not None else "?"}`: its values are not str/int, so '
                       f'Request(id=next(gen)) cannot be serialised by json.dumps (TypeError: Object of type UUID is not JSON serializable) — '
                       f'every call made with this built-in generator fails before anything is sent')


MUTANTS = [
    dict(name='notify-with-generated-id', file='pjrpc/client/client.py', nth=0, find='        request = self.request_class(\n            id=None,\n',
         replace='        request = self.request_class(\n            id=next(self.id_gen_impl()),\n', expect='NOTATION-SHAPE'),
    dict(name='batch-add-constant-id', file='pjrpc/client/client.py', find='self._requests.append(self._client.request_class(method, args or kwargs, id=next(self._id_gen)))',
         replace='self._requests.append(self._client.request_class(method, args or kwargs, id=1))', expect='NOTATION-SHAPE'),
    dict(name='batch-is-notification-any', file='pjrpc/common/v20.py', find="return all(map(op.attrgetter('is_notification'), self._requests))",
         replace="return any(map(op.attrgetter('is_notification'), self._requests))", expect='IS-NOTIF-DEF'),
    dict(name='notification-truthiness', file='pjrpc/common/v20.py', find='        return self.id is None\n', replace='        return not self.id\n', expect='IS-NOTIF-DEF'),
    dict(name='send-twice', file='pjrpc/client/client.py', nth=0,
         find='        response_text = self._request(request_text, request.is_notification, **kwargs)\n',
         replace='        response_text = self._request(request_text, request.is_notification, **kwargs) or self._request(request_text, request.is_notification, **kwargs)\n',
         expect='ONE-TRANSMISSION'),
    dict(name='drop-error-cls', file='pjrpc/client/client.py', nth=1, find='self.json_loader(response_text, cls=self.json_decoder), error_cls=self.error_cls,',
         replace='self.json_loader(response_text, cls=self.json_decoder),', expect='ERROR-CLASS'),
    dict(name='proxy-lowercases-name', file='pjrpc/client/client.py', find='return ft.partial(self._client.call, attr)', replace='return ft.partial(self._client.call, attr.lower())',
         expect='NOTATION-SHAPE'),
    dict(name='getitem-new-generator-per-item', file='pjrpc/client/client.py', find='                id=next(self._id_gen),\n            ) for method, *params in requests',
         replace='                id=next(self._client.id_gen_impl()),\n            ) for method, *params in requests', expect='NOTATION-SHAPE'),
    dict(name='strict-ignored-for-notification-body', file='pjrpc/client/client.py', nth=0, find='            if self.strict and response_text:\n',
         replace='            if response_text is None:\n', expect='INTEROP-TABLE'),
    dict(name='registry-subclass-filter', file='pjrpc/common/exceptions.py', find='        return type(cls).__errors_mapping__.get(code, default)\n',
         replace='        found = type(cls).__errors_mapping__.get(code, default)\n        return found if issubclass(found, default) else default\n', expect='REGISTRY'),
    dict(name='async-batch-completion-order', file='pjrpc/server/dispatcher.py',
         find='results = await asyncio.gather(*(self._request_handler(req, context) for req in request))',
         replace='results = [await t for t in asyncio.as_completed([asyncio.ensure_future(self._request_handler(req, context)) for req in request])]',
         expect='ORDER-MAP'),
]
