"""Wire-form rules shared by C01 / C03 / C05: which members a `to_json` writes, and under which guard."""
from __future__ import annotations

import ast
from typing import Dict, List, Optional, Tuple

from ..cfg import CFG
from ..model import AnalysisError, ClassInfo, FuncInfo, Program, dotted, norm
from ..types import walk_own
from ..util import classify_cond, const_value, edge_postdominated_by, guard_edges, key_writes


def ctor_field_of_param(prog: Program, ci: ClassInfo) -> Dict[str, str]:
    """param name -> attribute name for `self.<attr> = <param>` assignments in the constructor
    (also `self.<attr> = <param> or …` / conditional forms: the attribute that receives the param)."""
    init = prog.find_method(ci, '__init__')
    out: Dict[str, str] = {}
    if init is None:
        return out
    params = {p.arg for p in init.params[1:]}
    def one(tg: ast.expr, v: ast.expr, direct: bool) -> None:
        if isinstance(tg, (ast.Tuple, ast.List)) and isinstance(v, (ast.Tuple, ast.List)) and len(tg.elts) == len(v.elts):
            for t_, v_ in zip(tg.elts, v.elts):      # self._a, self._b = a, b
                one(t_, v_, direct)
            return
        if isinstance(tg, ast.Attribute) and isinstance(tg.value, ast.Name) and tg.value.id == 'self':
            if direct:
                names = [v.id] if isinstance(v, ast.Name) else []
            else:
                names = [x.id for x in ast.walk(v) if isinstance(x, ast.Name)] if isinstance(v, (ast.BoolOp, ast.IfExp)) else []
                names = names[:1]        # `self.name = name or method.__name__`: the attribute receives the FIRST alternative
            for nm in names:
                if nm in params and nm not in out:
                    out[nm] = tg.attr
    stmts = sorted((st for st in walk_own(init.node) if isinstance(st, (ast.Assign, ast.AnnAssign))), key=lambda st: (st.lineno, st.col_offset))
    for direct in (True, False):         # plain `self.x = param` first, conditional / defaulted forms second
        for st in stmts:
            if isinstance(st, ast.Assign) and len(st.targets) == 1:
                one(st.targets[0], st.value, direct)
            elif isinstance(st, ast.AnnAssign) and st.value is not None:
                one(st.target, st.value, direct)
    return out


class _G:
    """A condition under which a member is written: a dominating branch edge or an expression-level condition."""
    def __init__(self, cond: ast.expr, pol: bool, edge=None):
        self.cond, self.pol, self.edge = cond, pol, edge
        self.label = 'T' if pol else 'F'

    class _S:
        def __init__(self, a):
            self.ast = a
    @property
    def src(self):
        return _G._S(self.cond)


def check_wire_shape(prog: Program, f: FuncInfo, spec: Dict[str, Tuple[str, str]]) -> Tuple[List[Tuple[str, str, int]], int]:
    """spec: key -> ('const', value) | ('always', ctor param) | ('iff-set', ctor param).
    Returns (problems [(construct, message, line)], number of sub-obligations checked)."""
    ci = f.cls
    assert ci is not None
    cfg = CFG(f, prog)
    fields = ctor_field_of_param(prog, ci)
    writes = key_writes(cfg)
    problems: List[Tuple[str, str, int]] = []
    n_ob = 0
    # the dict that is returned
    ret_vars = set()
    def add_ret(e: ast.expr) -> None:
        if isinstance(e, ast.IfExp):
            add_ret(e.body)
            add_ret(e.orelse)
            ret_vars.add('<return>')
        elif dotted(e):
            ret_vars.add(dotted(e))
        elif isinstance(e, ast.Dict):
            ret_vars.add('<return>')
            for k_, v_ in zip(e.keys, e.values):
                if k_ is None and dotted(v_):
                    ret_vars.add(dotted(v_))      # {**local, ...}: the members of the local are part of what is returned
    for n in cfg.stmt_nodes():
        if isinstance(n.ast, ast.Return) and n.ast.value is not None:
            add_ret(n.ast.value)
    writes = [w for w in writes if w.var in ret_vars]
    keys = {w.key for w in writes}
    n_ob += 1
    for k in sorted(keys - set(spec)):
        w = [x for x in writes if x.key == k][0]
        problems.append((f'extra member {k!r}', f'wire form writes a member {k!r} that the JSON-RPC 2.0 object does not have', w.node.line))
    for k, (mode, arg) in spec.items():
        ws = [w for w in writes if w.key == k]
        n_ob += 1
        if not ws:
            problems.append((f'member {k!r} missing', f'wire form never writes member {k!r}', f.node.lineno))
            continue
        for w in ws:
            guards = [_G(g.src.ast, g.label == 'T', g) for g in guard_edges(cfg, w.node)] + [_G(c_, p_) for c_, p_ in w.extra]
            if mode in ('const', 'always'):
                if guards or cfg.exit.id in cfg.reachable(cfg.entry, avoid_nodes=[w.node],
                                                          edge_ok=lambda e: e.label != 'exc'):
                    problems.append((f'member {k!r} conditional',
                                     f'member {k!r} must be written unconditionally but is guarded by '
                                     f'{[norm(g.src.ast) + ":" + g.label for g in guards] or "a skipping path"}', w.node.line))
                n_ob += 1
                if mode == 'const':
                    known, val = const_value(prog, f, w.value, ci) if w.value is not None else (False, None)
                    if not known or val != arg:
                        problems.append((f'member {k!r} value', f'member {k!r} must be the constant {arg!r}, found '
                                         f'{norm(w.value) if w.value is not None else "?"} = {val!r}', w.node.line))
                else:
                    fld = fields.get(arg)
                    if fld is None:
                        raise AnalysisError(f'{ci.qualname}.__init__: no attribute stores parameter {arg!r}')
                    if w.value is None or not _reads_field(prog, ci, w.value, fld, cfg, w.node):
                        problems.append((f'member {k!r} value', f'member {k!r} must carry the {arg!r} the object was built with, '
                                         f'found {norm(w.value) if w.value is not None else "?"}', w.node.line))
            elif mode in ('iff-not-none', 'iff-truthy'):
                fld = fields.get(arg)
                if fld is None:
                    raise AnalysisError(f'{ci.qualname}.__init__: no attribute stores parameter {arg!r}')
                want_kind = 'is-none' if mode == 'iff-not-none' else 'truthy'
                ok_edge = None
                bad = None
                for g in guards:
                    ck = classify_cond(prog, f, g.src.ast)
                    subj_ok = ck.subject in (f'self.{fld}',) or _is_getter_of(prog, ci, ck.subject, fld)
                    if not subj_ok:
                        bad = f'additional guard `{norm(g.src.ast)}` on member {k!r}'
                    elif ck.kind == 'is-none' and mode == 'iff-not-none':
                        if (g.label == 'T') == ck.negated:
                            ok_edge = g
                        else:
                            bad = f'written when {arg!r} IS None'
                    elif ck.kind == 'truthy' and mode == 'iff-truthy':
                        if (g.label == 'T') != ck.negated:
                            ok_edge = g
                        else:
                            bad = f'written when {arg!r} is empty'
                    elif ck.kind == 'truthy' and mode == 'iff-not-none':
                        bad = (f'guard `{norm(g.src.ast)}` tests truthiness of {arg!r}: the legitimate values 0 and "" would be '
                               f'dropped from the wire form (a call would turn into a notification); `is not None` required')
                    else:
                        bad = f'guard `{norm(g.src.ast)}` is not the expected {want_kind} test of {arg!r}'
                n_ob += 2
                if bad:
                    problems.append((f'member {k!r} guard', f'member {k!r}: {bad}', w.node.line))
                elif ok_edge is None:
                    problems.append((f'member {k!r} guard', f'member {k!r} must be written iff {arg!r} is '
                                     f'{"not None" if mode == "iff-not-none" else "non-empty"}; no such guard dominates the write', w.node.line))
                elif ok_edge.edge is not None and not edge_postdominated_by(cfg, ok_edge.edge, [w.node]):
                    problems.append((f'member {k!r} guard', f'member {k!r}: a path on which it should be written reaches the return without it', w.node.line))
                if w.value is not None and not _reads_field(prog, ci, w.value, fld, cfg, w.node):
                    problems.append((f'member {k!r} value', f'member {k!r} must carry the {arg!r} the object was built with, '
                                     f'found {norm(w.value)}', w.node.line))
            else:  # iff-set
                fld = fields.get(arg)
                if fld is None:
                    raise AnalysisError(f'{ci.qualname}.__init__: no attribute stores parameter {arg!r}')
                ok_edge = None
                bad = None
                for g in guards:
                    ck = classify_cond(prog, f, g.src.ast)
                    subj_ok = ck.subject in (f'self.{fld}',) or _is_getter_of(prog, ci, ck.subject, fld)
                    if ck.kind == 'is-unset' and subj_ok:
                        # edge on which the value is known NOT to be UNSET
                        is_set_edge = (g.label == 'T') == ck.negated
                        if is_set_edge:
                            ok_edge = g
                        else:
                            bad = f'written when {arg!r} IS unset'
                    elif ck.kind in ('truthy', 'is-none') and subj_ok:
                        bad = (f'guard `{norm(g.src.ast)}` tests truthiness/None-ness of {arg!r}: a set-but-falsy value '
                               f'(0, "", [], false, null) would be dropped from the wire form; identity test against UNSET required')
                    else:
                        bad = f'additional guard `{norm(g.src.ast)}` on member {k!r}'
                n_ob += 2
                if bad:
                    problems.append((f'member {k!r} guard', f'member {k!r}: {bad}', w.node.line))
                elif ok_edge is None:
                    problems.append((f'member {k!r} guard', f'member {k!r} must be written iff {arg!r} is set '
                                     f'(identity test against UNSET); no such guard dominates the write', w.node.line))
                elif ok_edge.edge is not None and not edge_postdominated_by(cfg, ok_edge.edge, [w.node]):
                    problems.append((f'member {k!r} guard', f'member {k!r}: a path on which {arg!r} is set reaches the '
                                     f'return without writing it', w.node.line))
                if w.value is not None and not bad and ok_edge is not None:
                    if not _reads_field(prog, ci, w.value, fld, cfg, w.node):
                        problems.append((f'member {k!r} value', f'member {k!r} must carry the {arg!r} the object was built with, '
                                         f'found {norm(w.value)}', w.node.line))
    return problems, n_ob


def _is_getter_of(prog: Program, ci: ClassInfo, subject: Optional[str], fld: str) -> bool:
    """`self.result`-style property that simply returns self.<fld>."""
    if not subject or not subject.startswith('self.'):
        return False
    m = prog.find_method(ci, subject[5:])
    if m is None or m.kind != 'property':
        return False
    rets = [st for st in walk_own(m.node) if isinstance(st, ast.Return)]
    return bool(rets) and all(st.value is not None and dotted(st.value) == f'self.{fld}' for st in rets)


def _reads_field(prog: Program, ci: ClassInfo, value: ast.expr, fld: str, cfg: Optional[CFG] = None, node=None) -> bool:
    """value is `self.<fld>`, a getter that returns it, or `<that>.to_json()` (through locals)."""
    v = value
    if cfg is not None and node is not None:
        from ..flow import Flow
        fl = Flow(cfg)
        base = v.func.value if (isinstance(v, ast.Call) and isinstance(v.func, ast.Attribute) and v.func.attr == 'to_json' and not v.args) else v
        if isinstance(base, ast.Name):
            al = fl.alts(node, base)
            if len(al) == 1 and not isinstance(al[0].expr, ast.Name):
                if base is v:
                    v = al[0].expr
                else:
                    v = ast.Call(func=ast.Attribute(value=al[0].expr, attr='to_json', ctx=ast.Load()), args=[], keywords=[])
    if isinstance(v, ast.Call) and isinstance(v.func, ast.Attribute) and v.func.attr == 'to_json' and not v.args:
        v = v.func.value
    if isinstance(v, ast.Call) and isinstance(v.func, ast.Attribute) and not v.args:   # self.get_error()
        m = prog.find_method(ci, v.func.attr)
        if m is not None:
            rets = [st for st in walk_own(m.node) if isinstance(st, ast.Return)]
            return bool(rets) and all(st.value is not None and dotted(st.value) == f'self.{fld}' for st in rets)
        return False
    d = dotted(v)
    if d == f'self.{fld}':
        return True
    if d and d.startswith('self.'):
        m = prog.find_method(ci, d[5:])
        if m is not None and m.kind == 'property':
            rets = [st for st in walk_own(m.node) if isinstance(st, ast.Return)]
            return bool(rets) and all(st.value is not None and dotted(st.value) == f'self.{fld}' for st in rets)
    return False


RESPONSE_SPEC = {'jsonrpc': ('const', '2.0'), 'id': ('always', 'id'), 'result': ('iff-set', 'result'),
                 'error': ('iff-set', 'error')}
ERROR_SPEC = {'code': ('always', 'code'), 'message': ('always', 'message'), 'data': ('iff-set', 'data')}

REQUEST_SPEC = {'jsonrpc': ('const', '2.0'), 'method': ('always', 'method'), 'id': ('iff-not-none', 'id'),
                'params': ('iff-truthy', 'params')}


def ctor_precedence_problems(prog: Program, ci: ClassInfo) -> List[Tuple[str, str, int]]:
    """`self.x = <param> … self.x` fallbacks in the constructor: the constructor argument must win whenever it is given
    (is not None); the class-level default is only the fallback."""
    init = prog.find_method(ci, '__init__')
    out: List[Tuple[str, str, int]] = []
    if init is None:
        return out
    params = {p.arg for p in init.params[1:]}
    from ..cfg import CFG
    from ..flow import Flow
    cfg = CFG(init, prog)
    fl = Flow(cfg)
    for n in cfg.stmt_nodes():
        st = n.ast
        if not (n.kind == 'stmt' and isinstance(st, ast.Assign) and len(st.targets) == 1 and isinstance(st.targets[0], ast.Attribute)
                and dotted(st.targets[0].value) == 'self'):
            continue
        attr = 'self.' + st.targets[0].attr
        alts = fl.alts(n, st.value, boolops=True)
        leaf_names = {dotted(a.expr) for a in alts}
        ps = sorted(x for x in leaf_names if x in params)
        if not ps or attr not in leaf_names:
            continue
        p = ps[0]
        ok = True
        for a in alts:
            given: Optional[bool] = None          # is the constructor argument known to be given (not None) on this path?
            for c, pol in a.guards:
                k = classify_cond(prog, init, c)
                if k.subject != p:
                    continue
                if k.kind == 'is-none':
                    given = (k.negated == pol)
                elif k.kind == 'truthy':
                    # a truthy value is certainly given; the falsy side conflates None with 0 / "" (SENT-TRUTH reports that)
                    given = True if (not k.negated) == pol else False
            d = dotted(a.expr)
            if d == p and given is not True:
                ok = False
            elif d == attr and given is not False:
                ok = False
            elif d not in (p, attr):
                ok = False
        if not ok:
            out.append((f'{attr} does not give precedence to the constructor argument {p}',
                        f'`{norm(st)}`: an explicitly given `{p}` must be stored (the class-level value is only the fallback when `{p}` is None); '
                        f'here a typed error raised with its own code/message reaches the caller with the class defaults instead', st.lineno))
    return out
