"""Rules every property applies to the functions it analysed and to what those functions call (TOTAL-*).

The properties are stated over what the mechanism *does*; each of them silently relies on the pieces of the mechanism handing each
other what they promise.  Four promises are visible in the shape of the code and are checked here, for the functions a check
lists as analysed, the other methods of their classes, and the package functions they call (two levels):

TOTAL-RETURN   a function whose declared return type does not admit None never returns None (explicit `return None`, bare
               `return`, or running off the end of the body) — reported only when the value is consumed: a call site in the
               package uses the result, the function is a property that is read, a protocol method (`__iter__`, `__call__`, …),
               or it is handed out as a callback (the framework calls it and uses what it returns).
TOTAL-ATTR     every attribute a method reads on `self` is bound somewhere in the class, its bases or (for mix-ins) its
               subclasses — a constructor that no longer stores an option leaves every later read raising AttributeError.
TOTAL-ISINST   `isinstance(x, C)`: the second argument is a class expression and the first is the value — with the two swapped the
               call raises TypeError (or is constantly false) on every execution.

TOTAL-LOGLEVEL `<logger>.log(level, msg, …)` has the level first: a message literal in the level position makes Logger.log raise TypeError.

ENC-BRANCH (encoder_default, called by C01 / C14 / C16 for the encoder each relies on) is the shape of a json.JSONEncoder.default
override: isinstance branches return values built from the object, everything else goes to `super().default(o)`.

They are necessary conditions only; nothing is said about the values returned.  Stubs (abstract methods, protocol members, bodies
made of a docstring / `...` / `raise NotImplementedError`) and generators are skipped; classes with dynamic attribute binding
(`setattr(self, …)`, `self.__dict__`, `vars(self)`, `__getattr__`, `__slots__`-free external bases) are not decided for TOTAL-ATTR.
"""
from __future__ import annotations

import ast
from typing import Dict, Iterable, List, Optional, Set, Tuple

from ..model import ClassInfo, FuncInfo, Module, Program, dotted, norm
from ..report import Check
from ..types import FuncScope, members, types_of, walk_own
from ..util import short

PROTOCOL = {'__iter__', '__aiter__', '__next__', '__anext__', '__len__', '__getitem__', '__contains__', '__call__', '__enter__',
            '__aenter__', '__hash__', '__str__', '__repr__', '__bool__', '__get__'}
COMMON_NAMES = {'get', 'keys', 'values', 'items', 'pop', 'copy', 'update', 'add', 'append', 'extend', 'remove', 'format', 'join',
                'split', 'strip', 'encode', 'decode', 'read', 'write', 'send', 'close', 'index', 'count', 'setdefault', 'clear'}
NONE_FREE_HEADS = {'Optional', 'Any', 'object', 'NoReturn', 'Never', 'None'}


# --------------------------------------------------------------------------------------------------------------------
# scope
# --------------------------------------------------------------------------------------------------------------------

def _property_getters(prog: Program, e: ast.Attribute, sc: FuncScope, ty) -> List[FuncInfo]:
    out: List[FuncInfo] = []
    try:
        bt = ty.expr(e.value, sc)
    except RecursionError:
        return out
    for t in members(bt):
        if t[0] == 'inst':
            ci = prog.classes.get(t[1])
            m = prog.find_method(ci, e.attr) if ci is not None else None
            if m is not None and m.kind == 'property':
                out.append(m)
    return out


def scope_of(prog: Program, names: Iterable[str], depth: int = 2) -> Dict[str, FuncInfo]:
    ty = types_of(prog)
    scope: Dict[str, FuncInfo] = {}
    frontier: List[FuncInfo] = []
    for q in sorted(set(names)):
        f = prog.funcs.get(q)
        if f is not None and isinstance(f.node, (ast.FunctionDef, ast.AsyncFunctionDef)):
            scope[q] = f
            frontier.append(f)
    # the other methods of the classes the analysed functions belong to (and of their in-package bases)
    for f in list(frontier):
        if f.cls is not None:
            for c in [f.cls] + [b for b in prog.mro(f.cls)[1:] if isinstance(b, ClassInfo)]:
                for m in c.methods.values():
                    if isinstance(m.node, (ast.FunctionDef, ast.AsyncFunctionDef)) and m.qualname not in scope:
                        scope[m.qualname] = m
    for _ in range(depth):
        nxt: List[FuncInfo] = []
        for f in frontier:
            sc = FuncScope(f, ty)
            for x in walk_own(f.node):
                tg: List[FuncInfo] = []
                if isinstance(x, ast.Call):
                    try:
                        tg = [o for k, o in ty.callees(x, sc) if k == 'func' and isinstance(o, FuncInfo)]
                        for k, o in ty.callees(x, sc):
                            if k == 'ctor' and isinstance(o, ClassInfo):
                                for nm in ('__init__', '__post_init__'):
                                    m = prog.find_method(o, nm)
                                    if m is not None:
                                        tg.append(m)
                    except RecursionError:
                        tg = []
                elif isinstance(x, ast.Attribute) and isinstance(x.ctx, ast.Load):
                    tg = _property_getters(prog, x, sc, ty)
                for g in tg:
                    if g.qualname not in scope and isinstance(g.node, (ast.FunctionDef, ast.AsyncFunctionDef)):
                        scope[g.qualname] = g
                        nxt.append(g)
        frontier = nxt
    return scope


# --------------------------------------------------------------------------------------------------------------------
# TOTAL-RETURN
# --------------------------------------------------------------------------------------------------------------------

def _ann_expr(a: ast.expr) -> Optional[ast.expr]:
    if isinstance(a, ast.Constant) and isinstance(a.value, str):
        try:
            return ast.parse(a.value, mode='eval').body
        except SyntaxError:
            return None
    return a


def admits_none(prog: Program, m: Module, a: Optional[ast.expr], _d: int = 0) -> bool:
    """True when the annotation admits None or cannot be read (then nothing is claimed)."""
    if a is None or _d > 4:
        return True
    a = _ann_expr(a)
    if a is None:
        return True
    if isinstance(a, ast.Constant):
        return a.value is None or not isinstance(a.value, str)
    if isinstance(a, ast.BinOp) and isinstance(a.op, ast.BitOr):
        return admits_none(prog, m, a.left, _d + 1) or admits_none(prog, m, a.right, _d + 1)
    if isinstance(a, ast.Subscript):
        head = (dotted(a.value) or '').rsplit('.', 1)[-1]
        if head in ('Optional',):
            return True
        if head == 'Union':
            els = a.slice.elts if isinstance(a.slice, ast.Tuple) else [a.slice]
            return any(admits_none(prog, m, e, _d + 1) for e in els)
        if head in ('Annotated', 'Final', 'ClassVar'):
            els = a.slice.elts if isinstance(a.slice, ast.Tuple) else [a.slice]
            return admits_none(prog, m, els[0], _d + 1)
        return False
    d = dotted(a)
    if d is None:
        return True
    last = d.rsplit('.', 1)[-1]
    if last in NONE_FREE_HEADS:
        return True
    # a module-level alias (`MaybeResponse = Optional[Response]`) or a type variable: look through / give up
    b = m.ns.get(d) if '.' not in d else None
    if b is not None and b.kind == 'assign' and isinstance(b.target, ast.AST):
        v = b.target
        if isinstance(v, ast.Call):
            return True     # TypeVar(...), NewType(...), …: not decided
        return admits_none(prog, m, v, _d + 1)
    return False


def _is_stub(f: FuncInfo) -> bool:
    body = list(f.node.body)
    if body and isinstance(body[0], ast.Expr) and isinstance(body[0].value, ast.Constant) and isinstance(body[0].value.value, str):
        body = body[1:]
    if not body:
        return True
    for st in body:
        if isinstance(st, ast.Pass) or isinstance(st, ast.Expr) and isinstance(st.value, ast.Constant) and st.value.value is Ellipsis:
            continue
        if isinstance(st, ast.Raise):
            continue
        return False
    return True


def _never_returns(prog: Program, f: FuncInfo, call: ast.Call, ty, sc, _d: int = 0) -> bool:
    """The call resolves to package functions that all leave by raising."""
    if _d > 2:
        return False
    try:
        tg = ty.callees(call, sc)
    except RecursionError:
        return False
    fs = [o for k, o in tg if k == 'func' and isinstance(o, FuncInfo)]
    if not fs or len(fs) != len(tg):
        # unknown / external callee (sys.exit, pytest.fail, an injected callback, …): nothing is claimed about it
        return True
    return all(not _falls_off(prog, g, g.node.body, ty, FuncScope(g, ty), _d + 1) and
               not any(isinstance(x, ast.Return) for x in walk_own(g.node)) for g in fs)


def _falls_off(prog: Program, f: FuncInfo, body: List[ast.stmt], ty, sc, _d: int = 0) -> bool:
    """Can control run off the end of this block?  (syntax-directed; an unknown final call is assumed not to return)"""
    if not body:
        return True
    st = body[-1]
    if isinstance(st, (ast.Return, ast.Raise, ast.Continue, ast.Break)):
        return False
    if isinstance(st, ast.If):
        return _falls_off(prog, f, st.body, ty, sc, _d) or _falls_off(prog, f, st.orelse, ty, sc, _d)
    if isinstance(st, (ast.With, ast.AsyncWith)):
        return _falls_off(prog, f, st.body, ty, sc, _d)
    if isinstance(st, ast.Try):
        if st.finalbody and not _falls_off(prog, f, st.finalbody, ty, sc, _d):
            return False
        main = _falls_off(prog, f, st.orelse, ty, sc, _d) if st.orelse else _falls_off(prog, f, st.body, ty, sc, _d)
        return main or any(_falls_off(prog, f, h.body, ty, sc, _d) for h in st.handlers)
    if isinstance(st, ast.While):
        test_true = isinstance(st.test, ast.Constant) and bool(st.test.value)
        has_break = any(isinstance(x, ast.Break) for b_ in st.body for x in ast.walk(b_))
        return not test_true or has_break
    if isinstance(st, (ast.For, ast.AsyncFor)):
        if st.orelse:
            return _falls_off(prog, f, st.orelse, ty, sc, _d) or any(isinstance(x, ast.Break) for b_ in st.body for x in ast.walk(b_))
        return True
    if isinstance(st, ast.Match):
        wild = any(isinstance(c.pattern, ast.MatchAs) and c.pattern.pattern is None and c.guard is None for c in st.cases)
        return not wild or any(_falls_off(prog, f, c.body, ty, sc, _d) for c in st.cases)
    if isinstance(st, ast.Assert) and isinstance(st.test, ast.Constant) and not st.test.value:
        return False
    if isinstance(st, ast.Expr):
        v = st.value
        while isinstance(v, ast.Await):
            v = v.value
        if isinstance(v, ast.Call):
            return not _never_returns(prog, f, v, ty, sc, _d)
    return True


def _none_returns(f: FuncInfo) -> List[ast.Return]:
    out = []
    for x in walk_own(f.node):
        if isinstance(x, ast.Return):
            v = x.value
            if v is None or isinstance(v, ast.Constant) and v.value is None:
                out.append(x)
            elif isinstance(v, ast.IfExp) and any(isinstance(a, ast.Constant) and a.value is None for a in (v.body, v.orelse)):
                out.append(x)
    return out


def _decorator_names(f: FuncInfo) -> Set[str]:
    return {(dotted(d.func if isinstance(d, ast.Call) else d) or '').rsplit('.', 1)[-1] for d in f.decorators}


def _consumers(prog: Program, f: FuncInfo) -> Optional[str]:
    """Where the value the function returns is used; None when nothing in the package uses it."""
    if f.name in PROTOCOL:
        return f'the `{f.name}` protocol (the interpreter uses the returned value)'
    ty = types_of(prog)
    decs = _decorator_names(f)
    is_prop = f.kind == 'property' or 'cached_property' in decs
    others = {c.qualname for c in prog.classes.values() if f.name in c.methods and f.cls is not None and
              c is not f.cls and f.cls not in [b for b in prog.mro(c) if isinstance(b, ClassInfo)] and
              c not in [b for b in prog.mro(f.cls) if isinstance(b, ClassInfo)]}
    if any(n not in ('staticmethod', 'classmethod', 'property', 'cached_property', 'wraps', 'lru_cache', 'cache', 'override',
                     'abstractmethod', 'overload', 'contextmanager', 'asynccontextmanager') and not n.endswith('setter') for n in decs if n):
        return f'the decorator `@{sorted(decs)[0]}` (what it registers is called by someone else, who uses the result)'
    for g in prog.iter_funcs():
        if not isinstance(g.node, (ast.FunctionDef, ast.AsyncFunctionDef)):
            continue
        parents: Dict[int, ast.AST] = {}
        hits = [x for x in walk_own(g.node) if isinstance(x, (ast.Attribute, ast.Name)) and isinstance(x.ctx, ast.Load) and
                (x.attr if isinstance(x, ast.Attribute) else x.id) == f.name]
        if not hits:
            continue
        for x in ast.walk(g.node):
            for ch in ast.iter_child_nodes(x):
                parents[id(ch)] = x
        sc = FuncScope(g, ty)
        for x in hits:
            p = parents.get(id(x))
            if isinstance(x, ast.Name) and (f.cls is not None or f.parent is not None and g is not f.parent and g.parent is not f.parent):
                continue
            if is_prop:
                if isinstance(x, ast.Attribute) and f in _property_getters(prog, x, sc, ty):
                    return f'`{norm(x)}` read in {short(g.qualname)} (line {x.lineno})'
                continue
            if isinstance(p, ast.Call) and p.func is x:
                try:
                    tg = ty.callees(p, sc)
                except RecursionError:
                    continue
                resolved = [o for k, o in tg if k == 'func' and isinstance(o, FuncInfo)]
                mine = any(o is f for o in resolved)
                unknown = not resolved and all(k in ('unknown', 'user') for k, _ in tg)
                if not mine and not (unknown and not others and f.name not in COMMON_NAMES and isinstance(x, ast.Attribute)):
                    continue
                pp = parents.get(id(p))
                while isinstance(pp, ast.Await):
                    p, pp = pp, parents.get(id(pp))
                if isinstance(pp, ast.Expr):
                    continue        # result dropped
                return f'`{norm(p)[:70]}` in {short(g.qualname)} (line {p.lineno}) uses the result'
            else:
                # handed out as a value: a callback somebody else calls
                if isinstance(x, ast.Attribute):
                    try:
                        bt = ty.expr(x, sc)
                    except RecursionError:
                        continue
                    if not any(t[0] in ('bound', 'func') and t[1] == f.qualname for t in members(bt)):
                        continue
                elif prog.resolve(g.module, x) is not f and not (f.parent is g and f.name in g.nested):
                    continue
                if isinstance(p, ast.Return) and f.parent is g:
                    # a wrapper returned by its factory: the caller of the factory calls it
                    return f'returned by {short(g.qualname)} as the wrapped callable'
                return f'`{norm(x)}` is handed out as a callback in {short(g.qualname)} (line {x.lineno}): its caller uses what it returns'
    return None


def return_problems(prog: Program, scope: Dict[str, FuncInfo]) -> Tuple[int, List[Tuple[FuncInfo, int, str, str]]]:
    ty = types_of(prog)
    n = 0
    out: List[Tuple[FuncInfo, int, str, str]] = []
    for q, f in sorted(scope.items()):
        ret = f.node.returns
        if ret is None or admits_none(prog, f.module, ret):
            continue
        if any(isinstance(x, (ast.Yield, ast.YieldFrom)) for x in walk_own(f.node)):
            continue
        decs = _decorator_names(f)
        if decs & {'overload', 'abstractmethod'} or _is_stub(f) or f.kind == 'setter':
            continue
        if f.cls is not None and any((dotted(b) or '').rsplit('.', 1)[-1] == 'Protocol' for b in f.cls.base_exprs):
            continue
        n += 1
        sites: List[Tuple[int, str]] = [(r.lineno, f'`{norm(r)}`') for r in _none_returns(f)]
        if _falls_off(prog, f, f.node.body, ty, FuncScope(f, ty)):
            last = f.node.body[-1]
            sites.append((getattr(last, 'end_lineno', last.lineno) or last.lineno, 'the end of the body can be reached without a return'))
        if not sites:
            continue
        use = _consumers(prog, f)
        if use is None:
            continue
        for line, what in sites:
            out.append((f, line, f'returns None although declared `-> {norm(ret)}`',
                        f'{what}: {short(q)} is declared to return `{norm(_ann_expr(ret) or ret)}`, which does not admit None, and its value is '
                        f'used — {use} — so that user gets None where it handles only a `{norm(_ann_expr(ret) or ret)[:40]}` '
                        f'(AttributeError / TypeError there, or a missing reply)'))
    return n, out


# --------------------------------------------------------------------------------------------------------------------
# TOTAL-ATTR
# --------------------------------------------------------------------------------------------------------------------

_BENIGN_BASES = {'object', 'Generic', 'ABC', 'Protocol', 'Exception', 'BaseException', 'ValueError', 'TypeError', 'Enum', 'str', 'int',
                 'dict', 'list', 'tuple', 'NamedTuple', 'TypedDict', 'JSONEncoder', 'JSONDecoder'}


def _class_binds(prog: Program, ci: ClassInfo) -> Tuple[Set[str], bool]:
    """(names bound on instances / the class by this class, dynamic?)"""
    names: Set[str] = set(ci.methods) | set(ci.attrs) | set(ci.attr_ann) | set(ci.nested)
    dynamic = False
    for st in ci.node.body:
        if isinstance(st, (ast.Assign, ast.AnnAssign, ast.AugAssign)):
            for t in (st.targets if isinstance(st, ast.Assign) else [st.target]):
                for y in ast.walk(t):
                    if isinstance(y, ast.Name):
                        names.add(y.id)
        elif isinstance(st, (ast.FunctionDef, ast.AsyncFunctionDef, ast.ClassDef)):
            names.add(st.name)
        elif isinstance(st, (ast.Import, ast.ImportFrom)):
            names |= {(a.asname or a.name).split('.')[0] for a in st.names}
        elif not (isinstance(st, ast.Expr) and isinstance(st.value, ast.Constant)) and not isinstance(st, ast.Pass):
            dynamic = True      # conditional / loop at class level: not read
    if any(n in names for n in ('__getattr__', '__getattribute__', '__slots__')) and '__slots__' not in names:
        dynamic = True
    if ci.node.decorator_list and any((dotted(d.func if isinstance(d, ast.Call) else d) or '').rsplit('.', 1)[-1] not in
                                      ('dataclass', 'final', 'runtime_checkable', 'total_ordering') for d in ci.node.decorator_list):
        dynamic = True
    for m in ci.methods.values():
        if not isinstance(m.node, (ast.FunctionDef, ast.AsyncFunctionDef)):
            continue
        ps = [a.arg for a in m.node.args.posonlyargs + m.node.args.args]
        me = ps[0] if ps and m.kind not in ('staticmethod',) else None
        for x in ast.walk(m.node):
            if isinstance(x, ast.Attribute) and isinstance(x.ctx, (ast.Store, ast.Del)) and isinstance(x.value, ast.Name) and x.value.id == me:
                names.add(x.attr)
            elif isinstance(x, ast.Call):
                d = dotted(x.func) or ''
                if d in ('setattr', 'object.__setattr__') and x.args and isinstance(x.args[0], ast.Name) and x.args[0].id == me:
                    if len(x.args) > 1 and isinstance(x.args[1], ast.Constant) and isinstance(x.args[1].value, str):
                        names.add(x.args[1].value)
                    else:
                        dynamic = True
                elif d in ('vars',) and x.args and isinstance(x.args[0], ast.Name) and x.args[0].id == me:
                    dynamic = True
            elif isinstance(x, ast.Attribute) and x.attr == '__dict__' and isinstance(x.value, ast.Name) and x.value.id == me:
                # self.__dict__[K] = … with a constant key binds K; anything else is dynamic
                dynamic = True
    return names, dynamic


def attr_problems(prog: Program, scope: Dict[str, FuncInfo]) -> Tuple[int, List[Tuple[FuncInfo, int, str, str]]]:
    classes: Dict[str, ClassInfo] = {}
    for f in scope.values():
        if f.cls is not None:
            classes[f.cls.qualname] = f.cls
    n = 0
    out: List[Tuple[FuncInfo, int, str, str]] = []
    for cq, ci in sorted(classes.items()):
        mro = prog.mro(ci)
        if any(not isinstance(b, ClassInfo) and str(b).rsplit('.', 1)[-1] not in _BENIGN_BASES for b in mro):
            continue    # an external base may bind anything
        family = [b for b in mro if isinstance(b, ClassInfo)] + prog.subclasses(ci, strict=True)
        bound: Set[str] = set()
        dyn = False
        for c in family:
            nm, d_ = _class_binds(prog, c)
            bound |= nm
            dyn = dyn or d_
            # bases of subclasses (sibling mix-ins) may bind as well
            for b in prog.mro(c):
                if isinstance(b, ClassInfo) and b not in family:
                    nm2, d2 = _class_binds(prog, b)
                    bound |= nm2
                    dyn = dyn or d2
                elif not isinstance(b, ClassInfo) and str(b).rsplit('.', 1)[-1] not in _BENIGN_BASES:
                    dyn = True
        if dyn:
            continue
        n += 1
        for m in ci.methods.values():
            if not isinstance(m.node, (ast.FunctionDef, ast.AsyncFunctionDef)) or m.kind in ('staticmethod', 'classmethod'):
                continue
            ps = [a.arg for a in m.node.args.posonlyargs + m.node.args.args]
            if not ps:
                continue
            me = ps[0]
            seen: Set[str] = set()
            for x in ast.walk(m.node):
                if isinstance(x, ast.Attribute) and isinstance(x.ctx, ast.Load) and isinstance(x.value, ast.Name) and x.value.id == me \
                        and x.attr not in bound and not (x.attr.startswith('__') and x.attr.endswith('__')) and x.attr not in seen:
                    # hasattr / getattr-with-default guarded reads are the author's way of saying "may be missing"
                    guarded = any(isinstance(y, ast.Call) and dotted(y.func) in ('hasattr', 'getattr') and len(y.args) >= 2 and
                                  isinstance(y.args[1], ast.Constant) and y.args[1].value == x.attr for y in ast.walk(m.node))
                    if guarded:
                        continue
                    seen.add(x.attr)
                    out.append((m, x.lineno, f'`{me}.{x.attr}` is read but never bound',
                                f'`{norm(x)}` is read in {short(m.qualname)}, but no method of {ci.name}, of its bases or of its subclasses '
                                f'binds `{x.attr}` (no `{me}.{x.attr} = …`, no class attribute): the read raises AttributeError on every '
                                f'execution — an option the constructor no longer stores'))
    return n, out


# --------------------------------------------------------------------------------------------------------------------
# TOTAL-ISINST
# --------------------------------------------------------------------------------------------------------------------

def _is_class_expr(prog: Program, f: FuncInfo, e: ast.expr, local: Set[str]) -> Optional[bool]:
    if isinstance(e, ast.Tuple):
        rs = [_is_class_expr(prog, f, x, local) for x in e.elts]
        return True if rs and all(r is True for r in rs) else None
    d = dotted(e)
    if d is None:
        return None
    head = d.split('.')[0]
    if head in local:
        return False if '.' not in d else None
    ent = prog.resolve(f.module, e, f.cls)
    if isinstance(ent, ClassInfo):
        return True
    if isinstance(ent, str):
        last = ent.rsplit('.', 1)[-1]
        return True if last[:1].isupper() or ent in ('int', 'str', 'float', 'bool', 'bytes', 'list', 'dict', 'tuple', 'set', 'type') else None
    if d in ('int', 'str', 'float', 'bool', 'bytes', 'list', 'dict', 'tuple', 'set', 'frozenset', 'type', 'object'):
        return True
    return None


def isinstance_problems(prog: Program, scope: Dict[str, FuncInfo]) -> Tuple[int, List[Tuple[FuncInfo, int, str, str]]]:
    n = 0
    out: List[Tuple[FuncInfo, int, str, str]] = []
    for q, f in sorted(scope.items()):
        local = {a.arg for a in f.params}
        for x in walk_own(f.node):
            if isinstance(x, ast.Name) and isinstance(x.ctx, ast.Store):
                local.add(x.id)
            elif isinstance(x, ast.ExceptHandler) and x.name:
                local.add(x.name)
            elif isinstance(x, ast.comprehension):
                local |= {y.id for y in ast.walk(x.target) if isinstance(y, ast.Name)}
        for x in ast.walk(f.node):
            if isinstance(x, ast.Call) and isinstance(x.func, ast.Name) and x.func.id in ('isinstance', 'issubclass') and len(x.args) == 2 \
                    and x.func.id not in local:
                n += 1
                a, b = x.args
                if x.func.id == 'isinstance' and _is_class_expr(prog, f, a, local) is True and _is_class_expr(prog, f, b, local) is False:
                    out.append((f, x.lineno, f'`{norm(x)}`: class and value swapped',
                                f'`{norm(x)}` in {short(q)} tests the class `{norm(a)}` against the value `{norm(b)}`: isinstance() raises '
                                f'TypeError (arg 2 must be a type) whenever this line runs, so the branch it selects is never taken'))
    return n, out


# --------------------------------------------------------------------------------------------------------------------
# TOTAL-LOGLEVEL
# --------------------------------------------------------------------------------------------------------------------

def loglevel_problems(prog: Program, scope: Dict[str, FuncInfo]) -> Tuple[int, List[Tuple[FuncInfo, int, str, str]]]:
    """`<logger>.log(level, msg, …)`: logging.Logger.log raises TypeError('level must be an integer') for a non-integer level
    (logging.raiseExceptions is true unless the application turned it off) — a message literal in the level position makes the
    calling function raise on every execution, whatever handlers are configured."""
    ty = types_of(prog)
    n = 0
    out: List[Tuple[FuncInfo, int, str, str]] = []
    for q, f in sorted(scope.items()):
        sc = None
        for x in walk_own(f.node):
            if not (isinstance(x, ast.Call) and isinstance(x.func, ast.Attribute) and x.func.attr == 'log' and x.args):
                continue
            recv = dotted(x.func.value) or ''
            is_logger = recv.rsplit('.', 1)[-1].lstrip('_').lower().endswith(('logger', 'log'))
            if not is_logger:
                sc = sc or FuncScope(f, ty)
                try:
                    is_logger = any(t[0] in ('extinst', 'ext') and 'logging' in str(t[1]) for t in members(ty.expr(x.func.value, sc)))
                except RecursionError:
                    is_logger = False
            if not is_logger:
                continue
            n += 1
            a0 = x.args[0]
            if isinstance(a0, ast.JoinedStr) or isinstance(a0, ast.Constant) and isinstance(a0.value, str):
                out.append((f, x.lineno, f'`{norm(x)[:50]}`: message in the level position',
                            f'`{norm(x)[:110]}` in {short(q)} passes the message text as the level: Logger.log raises TypeError (level must be an '
                            f'integer), so {short(q)} raises on every call instead of doing its work'))
    return n, out



# --------------------------------------------------------------------------------------------------------------------
# TOTAL-STRIPSET, TOTAL-SHARED
# --------------------------------------------------------------------------------------------------------------------

def stripset_problems(prog: Program, scope: Dict[str, FuncInfo]) -> Tuple[int, List[Tuple[FuncInfo, int, str, str]]]:
    """`s.endswith(x)` … `s.rstrip(x)` (startswith / lstrip): the test speaks of x as a SUFFIX, the strip treats it as a SET OF
    CHARACTERS and keeps removing trailing characters that occur anywhere in x — two beliefs about x in one function, one is wrong."""
    n = 0
    out: List[Tuple[FuncInfo, int, str, str]] = []
    pairs = {'rstrip': 'endswith', 'lstrip': 'startswith'}
    for q, f in sorted(scope.items()):
        tests = {}
        for x in walk_own(f.node):
            if isinstance(x, ast.Call) and isinstance(x.func, ast.Attribute) and x.func.attr in ('endswith', 'startswith') and len(x.args) == 1 \
                    and isinstance(x.args[0], ast.Name):
                tests[(x.func.attr, norm(x.func.value), x.args[0].id)] = x
        for x in walk_own(f.node):
            if isinstance(x, ast.Call) and isinstance(x.func, ast.Attribute) and x.func.attr in pairs and len(x.args) == 1 and isinstance(x.args[0], ast.Name):
                n += 1
                key = (pairs[x.func.attr], norm(x.func.value), x.args[0].id)
                if key in tests:
                    out.append((f, x.lineno, f'`{norm(x)}` after `{norm(tests[key])}`',
                                f'`{norm(tests[key])}` tests `{x.args[0].id}` as a {"suffix" if x.func.attr == "rstrip" else "prefix"}, but `{norm(x)}` strips every '
                                f'{"trailing" if x.func.attr == "rstrip" else "leading"} character that occurs in `{x.args[0].id}`: after the affix is gone it goes on eating '
                                f'characters of what remains (\'/rpc/api\'.rstrip(\'/openapi.json\') == \'/r\'), so {short(q)} returns another string than the one with the affix removed'))
    return n, out


def shared_class_state_problems(prog: Program, scope: Dict[str, FuncInfo]) -> Tuple[int, List[Tuple[FuncInfo, int, str, str]]]:
    """A mutable display bound at class level (`_endpoints: Dict = {}`) that methods fill through `self` (`self._endpoints[k] = v`,
    `.append`, `.update`, …) without `__init__` ever rebinding it per instance is ONE object shared by every instance of the class:
    what one instance registers, every other instance sees.  (Names in capitals and dunder names are deliberate class-wide tables.)"""
    classes: Dict[str, ClassInfo] = {}
    for f in scope.values():
        if f.cls is not None:
            classes[f.cls.qualname] = f.cls
    n = 0
    out: List[Tuple[FuncInfo, int, str, str]] = []
    mutators = {'append', 'extend', 'insert', 'add', 'update', 'setdefault', 'pop', 'remove', 'clear', 'popitem', 'discard', 'appendleft'}
    for cq, ci in sorted(classes.items()):
        shared = {}
        for st in ci.node.body:
            tg = st.targets[0] if isinstance(st, ast.Assign) and len(st.targets) == 1 else st.target if isinstance(st, ast.AnnAssign) else None
            v = getattr(st, 'value', None)
            if isinstance(tg, ast.Name) and v is not None and not tg.id.isupper() and not (tg.id.startswith('__') and tg.id.endswith('__')):
                if isinstance(v, (ast.Dict, ast.List, ast.Set)) or isinstance(v, ast.Call) and dotted(v.func) in ('dict', 'list', 'set', 'collections.defaultdict', 'defaultdict', 'collections.OrderedDict', 'OrderedDict', 'collections.deque', 'deque'):
                    shared[tg.id] = st
        if not shared:
            continue
        family = [c for c in prog.mro(ci) if isinstance(c, ClassInfo)] + prog.subclasses(ci, strict=True)
        rebound = set()
        for c in family:
            for m in c.methods.values():
                for x in ast.walk(m.node):
                    if isinstance(x, ast.Attribute) and isinstance(x.ctx, ast.Store) and isinstance(x.value, ast.Name) and x.value.id in ('self',) and x.attr in shared:
                        rebound.add(x.attr)
        for name, st in sorted(shared.items()):
            n += 1
            if name in rebound:
                continue
            for m in ci.methods.values():
                if m.kind in ('classmethod', 'staticmethod') or not isinstance(m.node, (ast.FunctionDef, ast.AsyncFunctionDef)) or not m.node.args.args:
                    continue
                me = m.node.args.args[0].arg
                hit = None
                for x in ast.walk(m.node):
                    if isinstance(x, ast.Subscript) and isinstance(x.ctx, (ast.Store, ast.Del)) and dotted(x.value) == f'{me}.{name}':
                        hit = x
                    elif isinstance(x, ast.Call) and isinstance(x.func, ast.Attribute) and x.func.attr in mutators and dotted(x.func.value) == f'{me}.{name}':
                        hit = x
                    elif isinstance(x, ast.AugAssign) and dotted(x.target) == f'{me}.{name}':
                        hit = x
                if hit is not None:
                    out.append((m, hit.lineno, f'`{me}.{name}` is the class-level `{name}` shared by all instances',
                                f'`{norm(hit)[:70]}` in {short(m.qualname)} fills `{name}`, which is bound once at class level (`{norm(st)[:50]}`) and never '
                                f'rebound per instance: every {ci.name} object reads and writes the same container, so what one instance registers '
                                f'(endpoints, routes, handlers) is served by — or overwrites — another'))
                    break
    return n, out


# --------------------------------------------------------------------------------------------------------------------

def totality(ck: Check, prog: Program, extra: Iterable[str] = ()) -> None:
    scope = scope_of(prog, list(ck.functions) + list(extra))
    if not scope:
        return
    ck.extra['total_scope'] = {'functions': len(scope), 'beyond_the_analysed_ones': sorted(set(scope) - set(ck.functions))}
    for rule, fn, what in (('TOTAL-RETURN', return_problems, 'functions with a None-free declared return type never return None where the value is used'),
                           ('TOTAL-ATTR', attr_problems, 'classes: every attribute read on self is bound by the class family'),
                           ('TOTAL-ISINST', isinstance_problems, 'isinstance / issubclass calls have the value first and the class second'),
                           ('TOTAL-LOGLEVEL', loglevel_problems, 'Logger.log calls have the level (not the message) first'),
                           ('TOTAL-STRIPSET', stripset_problems, 'str.rstrip / lstrip calls with a variable argument do not stand for affix removal'),
                           ('TOTAL-SHARED', shared_class_state_problems, 'class-level mutable containers are rebound per instance before being filled through self')):
        n, problems = fn(prog, scope)
        ck.ob(rule, f'{n} {what} (scope: {len(scope)} functions reached from the analysed ones)', not problems, nontrivial=n > 0)
        for f, line, construct, msg in problems:
            ck.finding(rule, f.qualname, construct, f.module.rel, line, msg)


# --------------------------------------------------------------------------------------------------------------------
# ENC-BRANCH: the shape of a json.JSONEncoder.default override
# --------------------------------------------------------------------------------------------------------------------

def encoder_default(ck: Check, prog: Program, cls_q: str, must_cover: Iterable[str] = (), why: str = '') -> None:
    """`default(self, o)` of the encoder class: (1) a return reached only when `isinstance(o, C)` held hands back a value built from
    `o` (never None / a constant); (2) every other return is `super().default(o)` — the base raises TypeError for what nobody knows
    how to encode — and the body cannot run off its end; (3) the classes named in `must_cover` each have such a branch."""
    from ..cfg import CFG
    from ..flow import Flow
    from ..inline import inlined_program
    from ..model import AnalysisError
    from ..util import guard_edges
    ci = prog.classes.get(cls_q)
    if ci is None:
        raise AnalysisError(f'encoder class {cls_q} not found')
    d = prog.find_method(ci, 'default')
    if d is None or d.cls is not ci:
        # the class no longer overrides default(): whatever it had to cover is not covered
        for need in must_cover:
            ck.ob('ENC-BRANCH', f'{short(cls_q)}.default covers {need}', False)
            ck.finding('ENC-BRANCH', cls_q, f'{need} not encodable', ci.module.rel, ci.node.lineno,
                       f'{short(cls_q)} does not override default(): {need} objects are not JSON-encodable with it ({why})')
        return
    ck.functions.add(d.qualname)
    p2 = inlined_program(prog, [d.qualname])
    d = p2.func(d.qualname)
    cfg = CFG(d, p2)
    fl = Flow(cfg)
    ps = [a.arg for a in d.node.args.posonlyargs + d.node.args.args]
    obj = ps[1] if len(ps) > 1 else None
    if obj is None:
        raise AnalysisError(f'{d.qualname}: no object parameter')
    covered: List[str] = []
    problems: List[Tuple[int, str, str]] = []

    def mentions_obj(e: ast.expr) -> bool:
        return any(isinstance(y, ast.Name) and y.id == obj for y in ast.walk(e))

    def is_delegation(v: Optional[ast.expr]) -> bool:
        return isinstance(v, ast.Call) and isinstance(v.func, ast.Attribute) and v.func.attr == 'default' and \
            isinstance(v.func.value, ast.Call) and dotted(v.func.value.func) == 'super' and any(mentions_obj(a) for a in v.args)
    for m in cfg.stmt_nodes():
        if m.kind != 'stmt' or not isinstance(m.ast, ast.Return):
            continue
        outer = [(g.src.ast, g.label == 'T', g.src) for g in guard_edges(cfg, m)]
        # a return of a conditional expression is one return per arm, each under the arm's condition
        arms = [(al.expr, [(c, p_, m) for c, p_ in (al.guards or [])]) for al in fl.alts(m, m.ast.value)] if m.ast.value is not None else [(None, [])]
        for v, inner in arms:
            pos: List[str] = []
            for c, pol, at in outer + inner:
                while isinstance(c, ast.UnaryOp) and isinstance(c.op, ast.Not):
                    c, pol = c.operand, not pol
                if isinstance(c, ast.Call) and dotted(c.func) == 'isinstance' and len(c.args) == 2 and dotted(c.args[0]) == obj and pol:
                    for alt in fl.alts(at, c.args[1]):
                        tp = alt.expr
                        for e in (tp.elts if isinstance(tp, (ast.Tuple, ast.List)) else [tp]):
                            ent = p2.resolve(d.module, e)
                            pos.append(ent.qualname if isinstance(ent, ClassInfo) else ent if isinstance(ent, str) else norm(e))
            if pos:
                if is_delegation(v):
                    continue
                ok = v is not None and mentions_obj(v) and not isinstance(v, ast.Constant)
                if ok:
                    covered += pos
                else:
                    problems.append((m.line, f'branch for {pos[0].rsplit(".", 1)[-1]} returns `{norm(v) if v is not None else "None"}`',
                                     f'`{norm(v) if v is not None else "None"}` is what {short(d.qualname)} hands to the JSON encoder for a '
                                     f'{pos[0].rsplit(".", 1)[-1]} object: it is not built from the object, so the object is serialised as that value '
                                     f'(null) and what it carried is lost'))
            elif not is_delegation(v):
                problems.append((m.line, f'`return {norm(v)[:50] if v is not None else ""}` outside an isinstance branch',
                                 f'`{norm(v) if v is not None else "return"}` in {short(d.qualname)} is returned for objects that passed no '
                                 f'`isinstance({obj}, …)` test: whatever is not known must be handed to `super().default({obj})` (which raises TypeError); '
                                 f'here every such object takes this return instead (AttributeError on it, or a wrong value on the wire)'))
    falls = cfg.exit.id in cfg.reachable(cfg.entry, avoid_nodes=[m for m in cfg.stmt_nodes() if isinstance(m.ast, (ast.Return, ast.Raise))],
                                        edge_ok=lambda e: e.label != 'exc')
    if falls:
        problems.append((d.node.lineno, 'default() can end without a return', f'{short(d.qualname)} can run off its end: the object is encoded as null'))
    for need in must_cover:
        ok = need in covered
        if not ok:
            # a base class of the needed one covers it as well
            nci = prog.classes.get(need)
            ok = nci is not None and any(isinstance(b, ClassInfo) and b.qualname in covered for b in prog.mro(nci))
        if not ok:
            problems.append((d.node.lineno, f'{need.rsplit(".", 1)[-1]} not encodable',
                             f'{short(d.qualname)} has no `isinstance({obj}, {need.rsplit(".", 1)[-1]})` branch returning a value built from the object: '
                             f'{why}'))
    ck.ob('ENC-BRANCH', f'{short(d.qualname)}: isinstance branches return values built from the object, everything else goes to the base '
          f'encoder; covers {sorted(c.rsplit(".", 1)[-1] for c in set(covered))}', not problems)
    for line, construct, msg in problems:
        ck.finding('ENC-BRANCH', d.qualname, construct, d.module.rel, line, msg)
