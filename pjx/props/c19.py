"""C19 — tracers see every attempt begin and complete exactly once."""
from __future__ import annotations

import ast

from ..model import Program, dotted, norm
from ..report import Check
from ..util import short
from .cfacts import clients, decor_order_facts, traced_facts, tracer_interp


def run(ck: Check, prog: Program) -> None:
    from .cfacts import client_program
    prog = client_program(prog)
    crs = clients(prog)
    ck.explain('Typestate analysis over the CFG (with exception edges for any BaseException out of the traced call) of both '
               'traced wrappers: every path is BEGIN·CALL·END on return and BEGIN·CALL·ERROR·re-raise on any exception; tracer '
               'loops iterate the configured sequence directly; one trace-context object reaches all three events and the call; '
               'the tracing decorator is applied inside the retrying one so every attempt is traced.')
    ck.assume('tracer callbacks themselves do not raise (outside the property)')
    ck.not_decided.append('tracers that raise')
    interp = tracer_interp(prog)
    # the id check is part of the attempt: it runs as _send's validator, inside the traced region
    from .cfacts import relate_inside_send_problems
    n_sites, rp = relate_inside_send_problems(prog)
    ck.ob('DECOR-ORDER', f'{n_sites} send sites: responses are related to their requests inside the traced _send (validator=self._relate), nowhere else', not rp,
          sample={'send_sites': n_sites})
    ck.require('DECOR-ORDER', 'call sites of _send in the client module', n_sites, 4)
    for f_, line, construct, msg in rp:
        ck.finding('DECOR-ORDER', f_.qualname, construct, f_.module.rel, line, msg)
    from .cfacts import trace_ctx_forwarding_problems
    n_fw, fp = trace_ctx_forwarding_problems(prog)
    ck.ob('TRACE-CTX', f'{n_fw} places hand the caller\'s trace context on to the next client function', not fp, sample={'sites': n_fw})
    ck.require('TRACE-CTX', 'trace-context forwarding sites in the client module', n_fw, 8)
    for f_, line, construct, msg in fp:
        ck.finding('TRACE-CTX', f_.qualname, construct, f_.module.rel, line, msg)
    # "end with the response (nothing for notifications)": whatever the transport handed back, _send returns None for a notification on
    # every returning path — resolved on the notification test alone, so that a body the server should not have sent is not parsed
    # into a response (or into an error event) for the tracers
    from ..cfg import CFG as _CFGn
    for cr in crs:
        sf = cr.send_impl
        ncfg = _CFGn(sf, prog)
        rq = sf.params[1].arg if len(sf.params) > 1 else 'request'
        avoid_n = []
        n_tests = 0
        for c_ in ncfg.nodes:
            if c_.kind != 'cond':
                continue
            t_, neg_ = c_.ast, False
            while isinstance(t_, ast.UnaryOp) and isinstance(t_.op, ast.Not):
                t_, neg_ = t_.operand, not neg_
            if dotted(t_) == f'{rq}.is_notification':
                n_tests += 1
                taken = True != neg_
                avoid_n += [ed for ed in ncfg.succ[c_.id] if ed.label in ('T', 'F') and (ed.label == 'T') != taken]
        feas = ncfg.reachable(ncfg.entry, avoid_edges=avoid_n, edge_ok=lambda e: e.label != 'exc')
        from ..flow import Flow as _FlowN
        nfl = _FlowN(ncfg)
        bad_r = []
        for m_ in ncfg.stmt_nodes():
            if m_.id in feas and isinstance(m_.ast, ast.Return) and m_.ast.value is not None:
                # the values the return can hand back on the paths a notification takes (definitions made on other paths do not count)
                vals_ = [al for al in nfl.alts(m_, m_.ast.value) if al.node is None or al.node.id in feas]
                if any(not (isinstance(al.expr, ast.Constant) and al.expr.value is None) for al in vals_):
                    bad_r.append(m_)
        ck.ob('TRACE-TYPESTATE', f'{cr.cls.name}._send returns nothing for a notification on every returning path', not bad_r and n_tests > 0)
        for m_ in bad_r:
            ck.finding('TRACE-TYPESTATE', sf.qualname, f'a notification can complete with `{norm(m_.ast)[:40]}`', sf.module.rel, m_.line,
                       f'`{norm(m_.ast)}` is reachable for a notification ({rq}.is_notification true): when the transport hands back a body (non-strict '
                       f'client) the attempt completes with a parsed response — or fails with a decoding error — instead of with nothing, and that is '
                       f'what every tracer is told')
    for cr in crs:
        half = cr.cls.name
        ck.functions |= {cr.traced_wrapper.qualname, cr.retried_wrapper.qualname, cr.send_impl.qualname}
        facts, problems = traced_facts(prog, interp, cr)
        f2, p2 = decor_order_facts(prog, cr)
        problems += p2
        for rule in ('TRACE-TYPESTATE', 'TRACE-RERAISE', 'TRACE-ORDER', 'TRACE-CTX', 'DECOR-ORDER'):
            bad = [p for p in problems if p[0] == rule]
            ck.ob(rule, f'{half}: {rule}', not bad, sample={'facts': {**facts, **f2}} if rule == 'TRACE-TYPESTATE' else None)
        for rule, construct, line, msg in problems:
            ck.finding(rule, cr.traced_wrapper.qualname if rule != 'DECOR-ORDER' else cr.send_impl.qualname, construct,
                       cr.cls.module.rel, line, msg)
        # "the exception still reaches the caller unchanged": nothing between the traced attempt and the public method may catch
        # an exception and raise a different one (the tracers were told about the original)
        import ast as _ast
        from ..cfg import CFG
        from ..model import norm as _norm
        from .dfacts import handler_body_nodes
        for g in (cr.retried_wrapper, cr.send, cr.call, cr.notify):
            ck.functions.add(g.qualname)
            cfg = CFG(g, prog)
            bad = []
            for h in [n for n in cfg.nodes if n.kind == 'handler']:
                body = handler_body_nodes(cfg, h)
                hname = h.ast.name if isinstance(h.ast, _ast.ExceptHandler) else None
                for n in body:
                    a = n.ast
                    if isinstance(a, _ast.Raise) and a.exc is not None and not (isinstance(a.exc, _ast.Name) and a.exc.id == hname):
                        bad.append((n, f'`{_norm(a)[:80]}` replaces the caught exception'))
                    if isinstance(a, _ast.Return):
                        bad.append((n, f'`{_norm(a)[:60]}` swallows the caught exception'))
            ck.ob('TRACE-RERAISE', f'{short(g.qualname)}: no handler between the traced attempt and the caller replaces or swallows an exception', not bad)
            for n, why in bad:
                ck.finding('TRACE-RERAISE', g.qualname, why[:70], g.module.rel, n.line,
                           f'{short(g.qualname)}: {why}: tracers are told about the original exception (on_error) but the caller receives a '
                           f'different object / nothing, so what the caller sees no longer matches the completion event')
    ck.require('TRACE-TYPESTATE', 'traced wrappers', len(crs), 2)


MUTANTS = [
    dict(name='falsy-tracers-dropped-at-construction', file='pjrpc/client/client.py',
         find='        self._tracers = tracers\n', replace='        self._tracers = tuple(t for t in tracers if t)\n', expect='TRACE-ORDER'),
    dict(name='batch-related-after-the-traced-send', file='pjrpc/client/client.py', nth=0,
         find='                validator=self._relate,\n', replace='                validator=lambda a, b: None,\n', expect='DECOR-ORDER'),
    dict(name='completion-report-inside-the-guarded-region', file='pjrpc/client/client.py', nth=0,
         find='            for tracer in self._tracers:\n                tracer.on_request_end(trace_ctx, request, response)\n\n            return response\n',
         replace='            return response\n',
         also=[dict(file='pjrpc/client/client.py', nth=0, find='                response = method(self, request, _trace_ctx=trace_ctx, **kwargs)\n',
                    replace='                response = method(self, request, _trace_ctx=trace_ctx, **kwargs)\n'
                            '                for tracer in self._tracers:\n                    tracer.on_request_end(trace_ctx, request, response)\n')],
         expect='TRACE-TYPESTATE'),
    dict(name='except-Exception', file='pjrpc/client/client.py', nth=1, find='            except BaseException as e:', replace='            except Exception as e:',
         expect='TRACE-TYPESTATE'),
    dict(name='end-in-finally', file='pjrpc/client/client.py', nth=0,
         find='''                raise

            for tracer in self._tracers:
                tracer.on_request_end(trace_ctx, request, response)

            return response''',
         replace='''                raise
            finally:
                for tracer in self._tracers:
                    tracer.on_request_end(trace_ctx, request, locals().get('response'))

            return response''', expect=['TRACE-TYPESTATE', 'TRACE-CTX']),
    dict(name='swap-decorators', file='pjrpc/client/client.py', nth=0, find='    @retried\n    @traced\n', replace='    @traced\n    @retried\n',
         expect='DECOR-ORDER'),
    dict(name='fresh-ctx-for-end', file='pjrpc/client/client.py', nth=0,
         find='tracer.on_request_end(trace_ctx, request, response)', replace='tracer.on_request_end(SimpleNamespace(), request, response)',
         expect='TRACE-CTX'),
    dict(name='reversed-tracers', file='pjrpc/client/client.py', nth=1,
         find='            for tracer in self._tracers:\n                tracer.on_request_begin(trace_ctx, request)',
         replace='            for tracer in reversed(self._tracers):\n                tracer.on_request_begin(trace_ctx, request)', expect='TRACE-ORDER'),
    dict(name='swallow-exception', file='pjrpc/client/client.py', nth=0,
         find='                    tracer.on_error(trace_ctx, request, e)\n                raise\n',
         replace='                    tracer.on_error(trace_ctx, request, e)\n                return None\n', expect=['TRACE-TYPESTATE', 'TRACE-RERAISE']),
    dict(name='ignore-caller-ctx', file='pjrpc/client/client.py', nth=0,
         find='trace_ctx = _trace_ctx or SimpleNamespace()', replace='trace_ctx = SimpleNamespace()', expect='TRACE-CTX'),
    dict(name='error-skipped-when-no-response', file='pjrpc/client/client.py', nth=0,
         find='                for tracer in self._tracers:\n                    tracer.on_error(trace_ctx, request, e)\n',
         replace='                if isinstance(e, Exception):\n                    for tracer in self._tracers:\n                        tracer.on_error(trace_ctx, request, e)\n',
         expect='TRACE-TYPESTATE'),
    dict(name='retried-translates-exception', file='pjrpc/client/client.py', nth=0,
         find='            response = wrapped_method(self, request, **kwargs)\n',
         replace='            try:\n                response = wrapped_method(self, request, **kwargs)\n            except ValueError as e:\n                raise exceptions.DeserializationError(str(e)) from e\n',
         expect='TRACE-RERAISE'),
]
