"""C17 — documented parameters are the accepted parameters (sibling agreement)."""
from __future__ import annotations

import ast
from typing import Dict, List, Optional, Set, Tuple

from ..cfg import CFG
from ..model import AnalysisError, ClassInfo, FuncInfo, Program, dotted, norm
from ..report import Check
from ..types import walk_own
from ..util import calls_in, guard_edges, short
from .c04 import bind_methods
from .common import kwarg

BASEVAL = 'pjrpc.server.validators.base.BaseValidator'
PYD_EXTRACTOR = 'pjrpc.server.specs.extractors.pydantic.PydanticSchemaExtractor'
OPENAPI = 'pjrpc.server.specs.openapi.OpenAPI'
OPENRPC = 'pjrpc.server.specs.openrpc.OpenRPC'


def keep_formula(prog: Program, f: FuncInfo) -> Optional[Set[str]]:
    """Normalised condition under which a parameter of the inspected signature is KEPT by f: a set of conjuncts over
    {name-not-in-exclude, predicate-false, kind:<kinds>}; None if no keeping construct is recognised.  The keeping construct is
    an append / keyed store inside the loop over `.parameters`, or a comprehension over it; predicate helpers extracted into
    private methods are inlined first."""
    from ..inline import inlined_program
    from ..flow import _cond_guards
    prog = inlined_program(prog, [f.qualname])
    f = prog.func(f.qualname)
    cfg = CFG(f, prog)
    guards: Optional[List[Tuple[ast.expr, bool]]] = None
    pv: Optional[str] = None
    heads = [n for n in cfg.nodes if n.kind == 'next' and 'parameters' in norm(n.ast.iter)]
    if len(heads) == 1:
        h = heads[0]
        pv = dotted(h.ast.target)
        keeps = []
        for n in cfg.stmt_nodes():
            a = n.ast
            for c in calls_in(n):
                if isinstance(c.func, ast.Attribute) and c.func.attr == 'append' and c.args and dotted(c.args[0]) == pv:
                    keeps.append(n)
            if isinstance(a, ast.Assign) and isinstance(a.targets[0], ast.Subscript) and dotted(a.targets[0].slice) == f'{pv}.name':
                keeps.append(n)
        if len(keeps) != 1:
            return None
        guards = [(g.src.ast, g.label == 'T') for g in guard_edges(cfg, keeps[0])]
        # the kept parameter is the inspected one: the loop variable is not rewritten before it is kept
        from ..util import assigned_names
        body_nodes = [n for n in cfg.stmt_nodes() if n.id in cfg.reachable(h, edge_ok=lambda e: e.label != 'exhausted') and h.id in cfg.reachable(n)]
        rew = [n for n in body_nodes if pv in assigned_names(n) and n.kind == 'stmt']
        if rew:
            f.__dict__['_keep_rewrites'] = [(n.line, norm(n.ast)[:80]) for n in rew]
    elif not heads:
        comps = [x for x in walk_own(f.node) if isinstance(x, (ast.ListComp, ast.GeneratorExp)) and len(x.generators) == 1
                 and 'parameters' in norm(x.generators[0].iter) and dotted(x.elt) == dotted(x.generators[0].target)]
        if len(comps) != 1:
            return None
        pv = dotted(comps[0].generators[0].target)
        guards = []
        for c in comps[0].generators[0].ifs:
            guards += _cond_guards(c, True)
    if guards is None or pv is None:
        return None
    conj: Set[str] = set()
    for line_, txt_ in f.__dict__.get('_keep_rewrites', []):
        conj.add(f'parameter-rewritten:{txt_}')
    for e, pol in guards:
        if isinstance(e, ast.Compare) and dotted(e.left) == f'{pv}.name' and isinstance(e.ops[0], (ast.In, ast.NotIn)):
            neg = isinstance(e.ops[0], ast.NotIn)
            conj.add('name-not-in-exclude' if pol == neg else 'name-IN-exclude')
        elif isinstance(e, ast.Call) and dotted(e.func) == 'self._exclude_param':
            args = [dotted(a) for a in e.args]
            if args == [f'{pv}.name', f'{pv}.annotation', f'{pv}.default']:
                conj.add('predicate-false' if not pol else 'predicate-TRUE')
            else:
                conj.add(f'predicate({",".join(map(str, args))}):{"T" if pol else "F"}')
        elif isinstance(e, ast.Compare) and dotted(e.left) == f'{pv}.kind' and isinstance(e.ops[0], (ast.In, ast.NotIn)):
            from ..flow import Flow
            nodes = cfg.nodes_of(e)
            alts = Flow(cfg).alts(nodes[0], e.comparators[0]) if nodes else []
            kinds_txt = norm(alts[0].expr) if len(alts) == 1 else norm(e.comparators[0])
            kinds_txt = kinds_txt.replace('(', '[').replace(')', ']') if kinds_txt.startswith('(') else kinds_txt
            inn = isinstance(e.ops[0], ast.In)
            conj.add(f'kind:{kinds_txt}:{"T" if pol == inn else "F"}')
        elif isinstance(e, ast.Compare) and dotted(e.left) == f'{pv}.kind':
            conj.add(f'kind:{norm(e.comparators[0])}:{"T" if pol else "F"}')
        else:
            conj.add(f'other:{norm(e)}:{"T" if pol else "F"}')
    return conj


def exclude_expr(call: ast.Call, pos: Optional[int] = None, prog: Optional[Program] = None, f: Optional[FuncInfo] = None) -> Optional[str]:
    """Normal form of the exclude= argument, decided on value flow: '{<method>.context} iff set' when it is a one-element
    collection holding X.context on the paths where X.context is set and an empty collection otherwise."""
    ex = kwarg(call, 'exclude', pos)
    if ex is None:
        return None
    if prog is None or f is None:
        return norm(ex)
    from ..cfg import CFG
    from ..flow import Flow
    from ..util import canon_dotted, classify_cond, stmt_node_of
    cfg = CFG(f, prog)
    fl = Flow(cfg)
    n = stmt_node_of(cfg, call)
    if n is None:
        return norm(ex)
    kinds = set()
    for al in fl.alts(n, ex, boolops=True):
        v = al.expr

        def ctx_state(subj: str) -> Optional[bool]:
            for c, pol in al.guards:
                k = classify_cond(prog, f, c)
                if k.subject == subj and k.kind == 'truthy':
                    return (not k.negated) == pol
                if k.subject == subj and k.kind == 'is-none':
                    return k.negated == pol
            return None
        if isinstance(v, (ast.Tuple, ast.List, ast.Set)) and len(v.elts) == 1 and (canon_dotted(f, v.elts[0]) or '').endswith('.context'):
            if ctx_state(canon_dotted(f, v.elts[0])) is True:
                kinds.add('ctx')
            else:
                return norm(ex)
        elif isinstance(v, (ast.Tuple, ast.List)) and not v.elts or (isinstance(v, ast.Call) and dotted(v.func) in ('tuple', 'list', 'set', 'frozenset') and not v.args):
            kinds.add('empty:' + ';'.join(sorted(f'{norm(c)}={pol}' for c, pol in al.guards if 'context' in norm(c))))
        else:
            return norm(ex)
    if 'ctx' in kinds and any(k.startswith('empty:') and '=False' in k or k.startswith('empty:') and 'None' in k for k in kinds if k != 'ctx'):
        return '{<method>.context} iff set'
    return norm(ex)


def exclusion_source_problems(prog: Program, f: FuncInfo) -> List[Tuple[int, str]]:
    """The names a parameter is tested against come from the `exclude` argument alone: what is excluded for THIS binding is decided by
    the caller (the Method, from its own context setting), not by anything looked up elsewhere (function-level metadata is shared by
    all registrations of the function)."""
    from ..flow import Flow
    cfg = CFG(f, prog)
    fl = Flow(cfg)
    pnames = [p.arg for p in f.params]
    if 'exclude' not in pnames:
        return []
    out: List[Tuple[int, str]] = []
    from ..util import stmt_node_of
    for x in ast.walk(f.node):
        if isinstance(x, ast.Compare) and len(x.ops) == 1 and isinstance(x.ops[0], (ast.In, ast.NotIn)) and norm(x.left).endswith('.name'):
            n = stmt_node_of(cfg, x)
            if n is None:
                continue
            for al in fl.alts(n, x.comparators[0]):
                v = al.expr
                while isinstance(v, ast.Call) and dotted(v.func) in ('set', 'frozenset', 'tuple', 'list') and len(v.args) == 1:
                    v = v.args[0]
                if isinstance(v, ast.Name) and v.id == 'exclude' and not fl.defs_at(al.node or n, 'exclude'):
                    continue
                out.append((x.lineno, f'`{norm(x)}` tests the parameter name against `{norm(al.expr)[:70]}`, which is not just the `exclude` argument'))
    return out


def rewritten_parameters(prog: Program, f: FuncInfo) -> List[Tuple[int, str]]:
    """The parameters handed to `signature.replace(parameters=...)` are followed back through every list-building stage
    (flow.py: append loops, comprehensions, list()/filter()): each stage must pass the Parameter object on as it is.  A stage whose
    element is a call (`param.replace(kind=...)`, `inspect.Parameter(...)`) changes what binds."""
    from ..flow import Flow
    cfg = CFG(f, prog)
    fl = Flow(cfg)
    out: List[Tuple[int, str]] = []
    seen: Set[int] = set()

    def go(n, e: ast.expr, depth: int) -> None:
        if depth > 5:
            return
        for sq in fl.seq(n, e):
            if sq.kind != 'iter' or id(sq) in seen:
                continue
            seen.add(id(sq))
            tgt = dotted(sq.target) if sq.target is not None else None
            for al in sq.elt:
                v = al.expr
                if isinstance(v, ast.Call) and not (dotted(v.func) in ('cast', 'typing.cast')):
                    out.append((getattr(v, 'lineno', f.node.lineno), norm(v)[:80]))
            if sq.iter is not None and not ('parameters' in norm(sq.iter) and 'values' in norm(sq.iter)):
                go(sq.node or n, sq.iter, depth + 1)
    for n in cfg.stmt_nodes():
        for c in calls_in(n):
            if isinstance(c.func, ast.Attribute) and c.func.attr == 'replace':
                for k in c.keywords:
                    if k.arg == 'parameters':
                        go(n, k.value, 0)
    return out


def _loop_exits(cfg: CFG, h) -> List:
    """nodes through which the loop headed by h can be left other than by exhaustion or by raising"""
    body0 = [e.dst for e in cfg.succ[h.id] if e.label == 'body']
    out = []
    if body0:
        fwd = {body0[0].id} | cfg.reachable(body0[0], avoid_nodes=[h])
        in_loop = {i for i in fwd if i != h.id and h.id in cfg.reachable(cfg.nodes[i])}
        for u_id in sorted(in_loop):
            for e in cfg.succ[u_id]:
                if e.label == 'exc' or e.dst is h or e.dst.id in in_loop or e.dst.kind == 'raise' or isinstance(e.dst.ast, ast.Raise):
                    continue
                out.append(e.dst)
    return out


def _parameter_loops(ck: Check, prog: Program) -> None:
    """Every parameter is looked at: the loops of the binder (signature) and of the documenters (pydantic params model, docstring
    params) over the parameters end only by exhaustion — an excluded parameter is skipped (`continue`), it does not end the walk —
    and the docstring documenter skips a name for each of the two reasons (listed in `exclude`, selected by the predicate) alone.
    The OpenAPI extractor loops (request / response / errors) agree on which extractor wins."""
    targets = [(BASEVAL, 'signature'), (PYD_EXTRACTOR, '_build_params_model'),
               ('pjrpc.server.specs.extractors.docstring.DocstringSchemaExtractor', 'extract_params_schema')]
    for cq, mn in targets:
        f = prog.cls(cq).methods.get(mn)
        if f is None:
            raise AnalysisError(f'{cq}.{mn} not found')
        ck.functions.add(f.qualname)
        cfg = CFG(f, prog)
        heads = [n for n in cfg.nodes if n.kind == 'next' and ('param' in norm(n.ast.iter) or 'param' in norm(n.ast.target))]
        if not heads:
            continue        # comprehension form: total by construction
        exits = [x for h in heads for x in _loop_exits(cfg, h)]
        ck.ob('EXCL-AGREE', f'{short(f.qualname)}: the walk over the parameters ends only by exhaustion', not exits)
        for x in exits:
            ck.finding('EXCL-AGREE', f.qualname, f'parameter walk left early: {norm(x.ast)[:30]}', f.module.rel, x.line,
                       f'`{norm(x.ast)[:50]}` leaves the loop over the parameters: the parameters after an excluded one are never looked at, so they '
                       f'are missing from the documents (or from the bound signature) although the other side knows them')
    # docstring documenter: a parameter is listed iff its name is not in `exclude` AND the predicate does not select it (so each
    # exclusion reason alone is sufficient) — read from the conditions under which an entry is produced, loop or comprehension alike
    from ..flow import _cond_guards
    dm = prog.cls('pjrpc.server.specs.extractors.docstring.DocstringSchemaExtractor').methods['extract_params_schema']
    cfg = CFG(dm, prog)
    keep_conds = None
    for n in cfg.stmt_nodes():
        a_ = n.ast
        if isinstance(a_, ast.Assign) and isinstance(a_.targets[0], ast.Subscript) and norm(a_.targets[0].slice).endswith('.arg_name'):
            keep_conds = [(g.src.ast, g.label == 'T') for g in guard_edges(cfg, n)
                          if any(h_.id in cfg.reachable(g.src) for h_ in cfg.nodes if h_.kind == 'next')]
    if keep_conds is None:
        for x in walk_own(dm.node):
            if isinstance(x, ast.DictComp) and norm(x.key).endswith('.arg_name'):
                keep_conds = []
                for c_ in x.generators[0].ifs:
                    keep_conds += _cond_guards(c_, True)
    if keep_conds is None:
        raise AnalysisError(f'{dm.qualname}: documented-parameter entries not found')
    in_ok = pred_ok = False
    for c_, pol in keep_conds:
        inner, p_ = c_, pol
        while isinstance(inner, ast.UnaryOp) and isinstance(inner.op, ast.Not):
            inner, p_ = inner.operand, not p_
        if isinstance(inner, ast.Compare) and len(inner.ops) == 1 and isinstance(inner.ops[0], (ast.In, ast.NotIn)) and \
                norm(inner.left).endswith('.arg_name') and 'exclude' in norm(inner.comparators[0]):
            if (isinstance(inner.ops[0], ast.NotIn)) == p_:
                in_ok = True
        elif isinstance(inner, ast.Call) and dotted(inner.func) == 'self._exclude_param' and not p_:
            # ExcludeFunc(name, annotation, default): the name the docstring gives is the first argument
            a0 = inner.args[0] if inner.args and not isinstance(inner.args[0], ast.Starred) else \
                next((k.value for k in inner.keywords if k.arg in ('name', 'param_name')), None)
            if a0 is not None and norm(a0).endswith('.arg_name'):
                pred_ok = True
            else:
                ck.finding('EXCL-AGREE', dm.qualname, 'exclusion predicate is not asked about the parameter name', dm.module.rel, inner.lineno,
                           f'`{norm(inner)}`: the exclusion predicate is called as (name, annotation, default) by the binder; here its first '
                           f'argument is `{norm(a0) if a0 is not None else "missing"}`, not the documented parameter\'s name, so a predicate that selects by '
                           f'name never matches and the injected parameter is published as a client parameter')
    ok_d = in_ok and pred_ok
    ck.ob('EXCL-AGREE', 'docstring documenter: a parameter is listed iff its name is not in exclude and the predicate does not select it', ok_d)
    if not ok_d:
        ck.finding('EXCL-AGREE', dm.qualname, 'docstring exclusion formula', dm.module.rel, dm.node.lineno,
                   f'a documented parameter must be skipped when its name is in `exclude` (required on every listing path: {in_ok}) and when the '
                   f'exclusion predicate selects it (required: {pred_ok}); otherwise the context parameter is published although the binder refuses it')
    # OpenAPI: the three extractor loops agree on precedence
    oa = prog.cls(OPENAPI)
    prec = {}
    for mn in ('_extract_request_schema', '_extract_response_schema', '_extract_errors_schema'):
        f = oa.methods.get(mn)
        if f is None:
            continue
        cfg = CFG(f, prog)
        heads = [n for n in cfg.nodes if n.kind == 'next' and 'extractor' in norm(n.ast.iter)]
        if len(heads) != 1:
            continue
        prec[mn] = 'first result wins' if _loop_exits(cfg, heads[0]) else 'last result wins'
    ok_p = len(set(prec.values())) <= 1 and len(prec) >= 2
    ck.ob('EXCL-AGREE', 'OpenAPI: request, response and error schemas are taken from the same (first answering) extractor', ok_p, sample=prec)
    if not ok_p:
        ck.finding('EXCL-AGREE', oa.qualname, f'extractor precedence differs: {prec}', oa.module.rel, oa.node.lineno,
                   f'the extractor loops disagree on which extractor\'s answer is used ({prec}): the request parameters can come from a docstring '
                   f'while the rest comes from the signature, so the published parameter list is not the bound one')


def excluded_names_not_lazy(ck: Check, prog: Program) -> None:
    """EXCL-AGREE (every parameter is asked the same question): the collection of excluded names that the binder and the
    documenters test each parameter against is never a one-shot iterator."""
    from .lazy import lazy_membership_problems
    mods = ('pjrpc.server.specs', 'pjrpc.server.validators', 'pjrpc.server.dispatcher')
    scope = [f for f in prog.iter_funcs() if f.module.name.startswith(mods)]
    funcs = [f for f in scope if f.module.name.startswith(('pjrpc.server.specs.extractors', 'pjrpc.server.validators'))]
    n_tests, problems = lazy_membership_problems(prog, funcs, scope)
    ck.ob('EXCL-AGREE', f'{n_tests} membership tests in the validators / schema extractors: none is made repeatedly against a one-shot iterator',
          not problems, sample={'membership_tests': n_tests})
    ck.require('EXCL-AGREE', 'membership tests in the validators / schema extractors', n_tests, 2)
    for f, line, construct, msg in problems:
        ck.finding('EXCL-AGREE', f.qualname, construct, f.module.rel, line, msg)


def run(ck: Check, prog: Program) -> None:
    ck.explain('Sibling agreement between the places that filter a signature: BaseValidator.signature (what the dispatcher binds), '
               'PydanticSchemaExtractor._build_params_model (what the documents list) and the exclude= arguments at the call sites '
               'in Method.bind, OpenAPI._extract_request_schema and OpenRPC._extract_params_schema: the same exclusion formula, the '
               'same exclude expression (the method\'s context iff set), required iff no default, and the callable whose signature '
               'is documented is the callable whose signature is bound, in the same binding state.')
    ck.not_decided += ['the docstring extractor documents whatever the docstring says (free text)',
                       'variadic / positional-only parameters are bound by the validator but cannot be documented as named members (kind filter recorded)']
    sig = prog.cls(BASEVAL).methods.get('signature')
    bpm = prog.cls(PYD_EXTRACTOR).methods.get('_build_params_model')
    if sig is None or bpm is None:
        raise AnalysisError('signature() / _build_params_model() not found')
    ck.functions |= {sig.qualname, bpm.qualname}
    fa, fb = keep_formula(prog, sig), keep_formula(prog, bpm)
    if fa is None or fb is None:
        raise AnalysisError('parameter-filter loop not recognised in signature() / _build_params_model()')
    core = lambda s: {x for x in s if not x.startswith('kind:')}
    ok = core(fa) == core(fb) == {'name-not-in-exclude', 'predicate-false'}
    ck.ob('EXCL-AGREE', 'binder and documenter keep a parameter under the same formula (name ∉ exclude ∧ ¬predicate)', ok,
          sample={'binder': sorted(fa), 'documenter': sorted(fb)})
    if not ok:
        ck.finding('EXCL-AGREE', bpm.qualname, 'exclusion formulas differ', bpm.module.rel, bpm.node.lineno,
                   f'the binder keeps a parameter iff {sorted(fa)} but the documents list it iff {sorted(fb)}: a documented parameter '
                   f'would be refused (or an accepted one undocumented)')
    # the documents list named members: exactly the parameters that CAN be passed by name (positional-or-keyword, keyword-only) —
    # a positional-only parameter is bound by position only, *args / **kwargs have no single name
    KINDS = ('POSITIONAL_ONLY', 'POSITIONAL_OR_KEYWORD', 'VAR_POSITIONAL', 'KEYWORD_ONLY', 'VAR_KEYWORD')
    kept = set(KINDS)
    undecided = False
    for fct in sorted(x for x in fb if x.startswith('kind:')):
        _, body_, pol_ = fct.rsplit(':', 2)[0].split(':', 1)[0], fct[len('kind:'):fct.rfind(':')], fct.endswith(':T')
        named = {k for k in KINDS if ('.' + k) in body_ or body_.strip('[] ') == k or (k in body_.replace('VAR_' + k, '') if k in ('POSITIONAL', 'KEYWORD') else False)}
        named = {k for k in KINDS if any(tok.strip().rsplit('.', 1)[-1] == k for tok in body_.strip('[]() ').split(','))}
        if not named:
            undecided = True
            continue
        kept &= named if pol_ else (set(KINDS) - named)
    if undecided:
        raise AnalysisError(f'{bpm.qualname}: parameter-kind filter not understood: {sorted(x for x in fb if x.startswith("kind:"))}')
    ok_k = kept == {'POSITIONAL_OR_KEYWORD', 'KEYWORD_ONLY'}
    ck.ob('EXCL-AGREE', 'the documents list exactly the parameters that can be passed by name (positional-or-keyword, keyword-only)', ok_k,
          sample={'kinds_documented': sorted(kept)})
    if not ok_k:
        extra = sorted(kept - {'POSITIONAL_OR_KEYWORD', 'KEYWORD_ONLY'})
        missing = sorted({'POSITIONAL_OR_KEYWORD', 'KEYWORD_ONLY'} - kept)
        ck.finding('EXCL-AGREE', bpm.qualname, f'documented parameter kinds {sorted(kept)}', bpm.module.rel, bpm.node.lineno,
                   f'the params model lists parameters of kind {sorted(kept)}'
                   + (f': {extra} cannot be given by name, so a request built from the published names is refused with -32602' if extra else '')
                   + (f'; {missing} can be given by name but are not listed' if missing else ''))
    _parameter_loops(ck, prog)
    excluded_names_not_lazy(ck, prog)
    # exclude expressions at the call sites
    sites: List[Tuple[FuncInfo, ast.Call, str]] = []
    for b in bind_methods(prog):
        if b.cls is not None and b.cls.name == 'Method':
            for x in walk_own(b.node):
                if isinstance(x, ast.Call) and isinstance(x.func, ast.Attribute) and x.func.attr == 'validate_method':
                    sites.append((b, x, 'binder'))
    for cq, mname in ((OPENAPI, 'extract_request_schema'), (OPENRPC, 'extract_params_schema')):
        ci = prog.cls(cq)
        for m in ci.methods.values():
            for x in walk_own(m.node):
                if isinstance(x, ast.Call) and isinstance(x.func, ast.Attribute) and x.func.attr == mname:
                    sites.append((m, x, 'documenter'))
    ck.require('EXCL-AGREE', 'exclude call sites', len(sites), 3)
    forms = {}
    for f, call, role in sites:
        ck.functions.add(f.qualname)
        forms[short(f.qualname)] = exclude_expr(call, 2 if role == 'binder' else None, prog, f)
    okx = set(forms.values()) == {'{<method>.context} iff set'}
    ck.ob('EXCL-AGREE', 'every site excludes exactly the method\'s context parameter iff one is configured', okx, sample={'sites': forms})
    if not okx:
        for k, v in forms.items():
            if v != '{<method>.context} iff set':
                f = [s for s in sites if short(s[0].qualname) == k][0]
                ck.finding('EXCL-AGREE', f[0].qualname, f'exclude={v}', f[0].module.rel, f[1].lineno,
                           f'{k} passes exclude={v}; binder and documents must both exclude exactly the context parameter '
                           f'(otherwise the context shows up as a documented/required parameter or a documented one is refused)')
    # forwarding inside the extractor
    pe = prog.cls(PYD_EXTRACTOR)
    for mname in ('extract_params_schema', 'extract_request_schema'):
        m = pe.methods.get(mname)
        if m is None:
            continue
        fwd = any(isinstance(x, ast.Call) and dotted(x.func) == 'self._build_params_model' and
                  (any(dotted(a) == 'exclude' for a in x.args) or any(kw.arg == 'exclude' for kw in x.keywords)) for x in walk_own(m.node))
        ck.ob('FWD-PARAM', f'{short(m.qualname)} forwards exclude to the params model builder', fwd)
        if not fwd:
            ck.finding('FWD-PARAM', m.qualname, 'exclude not forwarded', m.module.rel, m.node.lineno,
                       f'{mname} does not pass `exclude` on to _build_params_model: the context parameter is documented')
    # REQ-DEFAULT (value flow: the second element of the stored field definition is the parameter's default on the paths where
    # it has one, Ellipsis = "required" where it has none; conditional expression or default + override alike)
    from ..cfg import CFG as _CFG
    from ..flow import Flow
    cfg_b = _CFG(bpm, prog)
    fl_b = Flow(cfg_b)

    def _leafs(node, e):
        return [al.expr for al in fl_b.alts(node, e)]

    def _is_empty_ref(node, e) -> bool:
        ls = _leafs(node, e)
        return bool(ls) and all((dotted(x) or '').endswith('Parameter.empty') for x in ls)

    def _is_default_ref(node, e) -> bool:
        ls = _leafs(node, e)
        return bool(ls) and all((dotted(x) or '').endswith('.default') for x in ls)

    def _has_default(guards) -> Optional[bool]:
        for c, pol in guards:
            if isinstance(c, ast.Compare) and len(c.ops) == 1 and isinstance(c.ops[0], (ast.Is, ast.IsNot)):
                nodes = cfg_b.nodes_of(c)
                nd = nodes[0] if nodes else cfg_b.entry
                l, r = c.left, c.comparators[0]
                for x, y in ((l, r), (r, l)):
                    if _is_default_ref(nd, x) and _is_empty_ref(nd, y):
                        return isinstance(c.ops[0], ast.IsNot) == pol
        return None
    okd = False
    whyd = 'no field-definition store found'
    for n_ in cfg_b.stmt_nodes():
        a_ = n_.ast
        if isinstance(a_, ast.Assign) and isinstance(a_.targets[0], ast.Subscript) and isinstance(a_.value, ast.Tuple) and len(a_.value.elts) == 2:
            alts = fl_b.alts(n_, a_.value.elts[1])
            seen = set()
            bad = []
            for al in alts:
                hd = _has_default(al.guards)
                if (dotted(al.expr) or '').endswith('.default') and hd is True:
                    seen.add('default')
                elif isinstance(al.expr, ast.Constant) and al.expr.value is Ellipsis and hd is False:
                    seen.add('required')
                else:
                    bad.append(al.text()[:80])
            okd = seen == {'default', 'required'} and not bad
            whyd = ' | '.join(al.text()[:70] for al in alts)
    ck.ob('REQ-DEFAULT', 'a documented parameter is required iff it has no default', okd, sample={'field_default': whyd})
    if not okd:
        ck.finding('REQ-DEFAULT', bpm.qualname, 'required/default mapping', bpm.module.rel, bpm.node.lineno,
                   f'a field must be required (…) iff the parameter has no default, and carry the default otherwise; found: {whyd}')
    # REQ-SOURCE: OpenRPC re-packs the params schema into content descriptors: `required` of each descriptor must be membership of
    # that parameter's name in the SAME schema's `required` list (which the model builder derives from "has no default")
    orp = prog.cls(OPENRPC).methods.get('_extract_params_schema')
    if orp is None:
        raise AnalysisError('OpenRPC._extract_params_schema not found')
    ck.functions.add(orp.qualname)
    from ..flow import Flow as _Fl
    cfg_o = _CFG(orp, prog)
    fl_o = _Fl(cfg_o)
    n_desc = 0
    for n_ in cfg_o.stmt_nodes():
        for c_ in calls_in(n_):
            if dotted(c_.func) != 'ContentDescriptor':
                continue
            kws = {kw.arg: kw.value for kw in c_.keywords if kw.arg}
            if 'required' not in kws or 'name' not in kws:
                continue
            n_desc += 1
            rq = kws['required']
            # the comprehension / loop this descriptor is built in
            it_map = None
            key_var = None
            for x in walk_own(orp.node):
                gens = x.generators if isinstance(x, (ast.ListComp, ast.GeneratorExp)) else []
                for g_ in gens:
                    if any(y is c_ for y in ast.walk(x)) and isinstance(g_.iter, ast.Call) and isinstance(g_.iter.func, ast.Attribute) and \
                            g_.iter.func.attr == 'items' and isinstance(g_.target, ast.Tuple):
                        src = g_.iter.func.value
                        if isinstance(src, ast.Call) and isinstance(src.func, ast.Attribute) and src.func.attr == 'get' and src.args and \
                                isinstance(src.args[0], ast.Constant) and src.args[0].value == 'properties':
                            it_map = dotted(src.func.value)
                        elif isinstance(src, ast.Subscript) and isinstance(src.slice, ast.Constant) and src.slice.value == 'properties':
                            it_map = dotted(src.value)
                        key_var = dotted(g_.target.elts[0])
                if isinstance(x, (ast.For, ast.AsyncFor)) and any(y is c_ for b_ in x.body for y in ast.walk(b_)) and \
                        isinstance(x.iter, ast.Call) and isinstance(x.iter.func, ast.Attribute) and x.iter.func.attr == 'items' and isinstance(x.target, ast.Tuple):
                    src = x.iter.func.value
                    if isinstance(src, ast.Call) and isinstance(src.func, ast.Attribute) and src.func.attr == 'get' and src.args and \
                            isinstance(src.args[0], ast.Constant) and src.args[0].value == 'properties':
                        it_map = dotted(src.func.value)
                    key_var = dotted(x.target.elts[0])
            okq = False
            leafs = [al.expr for al in fl_o.alts(n_, rq)]
            if it_map and key_var and len(leafs) == 1 and isinstance(leafs[0], ast.Compare) and len(leafs[0].ops) == 1 and \
                    isinstance(leafs[0].ops[0], ast.In) and dotted(leafs[0].left) == key_var:
                cmpv = leafs[0].comparators[0]
                cands = [b_.expr for b_ in fl_o.alts(n_, cmpv)] if isinstance(cmpv, ast.Name) else [cmpv]
                for cv in cands:
                    if isinstance(cv, ast.Call) and isinstance(cv.func, ast.Attribute) and cv.func.attr == 'get' and cv.args and \
                            isinstance(cv.args[0], ast.Constant) and cv.args[0].value == 'required' and dotted(cv.func.value) == it_map:
                        okq = True
                    elif isinstance(cv, ast.Subscript) and isinstance(cv.slice, ast.Constant) and cv.slice.value == 'required' and dotted(cv.value) == it_map:
                        okq = True
            if dotted(kws['name']) != key_var:
                okq = False
            ck.ob('REQ-SOURCE', 'OpenRPC content descriptors: required ⇔ the parameter name is in the params schema\'s `required` list', okq,
                  sample={'required': norm(rq)[:80]})
            if not okq:
                ck.finding('REQ-SOURCE', orp.qualname, f'required={norm(rq)[:50]}', orp.module.rel, c_.lineno,
                           f'`required={norm(rq)}`: a parameter must be documented as required exactly when its name is listed in the `required` '
                           f'member of the same params schema (derived from "has no default"); any other source (presence of a `default` key, '
                           f'nullability, ...) disagrees with what the dispatcher binds for defaults that cannot be rendered')
    ck.require('REQ-SOURCE', 'content descriptors built from the extracted params schema', n_desc, 1)
    # "a request that adds an unlisted name is always refused": the binder must see the params exactly as sent
    from .c04 import _ctx_rules
    for b in bind_methods(prog):
        before = len(ck.findings)
        _ctx_rules(ck, prog, b)
    # the binder sees the params object exactly as sent (a member sent as null is a member)
    from .c04 import _bind_strict
    _bind_strict(ck, prog)
    from . import borrow
    borrow(ck, prog, 'C14', {'VALID-ORDER'}, 'what is published is what binds: validate_method binds on every path before it returns, whatever the signature looks like')
    # SIG-SOURCE
    _sig_source(ck, prog)


def _signature_reads(ck: Check, prog: Program) -> None:
    """SIG-SOURCE: binder and documenters ask `inspect.signature` about the SAME object — the callable they were handed, as it is.
    One side unwrapping decorators, following `__wrapped__`, or looking at `__func__` sees another signature than the other side."""
    from ..flow import Flow
    from ..util import stmt_node_of
    sites = []
    for f in prog.iter_funcs():
        if not f.module.name.startswith(('pjrpc.server.validators', 'pjrpc.server.specs.extractors')) or not isinstance(f.node, (ast.FunctionDef, ast.AsyncFunctionDef)):
            continue
        calls = [x for x in walk_own(f.node) if isinstance(x, ast.Call) and dotted(x.func) in ('inspect.signature', 'signature') and x.args]
        if not calls:
            continue
        cfg = CFG(f, prog)
        fl = Flow(cfg)
        pnames = {p.arg for p in f.params}
        for c in calls:
            n = stmt_node_of(cfg, c)
            forms = set()
            for al in (fl.alts(n, c.args[0]) if n is not None else []):
                v = al.expr
                forms.add('the callable as given' if isinstance(v, ast.Name) and v.id in pnames and not fl.defs_at(al.node or n, v.id) else norm(v)[:60])
            sites.append((f, c, forms))
    ck.require('SIG-SOURCE', 'inspect.signature call sites in the validators / schema extractors', len(sites), 2)
    bad = [(f, c, forms) for f, c, forms in sites if forms != {'the callable as given'}]
    ck.ob('SIG-SOURCE', f'{len(sites)} inspect.signature call sites of the binder and the documenters read the callable they were given, unchanged', not bad,
          sample={'sites': [f'{short(f.qualname)}: {sorted(forms)}' for f, c, forms in sites]})
    for f, c, forms in bad:
        ck.finding('SIG-SOURCE', f.qualname, f'signature of {sorted(forms)[0][:40]}', f.module.rel, c.lineno,
                   f'`{norm(c)[:80]}` reads the signature of {sorted(forms)} while the other side reads the callable as given: for a decorated method '
                   f'that declares `__signature__` (or any wrapper) the documented and the bound parameters differ — a conforming request '
                   f'is refused with -32602 or an undocumented name is accepted')


def _sig_source(ck: Check, prog: Program) -> None:
    _signature_reads(ck, prog)
    # what the generators document: <method>.method
    doc_attr = set()
    for cq in (OPENAPI, OPENRPC):
        for m in prog.cls(cq).methods.values():
            for x in walk_own(m.node):
                if isinstance(x, ast.Call) and isinstance(x.func, ast.Attribute) and x.func.attr in ('extract_request_schema', 'extract_params_schema') \
                        and len(x.args) >= 2:
                    doc_attr.add(norm(x.args[1]))
    if doc_attr != {'method.method'}:
        raise AnalysisError(f'spec generators document {doc_attr}, expected method.method')
    for b in bind_methods(prog):
        ck.functions.add(b.qualname)
        vcalls = [x for x in walk_own(b.node) if isinstance(x, ast.Call) and isinstance(x.func, ast.Attribute) and x.func.attr == 'validate_method']
        if len(vcalls) != 1:
            raise AnalysisError(f'{b.qualname}: validate_method call not found')
        bound = norm(vcalls[0].args[0]) if vcalls[0].args else '?'
        same = bound == 'self.method'
        why = ''
        if not same:
            # how was the bound callable obtained?
            src = None
            for st in walk_own(b.node):
                if isinstance(st, ast.Assign) and isinstance(st.targets[0], ast.Name) and st.targets[0].id == bound:
                    src = st.value
            init = b.cls.methods.get('__init__') if b.cls else None
            doc_src = None
            if init is not None:
                for x in walk_own(init.node):
                    if isinstance(x, ast.Call) and isinstance(x.func, ast.Attribute) and x.func.attr == '__init__' and x.args:
                        doc_src = x.args[0]
            why = (f'the binder validates `{bound}` = `{norm(src) if src is not None else "?"}` (attribute looked up on a view INSTANCE: a bound '
                   f'method without `self`), while the documents describe `self.method` = `{norm(doc_src) if doc_src is not None else "?"}` '
                   f'(attribute looked up on the view CLASS: a plain function whose first parameter is `self`)')
        ck.ob('SIG-SOURCE', f'{short(b.qualname)}: the documented callable is the bound callable in the same binding state', same,
              sample={'bound': bound, 'documented': 'self.method'})
        if not same:
            ck.finding('SIG-SOURCE', b.qualname, 'documented callable has `self`, bound callable does not', b.module.rel, vcalls[0].lineno,
                       f'{why}: the generated documents list `self` as a required parameter of every view method, and a request that '
                       f'follows the published schema (supplies `self`) is refused with -32602 while one that omits it is accepted')


MUTANTS = [
    dict(name='binder-reads-the-unwrapped-signature', file='pjrpc/server/validators/base.py',
         find='        signature = inspect.signature(method)\n', replace='        signature = inspect.signature(inspect.unwrap(method))\n', expect='SIG-SOURCE'),
    dict(name='documenter-keeps-positional-only-parameters', file='pjrpc/server/specs/extractors/pydantic.py',
         find='if param.kind in [inspect.Parameter.POSITIONAL_OR_KEYWORD, inspect.Parameter.KEYWORD_ONLY]:',
         replace='if param.kind not in (inspect.Parameter.VAR_POSITIONAL, inspect.Parameter.VAR_KEYWORD):', expect='EXCL-AGREE'),
    dict(name='exclusion-names-held-as-a-lazy-filter', file='pjrpc/server/specs/extractors/pydantic.py', nth=0,
         find='        exclude = set(exclude)\n', replace='        exclude = filter(None, exclude)\n', expect='EXCL-AGREE'),
    dict(name='openapi-drops-exclude', file='pjrpc/server/specs/openapi.py',
         find='                    exclude=[method.context] if method.context else [],\n', replace='', expect='EXCL-AGREE'),
    dict(name='defaults-marked-required', file='pjrpc/server/specs/extractors/pydantic.py', nth=0,
         find='param.default if param.default is not inspect.Parameter.empty else ...,', replace='...,', expect='REQ-DEFAULT'),
    dict(name='predicate-in-binder-only', file='pjrpc/server/specs/extractors/pydantic.py',
         find='if param.name in exclude or self._exclude_param(param.name, param.annotation, param.default):',
         replace='if param.name in exclude:', expect='EXCL-AGREE'),
    dict(name='extractor-drops-exclude', file='pjrpc/server/specs/extractors/pydantic.py', nth=0,
         find='params_model = self._build_params_model(method_name, method, exclude)', replace='params_model = self._build_params_model(method_name, method)',
         expect='FWD-PARAM'),
    dict(name='openrpc-excludes-name-not-context', file='pjrpc/server/specs/openrpc.py',
         find='exclude=[method.context] if method.context else [],', replace='exclude=[method.name] if method.context else [],', expect='EXCL-AGREE'),
    dict(name='openrpc-required-from-default-key', file='pjrpc/server/specs/openrpc.py', find="required=name in params_schema.get('required', []),",
         replace="required='default' not in schema,", expect='REQ-SOURCE'),
]
