"""Fact extractors over the dispatcher halves.  Each extractor returns (facts, problems):
facts are normalised records (await erased, no line numbers) that C11 compares between the
synchronous and the asynchronous half; problems are (rule, construct, line, message) tuples."""
from __future__ import annotations

import ast
from typing import Any, Dict, List, Optional, Set, Tuple

from ..absint import EMPTY_ENV, Interp
from ..cfg import CFG, Edge, Node, run_typestate, witness
from ..model import AnalysisError, ClassInfo, FuncInfo, Program, dotted, norm
from ..prov import Prov
from ..types import FuncScope, types_of, walk_own
from ..util import (assigned_names, calls_in, classify_cond, guard_edges, is_unset_expr, node_exprs, short,
                    walk_no_defs)
from .common import EXC, V20, DispatcherRoles, kwarg, response_ctor_calls

Problem = Tuple[str, str, int, str]

ORDER_DESTROYING = {'set', 'frozenset', 'sorted', 'reversed', 'asyncio.as_completed', 'asyncio.wait', 'random.shuffle',
                    'random.sample', 'dict', 'dict.fromkeys', 'heapq.nlargest', 'heapq.nsmallest', 'heapq.merge'}
CONCURRENT_JOIN = {'asyncio.gather', 'asyncio.wait', 'asyncio.as_completed', 'asyncio.create_task',
                   'asyncio.ensure_future', 'asyncio.TaskGroup', 'asyncio.wait_for', 'asyncio.shield'}


def strip_await(e: ast.AST) -> ast.AST:
    while isinstance(e, ast.Await):
        e = e.value
    return e


def is_notif_test(prog: Program, f: FuncInfo, cond: ast.expr, req_names: Set[str]) -> Optional[bool]:
    """None if not a notification test; else True if the condition is TRUE for notifications."""
    ck = classify_cond(prog, f, cond)
    if ck.kind == 'is-none' and ck.subject and ck.subject.endswith('.id') and ck.subject[:-3] in req_names:
        return not ck.negated
    if ck.kind == 'truthy' and ck.subject and ck.subject.endswith('.is_notification') and ck.subject.rsplit('.', 1)[0] in req_names:
        return not ck.negated
    return None


# ----------------------------------------------------------------------------------------------
# per-element chain: notification silence, id echo
# ----------------------------------------------------------------------------------------------

def notif_facts(prog: Program, interp: Interp, r: DispatcherRoles) -> Tuple[Dict[str, Any], List[Problem]]:
    facts: Dict[str, Any] = {}
    problems: List[Problem] = []
    ty = types_of(prog)
    for role, f in (('handle_request', r.handle_request), ('handle_rpc_request', r.handle_rpc_request)):
        cfg = interp.analyze(f, {EMPTY_ENV}, recv=r.cls.qualname).cfg
        req = f.params[1].arg if len(f.params) > 1 else None
        if req is None:
            raise AnalysisError(f'{f.qualname}: no request parameter')
        if any(req in assigned_names(n) for n in cfg.nodes):
            problems.append(('ID-ECHO', f'{role}: request parameter reassigned', f.node.lineno,
                             f'the request parameter `{req}` is reassigned inside {short(f.qualname)}; the response may echo another id'))
        sc = FuncScope(f, ty)
        rets = []
        from ..flow import Flow
        fl = Flow(cfg)
        for n in cfg.stmt_nodes():
            a = n.ast
            if not isinstance(a, ast.Return):
                continue
            # every value this return can produce, with the conditions of the path it travels (conditional expressions,
            # temporaries and dominating branches alike)
            from ..flow import Alt
            alts = fl.alts(n, a.value) if a.value is not None else [Alt(ast.Constant(value=None), [(g.src.ast, g.label == 'T') for g in guard_edges(cfg, n)], n)]
            for al in alts:
                v = strip_await(al.expr)
                kind = 'other'
                detail = ''
                if v is None or (isinstance(v, ast.Constant) and v.value is None):
                    kind = 'none'
                elif is_unset_expr(prog, f, v):
                    kind = 'unset'
                elif isinstance(v, ast.Call):
                    tg = ty.callees(v, sc)
                    if any(k == 'ctor' and isinstance(o, ClassInfo) and o.qualname == V20 + '.Response' for k, o in tg):
                        kind = 'response'
                        idv = kwarg(v, 'id', 0)
                        detail = 'id=' + (norm(idv).replace(req, '<request>') if idv is not None else '<missing>')
                        kws = sorted(kw.arg or '**' for kw in v.keywords)
                        detail += ' kw=' + ','.join(kws)
                        if idv is None or dotted(idv) != f'{req}.id':
                            problems.append(('ID-ECHO', f'{role}: response id is not the request id', n.line,
                                             f'{short(f.qualname)} builds a response with id={norm(idv) if idv is not None else "<missing>"} '
                                             f'instead of the id of the request being handled ({req}.id)'))
                    elif any(k == 'func' and isinstance(o, FuncInfo) and o.cls is r.cls for k, o in tg):
                        kind = 'delegate'
                        detail = [o.name for k, o in tg if k == 'func'][0]
                g_notif: Optional[bool] = None
                for c_, pol_ in al.guards:
                    t = is_notif_test(prog, f, c_, {req})
                    if t is not None:
                        g_notif = (t == pol_)     # True: on this path the request IS a notification
                rets.append((kind, detail, g_notif))
                if kind == 'response' and g_notif is not False:
                    problems.append(('NOTIF-SILENT', f'{role}: response returned without excluding notifications', n.line,
                                     f'{short(f.qualname)} can return a response object on a path where the request may be a '
                                     f'notification (no dominating `{req}.id is None` → UNSET): notifications must never be answered'))
                if kind == 'unset' and g_notif is not True:
                    problems.append(('NOTIF-SILENT', f'{role}: UNSET returned for a call', n.line,
                                     f'{short(f.qualname)} can return UNSET (no response) on a path where the request carries an id: '
                                     f'every call must be answered exactly once'))
                if kind in ('none', 'other'):
                    problems.append(('NOTIF-SILENT', f'{role}: unexpected return value', n.line,
                                     f'{short(f.qualname)} returns `{norm(al.expr)}`, which is neither a '
                                     f'response for the request nor UNSET'))
        # falling off the end returns None
        if any(e.src.kind != 'stmt' or not isinstance(e.src.ast, ast.Return) for e in cfg.pred[cfg.exit.id]):
            problems.append(('NOTIF-SILENT', f'{role}: falls off the end', f.node.lineno,
                             f'{short(f.qualname)} can end without returning a response or UNSET'))
        facts[role] = sorted({f'{k}:{d}:{"notif" if g is True else "call" if g is False else "any"}' for k, d, g in rets})
    # responses built in helper methods extracted from the chain must still echo the id of the request being handled:
    # the id expression has to be `<parameter>.id` of a parameter that receives the request at the call site
    chain = {r.handle_request.qualname, r.handle_rpc_request.qualname, r.handle_rpc_method.qualname}
    for f in (r.handle_request, r.handle_rpc_request):
        sc = FuncScope(f, ty)
        req = f.params[1].arg
        for x in walk_own(f.node):
            if not isinstance(x, ast.Call):
                continue
            for k, o in ty.callees(x, sc):
                if k == 'func' and isinstance(o, FuncInfo) and o.cls is r.cls and o.qualname not in chain:
                    hsc = FuncScope(o, ty)
                    for y in walk_own(o.node):
                        if isinstance(y, ast.Call) and any(k2 == 'ctor' and isinstance(o2, ClassInfo) and o2.qualname == V20 + '.Response'
                                                           for k2, o2 in ty.callees(y, hsc)):
                            idv = kwarg(y, 'id', 0)
                            d = dotted(idv) if idv is not None else None
                            hp = [p.arg for p in o.params[1:]]
                            ok = d is not None and d.endswith('.id') and d[:-3] in hp
                            if ok:
                                # the parameter must be bound to the request at the call site
                                idx = hp.index(d[:-3])
                                arg = x.args[idx] if idx < len(x.args) else kwarg(x, d[:-3])
                                ok = arg is not None and dotted(arg) == req
                            if not ok:
                                problems.append(('ID-ECHO', f'helper {o.name}: response id is not the id of the request being handled', y.lineno,
                                                 f'{short(o.qualname)} builds the response with id={norm(idv) if idv is not None else "<missing>"}: that is not '
                                                 f'the id of the request parameter of the element being handled (state kept on the dispatcher is shared by '
                                                 f'all concurrently handled elements, so one element can be answered with another element\'s id)'))
    return facts, problems


# ----------------------------------------------------------------------------------------------
# _handle_rpc_method: lookup, bind, invoke exactly once
# ----------------------------------------------------------------------------------------------

def method_call_facts(prog: Program, interp: Interp, r: DispatcherRoles) -> Tuple[Dict[str, Any], List[Problem]]:
    f = r.handle_rpc_method
    ty = types_of(prog)
    sc = FuncScope(f, ty)
    res = interp.analyze(f, {EMPTY_ENV}, recv=r.cls.qualname)
    cfg = res.cfg
    assert cfg is not None
    problems: List[Problem] = []
    facts: Dict[str, Any] = {}
    lookup: List[Tuple[Node, ast.Call]] = []
    bind: List[Tuple[Node, ast.Call]] = []
    invoke: List[Tuple[Node, ast.Call]] = []
    bound_vars: Set[str] = set()
    for n in cfg.stmt_nodes():
        for c in calls_in(n):
            tg = ty.callees(c, sc)
            if any(k == 'func' and isinstance(o, FuncInfo) and o.qualname.endswith('MethodRegistry.get') for k, o in tg) or \
                    any(k == 'func' and isinstance(o, FuncInfo) and o.cls is not None and o.cls.name == 'MethodRegistry' for k, o in tg):
                lookup.append((n, c))
            if any(k == 'func' and isinstance(o, FuncInfo) and o.name == 'bind' and o.cls is not None and
                   o.cls.qualname.startswith('pjrpc.server.dispatcher') for k, o in tg):
                bind.append((n, c))
                if isinstance(n.ast, ast.Assign) and len(n.ast.targets) == 1 and isinstance(n.ast.targets[0], ast.Name):
                    bound_vars.add(n.ast.targets[0].id)
    for n in cfg.stmt_nodes():
        for c in calls_in(n):
            if isinstance(c.func, ast.Name) and c.func.id in bound_vars:
                invoke.append((n, c))
    # a lookup made through something that remembers earlier answers (a memoised helper, an lru_cache object built over registry.get)
    # is still a lookup — and a finding: the registry can change between requests
    cached_lookup: List[Tuple[Node, ast.Call, str]] = []
    if len(lookup) < 1:
        from ..effects import is_memo_decorated
        init_caches: Dict[str, str] = {}
        for c_ in prog.mro(r.cls):
            if isinstance(c_, ClassInfo) and '__init__' in c_.methods:
                for st in walk_own(c_.methods['__init__'].node):
                    if isinstance(st, ast.Assign) and len(st.targets) == 1 and isinstance(st.targets[0], ast.Attribute) and \
                            dotted(st.targets[0].value) == 'self' and isinstance(st.value, ast.Call) and 'cache' in norm(st.value.func) and \
                            any('_registry' in norm(a) for a in st.value.args):
                        init_caches[st.targets[0].attr] = norm(st.value)
        for n in cfg.stmt_nodes():
            for c in calls_in(n):
                if isinstance(c.func, ast.Attribute) and dotted(c.func.value) == 'self' and c.func.attr in init_caches:
                    cached_lookup.append((n, c, f'`self.{c.func.attr}` is `{init_caches[c.func.attr][:70]}`'))
                    continue
                for k, o in ty.callees(c, sc):
                    if k == 'func' and isinstance(o, FuncInfo) and is_memo_decorated(prog, o) and \
                            any(isinstance(x, ast.Attribute) and x.attr == '_registry' for x in walk_own(o.node)):
                        cached_lookup.append((n, c, f'{short(o.qualname)} is memoised (lru_cache / cache)'))
        for n, c, why_ in cached_lookup:
            lookup.append((n, c))
            problems.append(('LOOKUP-EXACT', 'method lookup answered from a cache', n.line,
                             f'`{norm(c)[:70]}`: {why_}: a name that was looked up once keeps its first answer, so a method registered (or '
                             f'replaced) later is not the one that runs — "method not found" for a registered method, or the old function'))
    if cached_lookup and not bind:
        # the cache object hides the type of what it returns: the bind call is the `.bind(...)` on the variable holding the lookup
        lvars = {t.id for n, c, _ in cached_lookup if isinstance(n.ast, ast.Assign) for t in n.ast.targets if isinstance(t, ast.Name)}
        for n in cfg.stmt_nodes():
            for c in calls_in(n):
                if isinstance(c.func, ast.Attribute) and c.func.attr == 'bind' and dotted(c.func.value) in lvars:
                    bind.append((n, c))
                    if isinstance(n.ast, ast.Assign) and len(n.ast.targets) == 1 and isinstance(n.ast.targets[0], ast.Name):
                        bound_vars.add(n.ast.targets[0].id)
        for n in cfg.stmt_nodes():
            for c in calls_in(n):
                if isinstance(c.func, ast.Name) and c.func.id in bound_vars and (n, c) not in invoke:
                    invoke.append((n, c))
    if len(lookup) < 1 or len(bind) < 1:
        raise AnalysisError(f'{f.qualname}: registry lookup / bind call not found')
    # the method that is bound is the registry's current answer: every value reaching the receiver of bind() is a registry lookup
    from ..flow import Flow as _FlowL
    fl_l = _FlowL(cfg)
    lookup_calls = {id(c) for _, c in lookup}
    for bn, bc in bind:
        recv = bc.func.value if isinstance(bc.func, ast.Attribute) else None
        if recv is None:
            continue
        for al in fl_l.alts(bn, recv):
            v = al.expr
            if isinstance(v, ast.Await):
                v = v.value
            if id(v) in lookup_calls or isinstance(v, ast.Constant):
                continue
            if isinstance(v, ast.Call) or isinstance(v, ast.Subscript):
                problems.append(('LOOKUP-EXACT', f'bound method taken from `{norm(v)[:50]}`', bn.line,
                                 f'the method that is bound can come from `{norm(v)[:80]}` instead of the registry lookup: answers remembered '
                                 f'outside the registry do not follow later registrations under the same name'))
    facts['lookup'] = [norm(c).replace('await ', '') for _, c in lookup]
    facts['bind'] = [norm(c) for _, c in bind]
    facts['invoke_sites'] = len(invoke)
    if len(invoke) == 0:
        problems.append(('ONCE-INVOKE', 'bound method never invoked', f.node.lineno,
                         f'{short(f.qualname)} never invokes the bound method: accepted calls execute nothing'))
        return facts, problems
    inv_nodes = {n.id for n, _ in invoke}
    per_node: Dict[int, int] = {}
    for n, _ in invoke:
        per_node[n.id] = per_node.get(n.id, 0) + 1

    def step(state: int, e: Edge):
        s = state
        if e.src.id in inv_nodes and e.label != 'exc':
            s = min(3, s + per_node[e.src.id])
        elif e.src.id in inv_nodes and e.label == 'exc':
            # the invocation itself raised: it has executed (once)
            s = min(3, s + per_node[e.src.id])
        return [s]
    states = run_typestate(cfg, 0, step)
    at_exit = states[cfg.exit.id]
    at_raise = states[cfg.raise_exit.id]
    facts['invocations_on_return'] = sorted(at_exit)
    facts['invocations_on_raise'] = sorted(at_raise)
    if at_exit != {1}:
        bad = sorted(at_exit - {1})
        path = witness(cfg, cfg.exit, bad[0]) if bad else []
        problems.append(('ONCE-INVOKE', f'invocations on normal return: {sorted(at_exit)}', f.node.lineno,
                         f'{short(f.qualname)} can return after invoking the method {bad} times (exactly once required); '
                         f'path: {cfg.describe_path(path)}'))
    if any(s > 1 for s in at_raise):
        path = witness(cfg, cfg.raise_exit, max(at_raise))
        problems.append(('ONCE-INVOKE', 'method invoked more than once on a failing path', f.node.lineno,
                         f'{short(f.qualname)} can invoke the method more than once before raising; path: {cfg.describe_path(path)}'))
    # in a loop?
    for n, c in invoke:
        if n.id in cfg.reachable(n) and any(e.dst.id == n.id or n.id in cfg.reachable(e.dst) for e in cfg.succ[n.id]):
            problems.append(('ONCE-INVOKE', 'invocation inside a loop', n.line,
                             f'the method invocation `{norm(c)}` sits in a loop'))
        if n.handler is not None:
            problems.append(('ONCE-INVOKE', 'invocation inside an exception handler', n.line,
                             f'the method invocation `{norm(c)}` sits inside an except clause (re-execution after a failure)'))
    # arguments: bind(params, context) are the function's own parameters, unmodified
    pnames = [p.arg for p in f.params[1:]]
    for n, c in bind:
        args = [dotted(a) for a in c.args] + [dotted(kw.value) for kw in c.keywords]
        facts['bind_args'] = ['<p%d>' % pnames.index(a) if a in pnames else str(a) for a in args]
        for a in args:
            if a not in pnames:
                problems.append(('SAME-ARGS', f'bind argument {a}', n.line,
                                 f'`{norm(c)}` binds `{a}`, which is not a parameter of {short(f.qualname)}: the method would not '
                                 f'receive exactly the caller\'s params / the server context'))
        for a in args:
            if a in pnames and any(a in assigned_names(m) for m in cfg.nodes):
                problems.append(('SAME-ARGS', f'parameter {a} reassigned before bind', n.line,
                                 f'`{a}` is reassigned in {short(f.qualname)} before it is bound'))
    # lookup name unmodified
    for n, c in lookup:
        a0 = c.args[0] if c.args else None
        if a0 is None or dotted(a0) not in pnames:
            problems.append(('LOOKUP-EXACT', 'lookup key is not the request method name', n.line,
                             f'`{norm(c)}` does not look up the unmodified method-name parameter'))
    # BIND-BEFORE-RUN: invocation is outside the try that converts ValidationError
    val_handlers = [h for h in cfg.nodes if h.kind == 'handler' and any('ValidationError' in c_ for c_ in h.caught)]
    facts['validation_handlers'] = len(val_handlers)
    for n, c in invoke:
        for fr in n.frames:
            if fr[0] == 'try' and any(h in fr[2] for h in val_handlers):
                problems.append(('BIND-BEFORE-RUN', 'invocation inside the params-validation try', n.line,
                                 'the method is invoked inside the try block whose handler reports -32602: a ValidationError/TypeError '
                                 'raised by the method body would be reported as invalid params'))
    for n, c in bind:
        if not any(fr[0] == 'try' and any(h in fr[2] for h in val_handlers) for fr in n.frames):
            problems.append(('BIND-BEFORE-RUN', 'bind outside the params-validation try', n.line,
                             'binding is not covered by the handler that converts ValidationError to -32602'))
    # a coroutine-returning method is executed only when what the invocation returned is awaited: in an async handler the decision
    # to await must be taken on the RETURNED OBJECT (asyncio.iscoroutine / inspect.isawaitable of the result), not on a property of
    # the registered callable (a wrapped coroutine function, a callable object with async __call__, a partial ...)
    facts['await_decision'] = 'on the returned object'     # (the synchronous half never awaits; same record so that the halves compare equal)
    if f.is_async:
        res_vars = set()
        for n, c in invoke:
            res_vars |= assigned_names(n)
        awaits = [(n, x) for n in cfg.stmt_nodes() for frag in node_exprs(n) for x in walk_no_defs(frag)
                  if isinstance(x, ast.Await) and isinstance(x.value, ast.Name) and x.value.id in res_vars]
        direct = [(n, x) for n, _ in invoke for frag in node_exprs(n) for x in walk_no_defs(frag)
                  if isinstance(x, ast.Await) and isinstance(x.value, ast.Call) and isinstance(x.value.func, ast.Name) and x.value.func.id in bound_vars]
        facts['await_decision'] = 'none'
        for n, x in direct:
            for g in guard_edges(cfg, n):
                c_ = g.src.ast
                if isinstance(c_, ast.Call) and ('coroutine' in (dotted(c_.func) or '') or 'awaitable' in (dotted(c_.func) or '')):
                    facts['await_decision'] = norm(c_)
                    problems.append(('ONCE-INVOKE', 'await decided by a property of the callable, not by the returned object', n.line,
                                     f'`{norm(x)}` runs only when `{norm(c_)}`: a method that returns a coroutine without being a coroutine function '
                                     f'(an async def behind a plain decorator, an object with async __call__) takes the other branch and is never '
                                     f'awaited — its body does not run, a notification is silently dropped and a call gets a coroutine object as result'))
        if direct and facts['await_decision'] == 'none':
            facts['await_decision'] = 'always'
        for n, x in awaits:
            from ..flow import Flow
            decided = []
            gs = [(g.src.ast, g.label == 'T') for g in guard_edges(cfg, n)]
            # an await inside a conditional expression carries its test
            for frag in node_exprs(n):
                for y in walk_no_defs(frag):
                    if isinstance(y, ast.IfExp) and any(z is x for z in ast.walk(y.body)):
                        gs.append((y.test, True))
                    elif isinstance(y, ast.IfExp) and any(z is x for z in ast.walk(y.orelse)):
                        gs.append((y.test, False))
            ok_dec = False
            for c_, pol_ in gs:
                if isinstance(c_, ast.Call) and dotted(c_.func) in ('asyncio.iscoroutine', 'inspect.isawaitable', 'inspect.iscoroutine', 'asyncio.isfuture') \
                        and c_.args and dotted(c_.args[0]) in res_vars and pol_:
                    ok_dec = True
                elif isinstance(c_, ast.Call) and 'coroutine' in (dotted(c_.func) or '') or isinstance(c_, ast.Call) and 'awaitable' in (dotted(c_.func) or ''):
                    decided.append(norm(c_))
            # conditions that stand between the invocation and the await (whatever they test): if none of them looks at the returned
            # object, something else decides whether the coroutine runs
            inv_guards = {id(g.src) for m_, _ in invoke for g in guard_edges(cfg, m_)}
            between = [norm(g.src.ast) for g in guard_edges(cfg, n) if id(g.src) not in inv_guards]
            if not ok_dec and not decided and between:
                decided.append(between[0])
            facts['await_decision'] = 'on the returned object' if ok_dec else (decided[0] if decided else 'unconditional')
            if not ok_dec and decided:
                problems.append(('ONCE-INVOKE', 'await decided by a property of the callable, not by the returned object', n.line,
                                 f'`{norm(x)}` runs only when `{decided[0]}`: a method that returns a coroutine without being a coroutine function '
                                 f'(an async def behind a plain decorator, an object with async __call__) is never awaited — its body does not run, '
                                 f'a notification is silently dropped and a call gets a coroutine object as result'))
    # the invocation (and the await of what it returned) is covered by the catch-all that reports ServerError: a plain function
    # raising inside `bound_method()` must be mapped like a coroutine raising at the await
    exc_handlers = [h for h in cfg.nodes if h.kind == 'handler' and any(c_ in ('Exception', 'BaseException') for c_ in h.caught)]
    covered = True
    for n, c in invoke:
        if not any(fr[0] == 'try' and any(h in fr[2] for h in exc_handlers) for fr in n.frames):
            covered = False
            problems.append(('ERRMAP', 'method invoked outside the catch-all that reports ServerError', n.line,
                             f'`{norm(c)}` is not inside the try block whose `except Exception` handler raises ServerError: an unexpected exception '
                             f'raised by a plain (non-coroutine) method escapes to the outer handler and is reported as -32603 instead of -32000'))
    facts['invoke_covered'] = covered
    # dominance: lookup -> bind -> invoke
    for n, c in invoke:
        if not cfg.dominated_by(n, [b for b, _ in bind]):
            problems.append(('ONCE-INVOKE', 'invocation not dominated by bind', n.line, 'the invocation can run without a preceding bind'))
    return facts, problems


# ----------------------------------------------------------------------------------------------
# dispatch: batch mapping
# ----------------------------------------------------------------------------------------------

def batch_facts(prog: Program, r: DispatcherRoles) -> Tuple[Dict[str, Any], List[Problem]]:
    f = r.dispatch
    ty = types_of(prog)
    sc = FuncScope(f, ty)
    cfg = CFG(f, prog)
    problems: List[Problem] = []
    facts: Dict[str, Any] = {}
    ctx_param = f.params[2].arg if len(f.params) > 2 else None
    # request variable: assigned from the from_json calls
    req_vars: Set[str] = set()
    fj_nodes: List[Node] = []
    for n in cfg.stmt_nodes():
        for c in calls_in(n):
            if isinstance(c.func, ast.Attribute) and c.func.attr == 'from_json':
                fj_nodes.append(n)
                req_vars |= {v for v in assigned_names(n)}
    if not fj_nodes:
        raise AnalysisError(f'{f.qualname}: from_json calls not found')
    slot_calls: List[Tuple[Node, ast.Call, Optional[ast.AST]]] = []
    for n in cfg.stmt_nodes():
        for frag in node_exprs(n):
            comps: List[ast.AST] = [x for x in walk_no_defs(frag) if isinstance(x, (ast.GeneratorExp, ast.ListComp, ast.SetComp, ast.DictComp))]
            for c in [x for x in walk_no_defs(frag) if isinstance(x, ast.Call)]:
                if isinstance(c.func, ast.Attribute) and dotted(c.func) == f'self.{r.slot}':
                    inner = None
                    for comp in comps:
                        elt_nodes = list(ast.walk(comp.elt)) if not isinstance(comp, ast.DictComp) else list(ast.walk(comp.value))
                        if any(y is c for y in elt_nodes):
                            if inner is None or any(z is comp for z in ast.walk(inner)):
                                inner = comp
                    slot_calls.append((n, c, inner))
    # loops over the batch (sequential forms)
    facts['slot_call_sites'] = len(slot_calls)
    batch_calls = []
    single_calls = []
    for n, c, comp in slot_calls:
        first = dotted(c.args[0]) if c.args else None
        second = dotted(c.args[1]) if len(c.args) > 1 else (dotted(kwarg(c, 'context')) if kwarg(c, 'context') is not None else None)
        if second != ctx_param:
            problems.append(('SAME-CHAIN', 'handler called with a different context', n.line,
                             f'`{norm(c)}` does not pass the dispatch context parameter `{ctx_param}` unchanged'))
        loop_iter = None
        loop_target = None
        if comp is not None:
            gens = comp.generators
            if len(gens) != 1 or gens[0].ifs:
                problems.append(('PER-ELEMENT-ONCE', 'element comprehension is filtered or nested', n.line,
                                 f'`{norm(comp)[:90]}` does not run the handler exactly once for every element of the batch'))
            loop_iter, loop_target = gens[0].iter, gens[0].target
        else:
            # statement-level for loop?
            for m in cfg.nodes:
                if m.kind == 'next' and n.id in cfg.reachable(m, edge_ok=lambda e: e.label != 'exhausted') and m.id in cfg.reachable(n):
                    loop_iter, loop_target = m.ast.iter, m.ast.target
        if loop_iter is not None:
            if dotted(loop_iter) not in req_vars:
                problems.append(('PER-ELEMENT-ONCE', 'iteration is not over the batch request', n.line,
                                 f'the per-element handler runs over `{norm(loop_iter)[:60]}`, not directly over the parsed batch'))
            if first is None or first != dotted(loop_target):
                problems.append(('PER-ELEMENT-ONCE', 'handler argument is not the element', n.line,
                                 f'`{norm(c)}` is not applied to the iteration element `{norm(loop_target)}`'))
            batch_calls.append((n, c, comp))
        else:
            if first not in req_vars:
                problems.append(('SAME-CHAIN', 'single-request handler argument is not the parsed request', n.line,
                                 f'`{norm(c)}` is not applied to the parsed request'))
            single_calls.append((n, c))
    facts['batch_call_sites'] = len(batch_calls)
    facts['single_call_sites'] = len(single_calls)
    # the element handlers run when the comprehension that calls them is evaluated: a GENERATOR kept in a local runs them only when (and
    # if) somebody consumes it — on every path to the end of dispatch it must be consumed, whatever the batch is made of
    for n, c, comp in batch_calls:
        if comp is None:
            continue
        outer = comp
        for frag in node_exprs(n):
            for y in walk_no_defs(frag):
                if isinstance(y, (ast.GeneratorExp, ast.ListComp, ast.SetComp, ast.DictComp)) and y is not outer and any(z is outer for z in ast.walk(y)):
                    outer = y
        a = n.ast
        if not isinstance(outer, ast.GeneratorExp) or not isinstance(a, (ast.Assign, ast.AnnAssign)) or getattr(a, 'value', None) is not outer:
            continue
        tg = a.targets[0] if isinstance(a, ast.Assign) else a.target
        if not isinstance(tg, ast.Name):
            continue
        var = tg.id
        consuming = []
        for m in cfg.nodes:
            if m.ast is None or m is n or m.id not in cfg.reachable(n):
                continue
            top = m.ast.iter if m.kind == 'iter' and hasattr(m.ast, 'iter') else m.ast.test if m.kind == 'cond' and hasattr(m.ast, 'test') else m.ast
            if isinstance(top, (ast.FunctionDef, ast.AsyncFunctionDef, ast.ClassDef)):
                continue

            def uncond(e: ast.AST, live: bool) -> bool:
                if isinstance(e, ast.Name) and e.id == var and isinstance(e.ctx, ast.Load):
                    return live
                if isinstance(e, ast.IfExp):
                    return uncond(e.test, live) or uncond(e.body, False) and False or uncond(e.orelse, False) and False
                if isinstance(e, ast.BoolOp):
                    return any(uncond(v_, live and i_ == 0) for i_, v_ in enumerate(e.values))
                if isinstance(e, (ast.Lambda, ast.FunctionDef, ast.AsyncFunctionDef)):
                    return False
                return any(uncond(ch, live) for ch in ast.iter_child_nodes(e))
            # a use that iterates it: *v, list(v) / tuple(v) / sorted(v) / …, `for x in v`, a comprehension over v
            iterating = False
            for y in ast.walk(top):
                if isinstance(y, ast.Starred) and isinstance(y.value, ast.Name) and y.value.id == var:
                    iterating = True
                elif isinstance(y, ast.Call) and dotted(y.func) in ('list', 'tuple', 'sorted', 'set', 'frozenset', 'sum', 'any', 'all', 'max', 'min', 'dict') \
                        and y.args and isinstance(y.args[0], ast.Name) and y.args[0].id == var:
                    iterating = True
                elif isinstance(y, ast.comprehension) and isinstance(y.iter, ast.Name) and y.iter.id == var:
                    iterating = True
            if m.kind == 'iter' and isinstance(top, ast.Name) and top.id == var:
                iterating = True
            if iterating and uncond(top, True):
                consuming.append(m)
        if cfg.exit.id in cfg.reachable(n, avoid_nodes=consuming, edge_ok=lambda e: e.label != 'exc'):
            problems.append(('PER-ELEMENT-ONCE', 'element handlers run lazily and are not always consumed', n.line,
                             f'`{norm(a)[:100]}` keeps the element handlers in a generator: they run only when `{var}` is iterated, and dispatch can '
                             f'finish without iterating it (a conditional expression / branch that does not touch `{var}`): for such a batch — one '
                             f'made only of notifications — no method runs at all'))
    # handler calls hidden in closures defined inside dispatch: results collected by side effect follow completion order
    for g in f.nested.values():
        for x in walk_own(g.node):
            if isinstance(x, ast.Call) and dotted(x.func) == f'self.{r.slot}':
                collects = [y for y in walk_own(g.node) if isinstance(y, ast.Call) and isinstance(y.func, ast.Attribute)
                            and y.func.attr in ('append', 'add', 'insert', 'appendleft', 'put_nowait', 'put')]
                if collects:
                    problems.append(('ORDER-MAP', 'element results collected by side effect from concurrently running closures', x.lineno,
                                     f'`{norm(collects[0])[:70]}` inside the closure `{g.name}` stores each element\'s response when that element '
                                     f'FINISHES: when the closures run concurrently the response array follows completion order, not request order'))
                else:
                    problems.append(('PER-ELEMENT-ONCE', 'element handler wrapped in a closure', x.lineno,
                                     f'the per-element handler is called from the nested function `{g.name}`; the batch mapping cannot be followed'))
    for x in walk_own(f.node):
        if isinstance(x, ast.Call) and dotted(x.func) in (f'self.{r.handle_request.name}', f'self.{r.handle_rpc_request.name}',
                                                         f'self.{r.handle_rpc_method.name}'):
            problems.append(('SAME-CHAIN', 'dispatch calls the handler directly, bypassing the middleware chain', x.lineno,
                             f'`{norm(x)[:80]}` bypasses self.{r.slot}: the request would not pass through the configured middlewares'))
    if problems and (not batch_calls or not single_calls):
        return facts, problems
    if not batch_calls or not single_calls:
        raise AnalysisError(f'{f.qualname}: expected a per-element call site and a single-request call site of self.{r.slot}')
    # ORDER-MAP: nothing order-destroying between the element calls and the batch response
    batch_nodes = {n.id for n, _, _ in batch_calls}
    joins = []
    for n in cfg.stmt_nodes():
        region = n.id in batch_nodes or any(n.id in cfg.reachable(cfg.nodes[b]) for b in batch_nodes)
        if not region:
            continue
        if any(n.id in cfg.reachable(cfg.nodes[b]) for b in batch_nodes) and n.id not in batch_nodes:
            # only statements up to the batch response construction matter
            pass
        for frag in node_exprs(n):
            for x in walk_no_defs(frag):
                if isinstance(x, ast.SetComp) or (isinstance(x, ast.DictComp) and n.id in batch_nodes):
                    problems.append(('ORDER-MAP', 'set/dict comprehension over element results', n.line,
                                     f'`{norm(x)[:80]}` does not preserve request order'))
                if isinstance(x, ast.Call):
                    for k, o in ty.callees(x, sc):
                        if k == 'ext' and str(o) in ORDER_DESTROYING and _mentions_results(x, batch_calls, cfg, n):
                            problems.append(('ORDER-MAP', f'{o} applied to element results', n.line,
                                             f'`{norm(x)[:90]}`: {o} does not keep the responses in request order'))
                        if k == 'ext' and str(o) in CONCURRENT_JOIN and n.id in batch_nodes:
                            joins.append(str(o))
                if isinstance(x, ast.Subscript) and isinstance(x.slice, ast.Slice) and x.slice.step is not None and \
                        _mentions_results(x, batch_calls, cfg, n):
                    problems.append(('ORDER-MAP', 'stepped slice over element results', n.line, f'`{norm(x)[:80]}` reorders the responses'))
    for j in joins:
        if j not in ('asyncio.gather',):
            problems.append(('ORDER-MAP', f'{j} joins the element handlers', f.node.lineno,
                             f'{j} does not return results in argument order; asyncio.gather does'))
    facts['joins'] = sorted(set(joins))
    # FILTER-UNSET: the filter applied to element results drops exactly UNSET.  The element results are followed from the
    # batch-response constructor's *argument back to the handler calls through every list-building stage (comprehension or
    # append-loop alike); the conditions under which a stage keeps an element are its filters.
    from ..flow import Flow
    fl = Flow(cfg)
    filt = []
    stages = _result_pipeline(prog, f, cfg, fl, r, sc, ty)
    if stages is not None:
        for sq in stages:
            subj_ok = {dotted(sq.target)} if sq.target is not None else set()
            for al in sq.elt:
                subj_ok |= set(al.names)
                d_ = dotted(al.expr)
                if d_:
                    subj_ok.add(d_)
            for cond, pol in sq.filters:
                ckd = classify_cond(prog, f, cond)
                line = getattr(cond, 'lineno', f.node.lineno)
                if ckd.subject is None or ckd.subject not in subj_ok:
                    if isinstance(cond, ast.Constant):
                        problems.append(('FILTER-UNSET', 'several conditional appends of element results', line,
                                         'element responses are collected under several different conditions'))
                    continue
                if ckd.kind == 'is-unset' and ckd.negated == pol:
                    filt.append('drops-unset')
                elif ckd.kind == 'truthy' and (not ckd.negated) == pol:
                    it = Interp(prog)
                    if it.always_truthy(V20 + '.Response') and _unset_is_falsy(prog):
                        filt.append('drops-unset')
                    else:
                        problems.append(('FILTER-UNSET', 'truthiness filter on element results', line,
                                         f'`if {norm(cond)}` drops responses whenever Response can be falsy '
                                         f'(Response defines __bool__/__len__) or keeps UNSET (UnsetType no longer falsy)'))
                else:
                    shown = norm(cond) if pol else f'not ({norm(cond)})'
                    problems.append(('FILTER-UNSET', f'filter `{shown[:50]}` on element results', line,
                                     f'element responses are kept only when `{shown}`; only the UNSET results of notifications may be dropped'))
    else:
        for n in cfg.stmt_nodes():
            if not (n.id in batch_nodes or any(n.id in cfg.reachable(cfg.nodes[b]) for b in batch_nodes)):
                continue
            for frag in node_exprs(n):
                for x in walk_no_defs(frag):
                    if isinstance(x, (ast.GeneratorExp, ast.ListComp)):
                        for gen in x.generators:
                            for cond in gen.ifs:
                                tgt = dotted(gen.target)
                                ckd = classify_cond(prog, f, cond)
                                if ckd.subject != tgt:
                                    continue
                                if ckd.kind == 'is-unset' and ckd.negated:
                                    filt.append('drops-unset')
                                elif ckd.kind == 'truthy' and not ckd.negated:
                                    it = Interp(prog)
                                    if it.always_truthy(V20 + '.Response') and _unset_is_falsy(prog):
                                        filt.append('drops-unset')
                                    else:
                                        problems.append(('FILTER-UNSET', 'truthiness filter on element results', n.line,
                                                         f'`if {norm(cond)}` drops responses whenever Response can be falsy '
                                                         f'(Response defines __bool__/__len__) or keeps UNSET (UnsetType no longer falsy)'))
                                else:
                                    problems.append(('FILTER-UNSET', f'filter `{norm(cond)[:50]}` on element results', n.line,
                                                     f'element responses are filtered by `{norm(cond)}`; only the UNSET results of notifications may be dropped'))
        if not filt and not any(p[0] == 'FILTER-UNSET' for p in problems):
            raise AnalysisError(f'{f.qualname}: the element results cannot be followed from the handler calls to the batch response '
                                f'(no recognised list-building form)')
    facts['filter'] = sorted(set(filt))
    if not filt and stages is not None:
        problems.append(('FILTER-UNSET', 'UNSET results are not filtered out', f.node.lineno,
                         'the UNSET results of notifications are not removed before the batch response is built'))
    # REJECT-BEFORE-RUN
    for n, c, comp in batch_calls:
        if n.id in cfg.reachable(cfg.entry, avoid_nodes=fj_nodes):
            problems.append(('REJECT-BEFORE-RUN', 'element handler reachable without parsing', n.line,
                             'a per-element handler call can run before the whole document has been deserialised and checked'))
    size_conds = []
    for cnd in cfg.nodes:
        if cnd.kind != 'cond':
            continue
        ckd = classify_cond(prog, f, cnd.ast)
        if ckd.kind in ('len-cmp', 'other') and isinstance(cnd.ast, ast.Compare) and 'len(' in norm(cnd.ast) and \
                any(v in norm(cnd.ast) for v in req_vars):
            size_conds.append(cnd)
    # every comparison of a length with the batch limit must be made on something known to be a batch: the deserialised
    # BatchRequest, or the decoded document under an isinstance(list/tuple) test — len() of a single request object counts its members
    main_conds = []
    raw_conds = []
    for cnd in size_conds:
        subj = None
        for x in ast.walk(cnd.ast):
            if isinstance(x, ast.Call) and dotted(x.func) == 'len' and x.args:
                subj = dotted(x.args[0])
        gs = guard_edges(cfg, cnd)
        is_batch = False
        for g in gs:
            ckd = classify_cond(prog, f, g.src.ast)
            if ckd.kind == 'isinstance' and ckd.subject == subj and (g.label == 'T') != ckd.negated:
                names = set(ckd.detail.split(','))
                if names <= {'list', 'tuple'} or names == {V20 + '.BatchRequest'}:
                    is_batch = True
        if not is_batch:
            problems.append(('REJECT-BEFORE-RUN', f'size guard on `{subj}` outside a batch test', cnd.line,
                             f'`{norm(cnd.ast)}` compares len({subj}) with the batch limit where {subj} is not known to be a batch (no dominating '
                             f'isinstance test): for a single request object len() counts its members, so a valid single request with more '
                             f'members than the limit is rejected'))
        elif subj in req_vars:
            main_conds.append(cnd)
        else:
            raw_conds.append(cnd)
    # a guard on the decoded document under a list test (before deserialisation) is a batch guard as well
    main_conds = main_conds or raw_conds
    if len(main_conds) > 1:
        # several length comparisons: the batch LIMIT is the one compared with the configured option
        with_limit = [c for c in main_conds if 'max_batch' in norm(c.ast)]
        if len(with_limit) == 1:
            main_conds = with_limit
    raw_subjects = {dotted(x.args[0]) for c in raw_conds for x in ast.walk(c.ast)
                    if isinstance(x, ast.Call) and dotted(x.func) == 'len' and x.args and dotted(x.args[0])}
    facts['size_guard'] = [_norm_size(c.ast, req_vars) for c in (main_conds or size_conds)]
    if not main_conds:
        if any(p_[0] == 'REJECT-BEFORE-RUN' for p_ in problems):
            return facts, problems
        raise AnalysisError(f'{f.qualname}: expected a batch-size comparison on the deserialised batch, found {len(size_conds)} comparisons')
    if len(main_conds) > 1:
        raise AnalysisError(f'{f.qualname}: expected exactly one batch-size comparison on the deserialised batch, found {len(main_conds)}')
    sz = main_conds[0]
    form = _norm_size(sz.ast, req_vars | raw_subjects)
    if form != 'len(<batch>) > <limit>':
        problems.append(('REJECT-BEFORE-RUN', f'size guard `{form}`', sz.line,
                         f'the batch size guard is `{norm(sz.ast)}`; a batch is over the limit iff len(batch) > max_batch_size '
                         f'(a batch exactly at the limit must be served)'))
    t_edge = [e for e in cfg.succ[sz.id] if e.label == 'T']
    f_edge = [e for e in cfg.succ[sz.id] if e.label == 'F']
    for n, c, comp in batch_calls:
        if t_edge and (n.id in cfg.reachable(t_edge[0].dst) or n is t_edge[0].dst):
            problems.append(('REJECT-BEFORE-RUN', 'over-limit batch still executed', n.line,
                             'the per-element handler is reachable on the over-the-limit branch: a rejected batch must execute nothing'))
        # (a guard placed on the decoded document is correlated with the later BatchRequest test only through the value of the
        # document: the path-insensitive bypass test cannot decide that case and is not applied to it)
        if sz not in raw_conds and n.id in cfg.reachable(cfg.entry, avoid_nodes=[sz], avoid_edges=[]) and not _limit_unset_path(cfg, prog, f, sz, n):
            problems.append(('REJECT-BEFORE-RUN', 'element handler bypasses the size guard', n.line,
                             'a per-element handler call is reachable without passing the batch-size guard'))
    for n, c in single_calls:
        pass
    return facts, problems


def _result_pipeline(prog: Program, f: FuncInfo, cfg: CFG, fl, r: DispatcherRoles, sc, ty) -> Optional[list]:
    """List-building stages between the per-element handler calls and the batch-response constructor (sink first).
    None if the chain cannot be followed."""
    from ..model import ClassInfo
    sink = None
    for n in cfg.stmt_nodes():
        for call in calls_in(n):
            stars = [a.value for a in call.args if isinstance(a, ast.Starred)]
            if not stars:
                continue
            tg = ty.callees(call, sc)
            if any(k == 'ctor' and isinstance(o, ClassInfo) and o.qualname == V20 + '.BatchResponse' for k, o in tg):
                sink = (n, stars[0])
    if sink is None:
        return None
    out = []
    seen = 0

    def has_slot_call(e: ast.AST) -> bool:
        return any(isinstance(x, ast.Call) and dotted(x.func) == f'self.{r.slot}' for x in ast.walk(e))

    def go(n: Node, e: ast.expr, depth: int) -> bool:
        """True iff every way `e` is built leads back to the handler calls."""
        if depth > 5:
            return False
        sqs = fl.seq(n, e)
        if not sqs:
            return False
        ok_all = True
        for sq in sqs:
            if sq.kind != 'iter':
                ok_all = False
                continue
            out.append(sq)
            if any(has_slot_call(al.expr) for al in sq.elt):
                continue            # reached the stage that runs the handler
            if not go(sq.node or n, sq.iter, depth + 1):
                ok_all = False
        return ok_all
    if not go(sink[0], sink[1], 0):
        return None
    return out


def _limit_unset_path(cfg: CFG, prog: Program, f: FuncInfo, sz: Node, n: Node) -> bool:
    """Paths that skip the size comparison must do so through the `limit is falsy/None` edge only."""
    skip_edges = []
    for c in cfg.nodes:
        if c.kind == 'cond':
            ckd = classify_cond(prog, f, c.ast)
            if ckd.kind in ('truthy', 'is-none') and ckd.subject and 'max_batch' in ckd.subject:
                for e in cfg.succ[c.id]:
                    if e.label in ('T', 'F'):
                        unset = (e.label == 'F') != ckd.negated if ckd.kind == 'truthy' else (e.label == 'T') != ckd.negated
                        if unset:
                            skip_edges.append(e)
    return n.id not in cfg.reachable_consistent(cfg.entry, avoid_nodes=[sz], avoid_edges=skip_edges)


def _norm_size(e: ast.Compare, req_vars: Set[str]) -> str:
    l, op, rgt = e.left, e.ops[0], e.comparators[0]

    def side(x: ast.expr) -> str:
        s = norm(x)
        if isinstance(x, ast.Call) and dotted(x.func) == 'len' and x.args and dotted(x.args[0]) in req_vars:
            return 'len(<batch>)'
        if 'max_batch' in s or 'limit' in s:
            return '<limit>'
        return s
    ops = {ast.Gt: '>', ast.GtE: '>=', ast.Lt: '<', ast.LtE: '<=', ast.Eq: '==', ast.NotEq: '!='}
    a, o, b = side(l), ops.get(type(op), '?'), side(rgt)
    if a == '<limit>' and b == 'len(<batch>)':
        flip = {'<': '>', '<=': '>=', '>': '<', '>=': '<=', '==': '==', '!=': '!='}
        a, o, b = b, flip[o], a
    return f'{a} {o} {b}'


def _mentions_results(x: ast.AST, batch_calls, cfg: CFG, n: Node) -> bool:
    """Does expression x consume the element results (contains the element call, or names a variable assigned from it)?"""
    vars_: Set[str] = set()
    frontier = [bn for bn, _, _ in batch_calls]
    for bn in frontier:
        vars_ |= assigned_names(bn)
    # one more hop (results -> filtered list)
    for m in cfg.nodes:
        if any(v in {y.id for y in ast.walk(m.ast) if isinstance(y, ast.Name)} for v in vars_ if m.ast is not None) and m.kind == 'stmt':
            vars_ |= assigned_names(m)
    for y in ast.walk(x):
        if any(y is c for _, c, _ in batch_calls):
            return True
        if isinstance(y, ast.Name) and y.id in vars_:
            return True
    return False


def _unset_is_falsy(prog: Program) -> bool:
    ci = prog.classes.get('pjrpc.common.common.UnsetType')
    if ci is None:
        return False
    b = ci.methods.get('__bool__')
    if b is None:
        return False
    rets = [st for st in walk_own(b.node) if isinstance(st, ast.Return)]
    return bool(rets) and all(isinstance(st.value, ast.Constant) and st.value.value is False for st in rets)


# ----------------------------------------------------------------------------------------------
# error mapping
# ----------------------------------------------------------------------------------------------

def _error_ctors(prog: Program, f: FuncInfo, nodes: List[Node]) -> List[Tuple[Node, ast.Call, str]]:
    ty = types_of(prog)
    sc = FuncScope(f, ty)
    out = []
    base = prog.classes.get(EXC + '.JsonRpcError')
    for n in nodes:
        for c in calls_in(n):
            for k, o in ty.callees(c, sc):
                if k == 'ctor' and isinstance(o, ClassInfo) and base is not None and base in [x for x in prog.mro(o) if isinstance(x, ClassInfo)]:
                    out.append((n, c, o.qualname))
    return out


def handler_body_nodes(cfg: CFG, h: Node) -> List[Node]:
    return [n for n in cfg.nodes if n.handler is h]


def errmap_facts(prog: Program, interp: Interp, r: DispatcherRoles) -> Tuple[Dict[str, Any], List[Problem]]:
    problems: List[Problem] = []
    facts: Dict[str, Any] = {}
    P, IR, MNF, IP, IE, SE = (EXC + '.' + x for x in ('ParseError', 'InvalidRequestError', 'MethodNotFoundError',
                                                     'InvalidParamsError', 'InternalError', 'ServerError'))
    JRE = EXC + '.JsonRpcError'
    # ---- dispatch: document-level rejections --------------------------------------------------
    f = r.dispatch
    res = interp.analyze(f, {EMPTY_ENV}, recv=r.cls.qualname)
    cfg = res.cfg
    rows = []
    for h in [n for n in cfg.nodes if n.kind == 'handler']:
        body = handler_body_nodes(cfg, h)
        made = _error_ctors(prog, f, body)
        made_all = sorted({q for _, _, q in made})
        hvar = h.ast.name if isinstance(h.ast, ast.ExceptHandler) else None
        from ..flow import Flow as _FlowE
        from ..util import guard_edges as _ge
        fl_e = _FlowE(cfg)

        def holds_for(test: ast.expr, k: str) -> Optional[bool]:
            """`test` (a boolean combination of isinstance(<caught>, C) tests) for an exception of class k; None = not decided"""
            if isinstance(test, ast.UnaryOp) and isinstance(test.op, ast.Not):
                v = holds_for(test.operand, k)
                return None if v is None else not v
            if isinstance(test, ast.BoolOp):
                vs = [holds_for(x, k) for x in test.values]
                if isinstance(test.op, ast.And):
                    return False if any(v is False for v in vs) else True if all(v is True for v in vs) else None
                return True if any(v is True for v in vs) else False if all(v is False for v in vs) else None
            if isinstance(test, ast.Call) and dotted(test.func) == 'isinstance' and len(test.args) == 2 and hvar and dotted(test.args[0]) == hvar:
                tp_e = test.args[1]
                if isinstance(tp_e, ast.Name):
                    # the tuple of classes may be named first (`malformed = (A, B)`)
                    nn_ = cfg.nodes_of(test)
                    al_ = fl_e.alts(nn_[0], tp_e) if nn_ else []
                    if len(al_) == 1 and isinstance(al_[0].expr, (ast.Tuple, ast.Attribute)):
                        tp_e = al_[0].expr
                tps = tp_e.elts if isinstance(tp_e, ast.Tuple) else [tp_e]
                res_ = False
                for t_ in tps:
                    ent = prog.resolve(f.module, t_)
                    q_ = prog.exc_name(ent)
                    if q_ is None:
                        return None
                    if prog.exc_subclass(k, q_):
                        res_ = True
                return res_
            return None

        def made_for(k: str) -> List[str]:
            out_: Set[str] = set()
            # the statements of the handler that run for an exception of class k: every type test on the caught exception is resolved
            avoid_ = []
            for c0 in body:
                if c0.kind == 'cond':
                    t0, neg0 = c0.ast, False
                    while isinstance(t0, ast.UnaryOp) and isinstance(t0.op, ast.Not):
                        t0, neg0 = t0.operand, not neg0
                    v0 = holds_for(t0, k)
                    if v0 is not None:
                        taken0 = v0 != neg0
                        avoid_ += [ed for ed in cfg.succ[c0.id] if ed.label in ('T', 'F') and (ed.label == 'T') != taken0]
            feasible_ = cfg.reachable(h, avoid_edges=avoid_) | {h.id}
            for n_, c_, q_ in made:
                if n_.id not in feasible_:
                    continue
                # the class constructed here, per value of the callee expression, under the conditions that select that value
                alts = fl_e.alts(n_, c_.func) if isinstance(c_.func, ast.Name) else []
                conds_n = [(g.src.ast, g.label == 'T') for g in _ge(cfg, n_) if g.src.handler is h or g.src in body]
                if any(holds_for(t_, k) is (not pol_) for t_, pol_ in conds_n):
                    continue        # this statement is not reached for an exception of class k
                if not alts:
                    out_.add(q_)
                    continue
                for al in alts:
                    ent = prog.resolve(f.module, al.expr)
                    aq = ent.qualname if isinstance(ent, ClassInfo) else None
                    if aq is None:
                        out_.add(q_)
                        continue
                    if any(holds_for(t_, k) is (not pol_) for t_, pol_ in (al.guards or [])):
                        continue
                    out_.add(aq)
            return sorted(out_)
        for cls_in in sorted(h.inflow):
            base = cls_in.rstrip('+')
            made_cls = made_for(base) if hvar else made_all
            if prog.exc_subclass(base, 'json.JSONDecodeError') or base == 'ValueError':
                want = P
            elif prog.exc_subclass(base, EXC + '.DeserializationError') or prog.exc_subclass(base, EXC + '.IdentityError'):
                want = IR
            else:
                want = None
            rows.append(f'{_sn(cls_in)} -> {",".join(_sn(m) for m in made_cls) or "-"}')
            if want is not None and made_cls != [want]:
                problems.append(('ERRMAP', f'{_sn(cls_in)} answered with {",".join(_sn(m) for m in made_cls) or "nothing"}', h.line,
                                 f'{short(f.qualname)}: a {_sn(cls_in)} is answered with {[_sn(m) for m in made_cls]}; JSON-RPC 2.0 requires {_sn(want)}'))
        # id must be null for document-level rejections
        for c in response_ctor_calls(prog, f):
            pass
    for c in response_ctor_calls(prog, f):
        idv = kwarg(c, 'id', 0)
        if not (isinstance(idv, ast.Constant) and idv.value is None):
            problems.append(('ERRMAP', 'document-level rejection with a non-null id', c.lineno,
                             f'`{norm(c)[:80]}`: a document that cannot be parsed / is not a valid request must be answered with id null'))
    # size guard rejection constructs InvalidRequestError
    facts['dispatch_handlers'] = sorted(rows)
    # ---- _handle_rpc_method -------------------------------------------------------------------
    f3 = r.handle_rpc_method
    res3 = interp.analyze(f3, {EMPTY_ENV}, recv=r.cls.qualname)
    cfg3 = res3.cfg
    rows3 = []
    raised = {}
    for nid, rs in res3.node_raises.items():
        n = cfg3.nodes[nid]
        if isinstance(n.ast, ast.Raise):
            for (c, o) in rs:
                raised.setdefault(nid, set()).add(c)
    # lookup miss
    miss_ok = False
    for n in cfg3.stmt_nodes():
        if isinstance(n.ast, ast.Raise) and n.handler is None:
            made = _error_ctors(prog, f3, [n])
            for g in guard_edges(cfg3, n):
                ckd = classify_cond(prog, f3, g.src.ast)
                if ckd.kind == 'is-none' and (g.label == 'T') != ckd.negated:
                    rows3.append(f'lookup-miss -> {",".join(_sn(q) for _, _, q in made)}')
                    if [q for _, _, q in made] == [MNF]:
                        miss_ok = True
                    else:
                        problems.append(('ERRMAP', 'unknown method not answered with MethodNotFoundError', n.line,
                                         f'a registry miss raises {[_sn(q) for _, _, q in made]}; -32601 (MethodNotFoundError) required'))
    if not miss_ok and not any(p[1].startswith('unknown method') for p in problems):
        problems.append(('ERRMAP', 'registry miss is not rejected', f3.node.lineno,
                         f'{short(f3.qualname)}: no `is None` → raise MethodNotFoundError path after the registry lookup'))
    for h in [n for n in cfg3.nodes if n.kind == 'handler']:
        body = handler_body_nodes(cfg3, h)
        made = sorted({q for _, _, q in _error_ctors(prog, f3, body)})
        reraise = any(isinstance(n.ast, ast.Raise) and (n.ast.exc is None or (isinstance(n.ast.exc, ast.Name) and
                      isinstance(h.ast, ast.ExceptHandler) and n.ast.exc.id == h.ast.name)) for n in body)
        caught = sorted(_sn(c) for c in h.caught)
        rows3.append(f'{"|".join(caught)} -> {",".join(_sn(m) for m in made) or ("re-raise" if reraise else "-")}')
        if any('ValidationError' in c for c in h.caught):
            if made != [IP]:
                problems.append(('ERRMAP', 'validation failure not answered with InvalidParamsError', h.line,
                                 f'parameters that do not bind/validate raise {[_sn(m) for m in made]}; -32602 required'))
        elif reraise and not made and not all(prog.exc_subclass(c, JRE) for c in h.caught) and \
                not any(c in ('Exception', 'BaseException') for c in h.caught):
            problems.append(('ERRMAP', f'pass-through clause catches {"|".join(caught)}', h.line,
                             f'{short(f3.qualname)} re-raises {"|".join(caught)} unchanged: only protocol errors (JsonRpcError) may pass verbatim; a '
                             f'wider class lets non-protocol exceptions raised by a method (DeserializationError, IdentityError, other BaseError '
                             f'subclasses) skip the ServerError wrapping, and they are answered as -32603 instead of -32000'))
        elif all(prog.exc_subclass(c, JRE) for c in h.caught):
            only_reraise = reraise and not made and all(
                isinstance(n.ast, ast.Raise) or (isinstance(n.ast, ast.Expr) and _is_logging(n.ast.value)) for n in body if n.kind == 'stmt')
            if not only_reraise:
                problems.append(('VERBATIM', 'protocol error raised by a method is not re-raised unchanged', h.line,
                                 f'{short(f3.qualname)}: the JsonRpcError handler must re-raise the same object (bare `raise`); '
                                 f'found {[norm(n.ast)[:50] for n in body if n.kind == "stmt"]}'))
        elif any(c in ('Exception', 'BaseException') for c in h.caught):
            if made != [SE]:
                problems.append(('ERRMAP', 'unexpected exception in a method not answered with ServerError', h.line,
                                 f'an arbitrary exception raised by a method is reported as {[_sn(m) for m in made]}; -32000 (ServerError) required'))
            problems += _noleak(prog, f3, cfg3, h, body)
            problems += _eager_format(f3, h, body, 'ServerError (-32000)')
    facts['rpc_method_handlers'] = sorted(rows3)
    # ---- _handle_request ----------------------------------------------------------------------
    f1 = r.handle_request
    res1 = interp.analyze(f1, {EMPTY_ENV}, recv=r.cls.qualname)
    cfg1 = res1.cfg
    rows1 = []
    for h in [n for n in cfg1.nodes if n.kind == 'handler']:
        body = handler_body_nodes(cfg1, h)
        made = sorted({q for _, _, q in _error_ctors(prog, f1, body)})
        caught = sorted(_sn(c) for c in h.caught)
        hname = h.ast.name if isinstance(h.ast, ast.ExceptHandler) else None
        keeps = any(isinstance(n.ast, ast.Assign) and isinstance(n.ast.value, ast.Name) and n.ast.value.id == hname for n in body)
        rows1.append(f'{"|".join(caught)} -> {",".join(_sn(m) for m in made) or ("keep" if keeps else "-")}')
        if all(prog.exc_subclass(c, JRE) for c in h.caught):
            if made or not keeps:
                problems.append(('VERBATIM', 'protocol error not passed on unchanged', h.line,
                                 f'{short(f1.qualname)}: the JsonRpcError handler must keep the raised error object; it builds '
                                 f'{[_sn(m) for m in made]}'))
        elif any(c in ('Exception', 'BaseException') for c in h.caught):
            if made != [IE]:
                problems.append(('ERRMAP', 'unexpected exception in the chain not answered with InternalError', h.line,
                                 f'an arbitrary exception in the handler chain is reported as {[_sn(m) for m in made]}; -32603 required'))
            problems += _noleak(prog, f1, cfg1, h, body)
            problems += _eager_format(f1, h, body, 'InternalError (-32603)')
    facts['handle_request_handlers'] = sorted(rows1)
    return facts, problems


def _is_logging(e: ast.AST) -> bool:
    return isinstance(e, ast.Call) and (dotted(e.func) or '').split('.')[0] in ('logger', 'logging', 'log')


def _sn(q: str) -> str:
    return q.rsplit('.', 1)[-1]


def _eager_format(f: FuncInfo, h: Node, body: List[Node], want: str) -> List[Problem]:
    """Inside a catch-all handler the caught object is arbitrary user code: formatting it eagerly (f-string, str(), repr(), %,
    .format) runs its __str__/__repr__, which may raise — the failure then leaves the handler as a different exception and is
    mapped to a different error.  Lazy logging arguments (`logger.x("%r", e)`) are formatted inside logging, which swallows
    such errors."""
    out: List[Problem] = []
    hname = h.ast.name if isinstance(h.ast, ast.ExceptHandler) else None
    if not hname:
        return out

    def mentions(e: ast.AST) -> bool:
        return any(isinstance(x, ast.Name) and x.id == hname for x in ast.walk(e))
    for n in body:
        for frag in node_exprs(n):
            for x in walk_no_defs(frag):
                bad = None
                if isinstance(x, ast.JoinedStr) and any(isinstance(v, ast.FormattedValue) and mentions(v.value) for v in x.values):
                    bad = 'an f-string'
                elif isinstance(x, ast.Call) and dotted(x.func) in ('str', 'repr', 'format', 'ascii') and x.args and mentions(x.args[0]):
                    bad = f'{dotted(x.func)}()'
                elif isinstance(x, ast.BinOp) and isinstance(x.op, ast.Mod) and isinstance(x.left, (ast.Constant, ast.JoinedStr)) and mentions(x.right):
                    bad = 'the % operator'
                elif isinstance(x, ast.Call) and isinstance(x.func, ast.Attribute) and x.func.attr == 'format' and \
                        isinstance(x.func.value, ast.Constant) and any(mentions(a) for a in list(x.args) + [k.value for k in x.keywords]):
                    bad = 'str.format'
                if bad:
                    out.append(('ERRMAP', f'caught exception formatted eagerly before it is mapped to {want}', n.line,
                                f'`{norm(x)[:80]}` formats the caught exception `{hname}` with {bad} inside the catch-all handler of '
                                f'{short(f.qualname)}: an exception whose __str__/__repr__ raises escapes the handler as a different '
                                f'exception, so the method\'s failure is not reported as {want} (pass it as a lazy logging argument instead)'))
    return out


def _noleak(prog: Program, f: FuncInfo, cfg: CFG, h: Node, body: List[Node]) -> List[Problem]:
    out: List[Problem] = []
    hname = h.ast.name if isinstance(h.ast, ast.ExceptHandler) else None
    tainted = {hname} if hname else set()
    # locals derived from the exception inside the handler
    for n in body:
        if isinstance(n.ast, ast.Assign) and any(isinstance(x, ast.Name) and x.id in tainted for x in ast.walk(n.ast.value)):
            tainted |= assigned_names(n)
        for c in calls_in(n):
            d = dotted(c.func) or ''
            if d.startswith('traceback.') or d.endswith('exc_info') or d.endswith('format_exc'):
                if isinstance(n.ast, ast.Assign):
                    tainted |= assigned_names(n)
    for n, c, q in _error_ctors(prog, f, body):
        for a in list(c.args) + [kw.value for kw in c.keywords]:
            for x in ast.walk(a):
                if (isinstance(x, ast.Name) and x.id in tainted) or \
                        (isinstance(x, ast.Call) and (dotted(x.func) or '').startswith('traceback.')):
                    out.append(('NOLEAK-EXC', f'exception detail passed to {_sn(q)}', n.line,
                                f'`{norm(c)[:80]}` puts information about the caught exception into the error sent to the client; '
                                f'nothing about an unexpected exception may appear in the response'))
    return out


# ----------------------------------------------------------------------------------------------
# middlewares and error handlers (C12)
# ----------------------------------------------------------------------------------------------

def mw_fold_facts(prog: Program, r: DispatcherRoles) -> Tuple[Dict[str, Any], List[Problem]]:
    f = r.init
    prov = Prov(prog)
    problems: List[Problem] = []
    facts: Dict[str, Any] = {}
    cfg = CFG(f, prog)
    slot = f'self.{r.slot}'

    def assigns(name: str):
        out_ = []
        for n in cfg.stmt_nodes():
            a = n.ast
            if n.kind != 'stmt':
                continue
            if isinstance(a, ast.Assign) and len(a.targets) == 1 and dotted(a.targets[0]) == name:
                out_.append((n, a.value))
            elif isinstance(a, ast.AnnAssign) and a.value is not None and dotted(a.target) == name:
                out_.append((n, a.value))
        return out_

    def loop_of(n: Node):
        lp = [m for m in cfg.nodes if m.kind == 'next' and n.id in cfg.reachable(m, edge_ok=lambda e: e.label != 'exhausted')
              and m.id in cfg.reachable(n)]
        return lp[0] if lp else None
    # the chain is accumulated either in the slot itself or in a local that is stored into the slot once, after the loop
    acc = slot
    slot_assigns = assigns(slot)
    if len(slot_assigns) == 1 and isinstance(slot_assigns[0][1], ast.Name) and loop_of(slot_assigns[0][0]) is None:
        local = slot_assigns[0][1].id
        las = assigns(local)
        if any(loop_of(n) is not None for n, _ in las) and all(slot_assigns[0][0].id in cfg.reachable(n) for n, _ in las):
            acc = local
    init_assign = None
    loops = []
    for n, v_ in assigns(acc):
        lp = loop_of(n)
        if lp is not None:
            loops.append((lp, n))
        else:
            init_assign = n
    if init_assign is None:
        raise AnalysisError(f'{f.qualname}: initial assignment of {slot} not found')
    base = dotted(init_assign.ast.value)
    facts['base'] = 'own per-element handler' if base == f'self.{r.handle_request.name}' else str(base)
    if base != f'self.{r.handle_request.name}':
        problems.append(('MW-FOLD', 'chain does not start from the own per-element handler', init_assign.line,
                         f'{slot} is initialised with `{base}`, not with the dispatcher\'s own per-element handler'))
    if len(loops) != 1:
        # functools.reduce form?
        raise AnalysisError(f'{f.qualname}: expected one fold loop assigning {slot} (recognised form: for m in reversed(middlewares): '
                            f'{slot} = partial(m, handler={slot})), found {len(loops)}')
    head, body = loops[0]
    it = head.ast.iter
    rev = isinstance(it, ast.Call) and dotted(it.func) == 'reversed' and len(it.args) == 1
    src_expr = it.args[0] if rev else it
    # the stored stack must be the configured sequence itself: list(...)/tuple(...) of the constructor argument
    attr = dotted(src_expr)
    if attr and attr.startswith('self.'):
        for c in prog.mro(r.cls):
            if isinstance(c, ClassInfo) and '__init__' in c.methods:
                for st in walk_own(c.methods['__init__'].node):
                    if isinstance(st, ast.Assign) and dotted(st.targets[0]) == attr:
                        v = st.value
                        ok_copy = dotted(v) is not None or (isinstance(v, ast.Call) and dotted(v.func) in ('list', 'tuple') and len(v.args) == 1
                                                            and dotted(v.args[0]) is not None)
                        facts['stack'] = norm(v)
                        # reversed() / [::-1] need a sequence: a constructor argument declared Iterable (a generator, a set, a map
                        # object are all allowed by that) must be materialised by whoever stores it
                        if (rev or isinstance(it, ast.Subscript)) and isinstance(v, ast.Name):
                            init_f = c.methods['__init__']
                            ann = init_f.param_ann(v.id)
                            if isinstance(ann, ast.Constant) and isinstance(ann.value, str):
                                try:
                                    ann = ast.parse(ann.value, mode='eval').body
                                except SyntaxError:
                                    ann = None
                            head_ = (dotted(ann.value if isinstance(ann, ast.Subscript) else ann) or '').rsplit('.', 1)[-1] if ann is not None else ''
                            if v.id in {p_.arg for p_ in init_f.params} and head_ in ('Iterable', 'Iterator', 'Collection', 'Generator', 'AbstractSet', 'Set', 'FrozenSet', ''):
                                problems.append(('MW-FOLD', 'middleware stack stored as given, then reversed', st.lineno,
                                                 f'`{norm(st)}` keeps the `{v.id}` argument as given — it is declared `{norm(ann) if ann is not None else "untyped"}`, so a '
                                                 f'generator, an iterator or a set is a legal value — and the chain is built over `{norm(it)}`, which '
                                                 f'needs a sequence: TypeError at construction for such a value, and no middleware ever runs; '
                                                 f'the stack must be materialised (`list({v.id})`)'))
                        if not ok_copy:
                            problems.append(('MW-FOLD', 'configured middleware stack is altered before the chain is built', st.lineno,
                                             f'`{norm(st)}`: the stack must be the configured sequence as given (same entries, same order, same '
                                             f'multiplicity); `{norm(v)}` can drop, reorder or de-duplicate middlewares, so a request passes through '
                                             f'fewer layers than declared'))
    # the constructor argument is an Iterable: it may be a one-shot iterator, so it can be walked once — by whoever stores it
    leaf = src_expr
    while isinstance(leaf, ast.Call) and dotted(leaf.func) in ('tuple', 'list', 'iter', 'reversed') and len(leaf.args) == 1:
        leaf = leaf.args[0]
    if isinstance(leaf, ast.Name) and leaf.id in {p.arg for p in f.params}:
        others = [x for x in walk_own(f.node) if isinstance(x, ast.Name) and x.id == leaf.id and isinstance(x.ctx, ast.Load) and x is not leaf]
        if others:
            problems.append(('MW-FOLD', 'constructor argument iterated a second time', head.line,
                             f'the chain is folded over `{norm(it)}`, i.e. the `{leaf.id}` argument itself, which was already handed on at line '
                             f'{others[0].lineno} (stored as a list there): for a one-shot iterable (generator, map, filter) the second walk is '
                             f'empty and no middleware runs although they are configured'))
    org = prov.origins(src_expr, f)
    from_mw = any(o[0] == 'param' and o[3] == 'middlewares' for o in org) or \
        any(o[0] == 'param' and 'middleware' in o[3] for o in org)
    facts['iter'] = ('reversed(' if rev else '(') + ('middlewares' if from_mw else norm(src_expr)) + ')'
    if not from_mw:
        problems.append(('MW-FOLD', 'fold does not iterate the configured middlewares', head.line,
                         f'the chain is folded over `{norm(it)}`, which is not the `middlewares` constructor argument'))
    # order: reversed iteration + wrapping the previous chain ⇒ first-declared outermost
    slicing_rev = isinstance(it, ast.Subscript) and isinstance(it.slice, ast.Slice) and it.slice.step is not None and norm(it.slice.step) == '-1'
    if not rev and not slicing_rev:
        problems.append(('MW-FOLD', 'middlewares folded in declaration order', head.line,
                         f'the chain is built by wrapping over `{norm(it)}` in declaration order: the LAST middleware becomes the '
                         f'outermost one; the first-declared middleware must be outermost (iterate in reverse)'))
    v = body.ast.value
    target = dotted(head.ast.target)
    ok_partial = isinstance(v, ast.Call) and dotted(v.func) in ('ft.partial', 'functools.partial', 'partial') and v.args and \
        dotted(v.args[0]) == target
    hk = kwarg(v, 'handler') if isinstance(v, ast.Call) else None
    facts['wrap'] = 'partial(<mw>, handler=<chain>)' if ok_partial and hk is not None and dotted(hk) == acc else norm(v)[:80]
    if not ok_partial:
        problems.append(('MW-FOLD', 'fold step is not partial(middleware, …)', body.line,
                         f'`{norm(body.ast)}` does not wrap the iteration element `{target}` as the new outer layer'))
    elif hk is None or dotted(hk) != acc:
        problems.append(('MW-FOLD', 'middleware does not receive the rest of the chain', body.line,
                         f'`{norm(body.ast)}`: the `handler` handed to the middleware must be the chain built so far ({slot})'))
    if ok_partial and (len(v.args) > 1 or any(kw.arg not in ('handler',) for kw in v.keywords)):
        problems.append(('MW-FOLD', 'extra arguments pre-bound to the middleware', body.line,
                         f'`{norm(v)}` pre-binds more than the handler: the middleware would not receive (request, context) as passed'))
    return facts, problems


def eh_fold_facts(prog: Program, interp: Interp, r: DispatcherRoles) -> Tuple[Dict[str, Any], List[Problem]]:
    f = r.handle_request
    prov = Prov(prog)
    problems: List[Problem] = []
    facts: Dict[str, Any] = {}
    res = interp.analyze(f, {EMPTY_ENV}, recv=r.cls.qualname)
    cfg = res.cfg
    ty = types_of(prog)
    sc = FuncScope(f, ty)
    loops = []
    for n in cfg.nodes:
        if n.kind == 'next':
            org = prov.origins(n.ast.iter, f)
            if any(o[0] == 'param' and 'error_handler' in o[3] for o in org):
                loops.append(n)
    facts['handler_loops'] = 1 if loops else 0
    if not loops:
        problems.append(('EH-FOLD', 'error handlers are never run', f.node.lineno,
                         f'{short(f.qualname)} does not iterate the configured error handlers'))
        return facts, problems
    from ..flow import Flow
    fl_ = Flow(cfg)
    # several consecutive loops (generic handlers, then per-code handlers) are one fold as long as they run in sequence
    loops.sort(key=lambda h_: (0 if all(h_.id in cfg.reachable(o) or o is h_ for o in loops if o is not h_) else 1, h_.line))
    loops.sort(key=lambda h_: sum(1 for o in loops if o is not h_ and h_.id in cfg.reachable(o) and o.id not in cfg.reachable(h_)))
    err_var: Optional[str] = None
    order: List[str] = []
    all_call_nodes: List[Node] = []
    lookups: List[Tuple[Node, ast.expr]] = []        # (node at which the lookup expression is evaluated, lookup expression)

    def _resolved(at: Node, a: ast.expr) -> Tuple[Node, ast.expr]:
        # a local holding the lookup (`common = handlers.get(None, [])`) stands for the lookup, evaluated where it is assigned
        if isinstance(a, ast.Name):
            al = fl_.alts(at, a)
            if len(al) == 1 and al[0].node is not None:
                return al[0].node, al[0].expr
        return at, a
    for head in loops:
        it = head.ast.iter
        body_nodes = [n for n in cfg.stmt_nodes() if n.id in cfg.reachable(head, edge_ok=lambda e: e.label != 'exhausted')
                      and head.id in cfg.reachable(n)]
        calls = []
        for n in body_nodes:
            for c in calls_in(n):
                if isinstance(c.func, ast.Name) and c.func.id == dotted(head.ast.target):
                    calls.append((n, c))
        if len(calls) != 1:
            problems.append(('EH-FOLD', f'{len(calls)} handler calls per iteration', head.line,
                             f'each error handler must be called exactly once per failing request; the loop body calls it {len(calls)} times'))
            return facts, problems
        n, c = calls[0]
        all_call_nodes.append(n)
        args = [dotted(a) for a in c.args]
        ev = args[2] if len(args) > 2 else None
        facts['call_args'] = ['<request>' if a == f.params[1].arg else '<context>' if a == f.params[2].arg else '<error>' if a == ev else str(a)
                              for a in args]
        if len(args) != 3 or args[0] != f.params[1].arg or args[1] != f.params[2].arg or ev is None:
            problems.append(('EH-FOLD', 'handler not called with (request, context, error)', n.line,
                             f'`{norm(c)}` does not pass the request, the context and the current error'))
            return facts, problems
        if err_var is not None and ev != err_var:
            problems.append(('EH-FOLD', 'handler loops thread different error variables', n.line,
                             f'`{norm(c)}` passes `{ev}` while the earlier loop threads `{err_var}`'))
            return facts, problems
        err_var = ev
        if err_var not in assigned_names(n):
            problems.append(('EH-FOLD', 'handler result is dropped', n.line,
                             f'`{norm(n.ast)[:80]}`: the error returned by a handler must replace `{err_var}` so that the next handler and '
                             f'the response receive it'))
        it_n = [m for m in cfg.nodes if m.kind == 'iter' and m.ast is it]
        at0 = it_n[0] if it_n else head
        at, it_r = _resolved(at0, it)
        if isinstance(it_r, ast.Call) and dotted(it_r.func) in ('it.chain', 'itertools.chain', 'chain'):
            for a in it_r.args:
                at_a, a_r = _resolved(at, a)
                order.append(_eh_key(a_r, err_var))
                lookups.append((at_a, a_r))
        else:
            order.append(_eh_key(it_r, err_var))
            lookups.append((at, it_r))
    head = loops[0]
    facts['order'] = order
    if order != ['generic', 'per-code']:
        problems.append(('EH-FOLD', f'handler order {order}', head.line,
                         f'error handlers must run generic first, then those registered for the raised error\'s code, in list order; '
                         f'found {order}'))
    # the per-code handlers are those of the RAISED error: the lookup by error.code must happen before any handler replaced the error
    facts['per_code_lookup'] = 'before any handler runs'
    for at, le in lookups:
        if _eh_key(le, err_var) == 'per-code' and any(at.id in cfg.reachable(cn) for cn in all_call_nodes):
            facts['per_code_lookup'] = 'after a handler may have replaced the error'
            problems.append(('EH-FOLD', 'per-code handlers selected by the replaced error\'s code', at.line,
                             f'`{norm(le)[:80]}` is evaluated after a handler may have replaced `{err_var}`: the handlers registered for the RAISED '
                             f'error\'s code are skipped and those of the replacement code run instead'))
    # the folded variable is what is sent
    sent_ok = False
    for rc in response_ctor_calls(prog, f):
        ev = kwarg(rc, 'error')
        if ev is not None and dotted(ev) == err_var:
            rn = None
            for m in cfg.stmt_nodes():
                if any(y is rc for frag in node_exprs(m) for y in ast.walk(frag)):
                    rn = m
            if rn is not None and all(rn.id in cfg.reachable(h_) for h_ in loops):
                sent_ok = True
    facts['sent'] = sent_ok
    if not sent_ok:
        problems.append(('EH-FOLD', 'the error sent is not the last handler result', f.node.lineno,
                         f'the response built after the handler loop does not carry `{err_var}` (the error returned by the last handler)'))
    # EH-REACH: only on failure paths; not skipped for notifications
    handlers = [h for h in cfg.nodes if h.kind == 'handler']
    it_node = [m for m in cfg.nodes if m.kind == 'iter' and m.ast is head.ast.iter]
    start = it_node[0] if it_node else head
    if start.id in cfg.reachable(cfg.entry, avoid_nodes=handlers):
        problems.append(('EH-REACH', 'error handlers reachable on the success path', start.line,
                         'the error-handler loop can be reached without an exception having been caught: handlers must never run '
                         'for successful requests'))
    for h in handlers:
        if start.id not in cfg.reachable(h):
            problems.append(('EH-REACH', f'handlers skipped after except {"|".join(_sn(x) for x in h.caught)}', h.line,
                             f'a failure caught by `except {"|".join(_sn(x) for x in h.caught)}` does not reach the error-handler loop'))
    req = f.params[1].arg
    for g in guard_edges(cfg, start):
        t = is_notif_test(prog, f, g.src.ast, {req})
        if t is not None:
            problems.append(('EH-REACH', 'error handlers skipped for notifications', start.line,
                             'the error-handler loop is guarded by the notification test: failing notifications must be handled too '
                             '(only the reply is suppressed)'))
    facts['reach'] = 'except-only'
    return facts, problems


def _eh_key(a: ast.expr, err_var: Optional[str]) -> str:
    """Classify `handlers.get(None, [])` / `handlers.get(error.code, [])` / subscripts."""
    key = None
    if isinstance(a, ast.Call) and isinstance(a.func, ast.Attribute) and a.func.attr == 'get' and a.args:
        key = a.args[0]
    elif isinstance(a, ast.Subscript):
        key = a.slice
    if key is None:
        return norm(a)[:40]
    if isinstance(key, ast.Constant) and key.value is None:
        return 'generic'
    if err_var and dotted(key) == f'{err_var}.code':
        return 'per-code'
    return f'key:{norm(key)}'


def rejection_facts(prog: Program, r: DispatcherRoles) -> Tuple[Dict[str, Any], List[Problem]]:
    """Document-level rejection branches of dispatch: no error-handler / handler-chain call."""
    f = r.dispatch
    problems: List[Problem] = []
    refs = [x for x in walk_own(f.node) if isinstance(x, ast.Attribute) and 'error_handler' in x.attr]
    if refs:
        problems.append(('EH-REACH', 'dispatch touches the error handlers', refs[0].lineno,
                         'dispatch itself refers to the error handlers: handlers must not run for documents rejected before dispatch'))
    return {'dispatch_refs_error_handlers': len(refs)}, problems
