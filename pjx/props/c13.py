"""C13 — requests are independent: nothing leaks from one dispatch into the next."""
from __future__ import annotations

import ast
from typing import List, Set

from ..effects import MUTATORS, Effects
from ..model import AnalysisError, ClassInfo, FuncInfo, Program, dotted, norm
from ..report import Check
from ..types import walk_own
from ..util import short
from .common import dispatchers


def run(ck: Check, prog: Program) -> None:
    from .common import dispatcher_program
    prog = dispatcher_program(prog)
    # retention findings are keyed by the function that hands the per-request value to the long-lived sink: private helpers
    # extracted from the validators' public methods are inlined into them so that the call site keeps its identity
    from ..inline import inlined_program
    vcallers = [m.qualname for ci in prog.classes.values() if ci.module.name.startswith('pjrpc.server.validators')
                for m in ci.methods.values() if not m.name.startswith('_') or m.name in ('__init__', '__call__')]
    prog = inlined_program(prog, vcallers)
    roles = dispatchers(prog)
    ck.explain('Effect and retention analysis over the whole call tree of dispatch (both dispatchers; resolved callees, '
               'constructors, property getters): (1) no per-request value — the context, the parsed request, params, view '
               'instances, bound methods — reaches a long-lived sink (attribute/container store on an object reachable from the '
               'dispatcher, module or class state, or the argument list of a memoised function, whose arguments become cache '
               'keys); (2) the tree writes no long-lived state at all, hence responses cannot depend on history or on other '
               'threads; (3) mutable default arguments are never mutated; (4) the error-class registry is written only at class '
               'creation.')
    ck.assume('registered methods keep no state of their own (the property\'s proviso); user middlewares are outside the analysed program')
    ck.not_decided.append('actual memory growth (a consequence of retention, not measured)')
    for r in roles:
        eff = Effects(prog, [r.dispatch], [r.cls])
        ck.functions |= set(eff.tree)
        ck.require('SHARED-WRITE', f'functions in the call tree of {short(r.dispatch.qualname)}', len(eff.tree), 25)
        ws = eff.shared_writes()
        ck.ob('SHARED-WRITE', f'{r.cls.name}: the dispatch call tree ({len(eff.tree)} functions) writes no long-lived state', not ws,
              sample={'functions': len(eff.tree), 'long_lived_classes': sorted(x.rsplit(".", 1)[-1] for x in eff.long_lived)})
        for w in ws:
            ck.finding('SHARED-WRITE', w.func.qualname, f'{w.why} on {w.target.split(":")[0]} state: {w.text[:50]}', w.func.module.rel, w.line,
                       f'`{w.text}` writes state that outlives the dispatch ({w.target}): the response to a later or concurrent request '
                       f'can depend on this one')
        rs = eff.retentions()
        ck.ob('RETAIN', f'{r.cls.name}: no per-request value reaches a long-lived sink', not rs,
              sample={'memoised_in_tree': sorted(short(q) for q, f in eff.tree.items() if eff.is_memoised(f))})
        for t in rs:
            sink_kind = 'cache key' if t.sink.startswith('cache key') else 'store'
            import re as _re
            m_ = _re.search(r'per-request because \S+ (\S+) passes', t.value or '')
            via = f' via {m_.group(1)}' if m_ else ''
            ck.finding('RETAIN', t.func.qualname, f'per-request value → {t.sink.replace("pjrpc.server.validators.", "")}{via}', t.func.module.rel, t.line,
                       f'`{t.text}` hands the per-request value `{t.value}` to a long-lived sink ({t.sink}): the library keeps a '
                       f'reference to something created for this request after the dispatch returns (memory grows with the number '
                       f'of requests served)', [f'{t.func.module.rel}:{t.line} {t.text}', t.value])
    _mutable_defaults(ck, prog)
    _registry_writes(ck, prog)


def _mutable_defaults(ck: Check, prog: Program) -> None:
    n = 0
    for f in prog.iter_funcs():
        a = f.node.args
        pos = list(a.posonlyargs) + list(a.args)
        defaults = [None] * (len(pos) - len(a.defaults)) + list(a.defaults)
        pairs = list(zip(pos, defaults)) + list(zip(a.kwonlyargs, a.kw_defaults))
        for p, d in pairs:
            if isinstance(d, (ast.Dict, ast.List, ast.Set)) or (isinstance(d, ast.Call) and dotted(d.func) in ('dict', 'list', 'set')):
                n += 1
                bad: List[str] = []
                aliases = {p.arg}
                attrs: Set[str] = set()
                for st in walk_own(f.node):
                    if isinstance(st, ast.Assign) and isinstance(st.value, ast.Name) and st.value.id == p.arg:
                        for tg in st.targets:
                            if isinstance(tg, ast.Attribute) and dotted(tg.value) == 'self':
                                attrs.add(tg.attr)
                            elif isinstance(tg, ast.Name):
                                aliases.add(tg.id)
                scopes = [f]
                if attrs and f.cls is not None:
                    fam = prog.subclasses(f.cls) + [c for c in prog.mro(f.cls) if isinstance(c, ClassInfo)]
                    scopes = [m for c in fam for m in c.methods.values()]
                for g in scopes:
                    for x in walk_own(g.node):
                        tgt = None
                        if isinstance(x, ast.Call) and isinstance(x.func, ast.Attribute) and x.func.attr in MUTATORS:
                            tgt = dotted(x.func.value)
                        elif isinstance(x, ast.Subscript) and isinstance(x.ctx, (ast.Store, ast.Del)):
                            tgt = dotted(x.value)
                        if tgt is None:
                            continue
                        if (g is f and tgt in aliases) or any(tgt == f'self.{a_}' for a_ in attrs):
                            bad.append(f'{g.module.rel}:{x.lineno} {norm(x)[:60]}')
                ck.ob('MUT-DEFAULT', f'{short(f.qualname)}({p.arg}={norm(d)}): the shared default object is never mutated', not bad)
                for b in bad:
                    ck.finding('MUT-DEFAULT', f.qualname, f'mutable default {p.arg} mutated', f.module.rel, f.node.lineno,
                               f'the mutable default `{p.arg}={norm(d)}` is shared by all calls/instances and is mutated at {b}: state leaks '
                               f'between dispatchers / requests')
    ck.require('MUT-DEFAULT', 'mutable default arguments in the package', n, 3)
    # the same hazard without a parameter: a module- or class-level mutable object handed out as the value of a per-request object
    # (`json_data.get('params', NO_PARAMS)`): every message deserialised without the member shares it, and whoever appends to one
    # request's params changes all later ones
    n_f = 0
    for f in prog.iter_funcs():
        if not f.module.name.startswith('pjrpc.common') or f.name != 'from_json' or not isinstance(f.node, (ast.FunctionDef, ast.AsyncFunctionDef)):
            continue
        for x in walk_own(f.node):
            cands: List[ast.expr] = []
            if isinstance(x, ast.Call) and isinstance(x.func, ast.Attribute) and x.func.attr in ('get', 'pop', 'setdefault') and len(x.args) == 2:
                cands.append(x.args[1])
            elif isinstance(x, ast.BoolOp) and isinstance(x.op, ast.Or):
                cands += list(x.values[1:])
            for d in cands:
                if not isinstance(d, (ast.Name, ast.Attribute)):
                    continue
                n_f += 1
                ent = prog.resolve(f.module, d, f.cls)
                val = None
                if isinstance(d, ast.Name):
                    b = f.module.ns.get(d.id)
                    if b is not None and b.kind == 'assign' and isinstance(b.target, ast.AST):
                        val = b.target
                elif isinstance(d, ast.Attribute) and dotted(d.value) in ('cls', 'self') and f.cls is not None:
                    for c in [c for c in prog.mro(f.cls) if isinstance(c, ClassInfo)]:
                        if d.attr in c.attrs:
                            val = c.attrs[d.attr]
                            break
                if isinstance(val, (ast.List, ast.Dict, ast.Set)) or isinstance(val, ast.Call) and dotted(val.func) in ('list', 'dict', 'set'):
                    ck.finding('MUT-DEFAULT', f.qualname, f'shared mutable fallback `{norm(d)}`', f.module.rel, x.lineno,
                               f'`{norm(x)[:80]}` falls back to `{norm(d)}`, one `{norm(val)}` object bound at {"class" if isinstance(d, ast.Attribute) else "module"} level: '
                               f'every message deserialised without that member carries the SAME object, so an in-place change made while serving '
                               f'one request (a middleware appending to request.params) is seen by every later request, and what was put there stays '
                               f'referenced for the life of the process')
    ck.ob('MUT-DEFAULT', f'{n_f} named fallbacks of the deserialisers are not shared mutable objects',
          not any(f_.rule == 'MUT-DEFAULT' and 'fallback' in f_.construct for f_ in ck.findings), nontrivial=n_f > 0)


def _registry_writes(ck: Check, prog: Program) -> None:
    bad = []
    n = 0
    for f in prog.iter_funcs():
        for x in walk_own(f.node):
            hit = None
            if isinstance(x, ast.Subscript) and isinstance(x.ctx, (ast.Store, ast.Del)) and '__errors_mapping__' in norm(x.value):
                hit = x
            elif isinstance(x, ast.Call) and isinstance(x.func, ast.Attribute) and x.func.attr in MUTATORS and \
                    '__errors_mapping__' in norm(x.func.value):
                hit = x
            elif isinstance(x, ast.Attribute) and isinstance(x.ctx, ast.Store) and x.attr == '__errors_mapping__':
                hit = x
            if hit is not None:
                n += 1
                if not (f.cls is not None and f.cls.name == 'JsonRpcErrorMeta' and f.name == '__new__'):
                    bad.append((f, hit))
    ck.ob('REGISTRY-WRITE', 'the error-class registry is written only by the metaclass at class creation', not bad and n >= 1)
    for f, x in bad:
        ck.finding('REGISTRY-WRITE', f.qualname, 'registry written outside class creation', f.module.rel, x.lineno,
                   f'`{norm(x)[:70]}` modifies the code→class registry at run time: deserialisation of later responses depends on earlier ones')


MUTANTS = [
    dict(name='per-code-handler-chain-cached-in-a-base-class-method', file='pjrpc/server/dispatcher.py',
         find='    @property\n    def registry(self) -> MethodRegistry:\n        return self._registry\n',
         replace='    @property\n    def registry(self) -> MethodRegistry:\n        return self._registry\n\n'
                 '    def _chain_for(self, code: int) -> Any:\n        cache = self.__dict__.setdefault("_chains", {})\n'
                 '        if code not in cache:\n            cache[code] = it.chain(self._error_handlers.get(None, []), self._error_handlers.get(code, []))\n'
                 '        self._last_code = code\n        return cache[code]\n',
         also=[dict(file='pjrpc/server/dispatcher.py', all=True,
                    find='for error_handler in it.chain(self._error_handlers.get(None, []), self._error_handlers.get(error.code, [])):',
                    replace='for error_handler in self._chain_for(error.code):')],
         expect='SHARED-WRITE'),
    dict(name='cache-last-context', file='pjrpc/server/dispatcher.py', nth=0,
         find='        logger.getChild(\'request\').debug("request received: %s", request_text)\n',
         replace='        logger.getChild(\'request\').debug("request received: %s", request_text)\n        self._last_context = context\n',
         expect=['SHARED-WRITE', 'RETAIN']),
    dict(name='module-level-request-log', file='pjrpc/server/dispatcher.py', nth=1,
         find='        method = self._registry.get(method_name)\n', replace='        method = self._registry.get(method_name)\n        _seen.append(params)\n',
         also=[dict(file='pjrpc/server/dispatcher.py', find='default_validator = validators.base.BaseValidator()\n',
                    replace='default_validator = validators.base.BaseValidator()\n_seen: list = []\n')],
         expect=['SHARED-WRITE', 'RETAIN']),
    dict(name='mutate-default-error-handlers', file='pjrpc/server/dispatcher.py', nth=0,
         find='        self._max_batch_size = max_batch_size\n', replace='        self._max_batch_size = max_batch_size\n        self._error_handlers.setdefault(None, [])\n',
         expect='MUT-DEFAULT'),
    dict(name='memoise-bind', file='pjrpc/server/dispatcher.py',
         find='    def bind(self, params: Optional[\'JsonRpcParams\'], context: Optional[Any] = None) -> MethodType:\n        method_args = []',
         replace='    @ft.lru_cache(None)\n    def bind(self, params: Optional[\'JsonRpcParams\'], context: Optional[Any] = None) -> MethodType:\n        method_args = []',
         expect='RETAIN'),
    dict(name='register-error-class-at-runtime', file='pjrpc/common/exceptions.py',
         find='            error_class = cls.get_error_cls(code, cls)\n',
         replace='            error_class = cls.get_error_cls(code, cls)\n            type(cls).__errors_mapping__.setdefault(code, error_class)\n',
         expect='REGISTRY-WRITE'),
    dict(name='method-counts-calls', file='pjrpc/server/dispatcher.py',
         find='        return ft.partial(self.method, *method_args, **method_kwargs)',
         replace='        self.calls = getattr(self, "calls", 0) + 1\n        return ft.partial(self.method, *method_args, **method_kwargs)', expect='SHARED-WRITE'),
    dict(name='view-instance-cached', file='pjrpc/server/dispatcher.py',
         find='        view = self.view_cls(context) if self.context else self.view_cls()\n',
         replace='        view = self.view_cls(context) if self.context else self.view_cls()\n        self._view = view\n',
         expect=['SHARED-WRITE', 'RETAIN']),
    dict(name='logger-per-method-name', file='pjrpc/server/dispatcher.py', nth=0,
         find='logger.info("method execution error %s(%r): %r", request.method, request.params, e)',
         replace='logger.getChild(request.method).info("method execution error (%r): %r", request.params, e)', expect='RETAIN'),
]
