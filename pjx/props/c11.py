"""C11 — the synchronous and asynchronous halves behave identically (twin fact comparison)."""
from __future__ import annotations

import ast
import json
from collections import Counter
from typing import Any, Dict, List, Optional, Tuple

from ..model import AnalysisError, ClassInfo, FuncInfo, Program, dotted, norm
from ..report import Check
from ..types import FuncScope, types_of, walk_own
from ..util import classify_cond, short
from . import c01
from .c07 import send_facts
from .cfacts import (clients, decor_order_facts, retried_facts, retry_loop_facts, retry_loops, send_return_kinds, traced_facts,
                     tracer_interp)
from .common import dispatchers
from .dfacts import batch_facts, eh_fold_facts, errmap_facts, method_call_facts, mw_fold_facts, notif_facts

NAME_MAP = [('AsyncDispatcher', 'Dispatcher'), ('AbstractAsyncClient', 'AbstractClient'), ('AsyncBatch', 'Batch'),
            ('retry_async', 'retry'), ('asyncio.sleep', 'time.sleep')]
ASYNC_ONLY_EXT = {'asyncio.gather', 'asyncio.iscoroutine'}
ASYNC_ONLY_ATTRS = {'_concurrent_batch'}


def nm(s: str) -> str:
    for a, b in NAME_MAP:
        s = s.replace(a, b)
    return s.replace('await ', '')


def bag(prog: Program, f: FuncInfo) -> Dict[str, Counter]:
    ty = types_of(prog)
    sc = FuncScope(f, ty)
    out: Dict[str, Counter] = {k: Counter() for k in ('raises', 'catches', 'error_ctors', 'ctor_consts', 'callees', 'ext', 'self_attrs',
                                                     'conds', 'returns', 'asserts', 'kwnames')}
    for x in walk_own(f.node):
        if isinstance(x, ast.Raise):
            if x.exc is None:
                out['raises']['<re-raise>'] += 1
            else:
                tgt = x.exc.func if isinstance(x.exc, ast.Call) else x.exc
                ent = prog.resolve(f.module, tgt)
                out['raises'][nm(prog.exc_name(ent) or norm(tgt))] += 1
        elif isinstance(x, ast.ExceptHandler):
            t = x.type
            for e in (t.elts if isinstance(t, ast.Tuple) else [t] if t is not None else []):
                ent = prog.resolve(f.module, e)
                out['catches'][nm(prog.exc_name(ent) or norm(e))] += 1
        elif isinstance(x, ast.Call):
            tg = ty.callees(x, sc)
            for k, o in tg:
                if k == 'ctor' and isinstance(o, ClassInfo):
                    if prog.exc_subclass(o.qualname, 'Exception'):
                        out['error_ctors'][f'{o.name}({",".join(sorted(kw.arg or "**" for kw in x.keywords))};{len(x.args)})'] += 1
                        for a in list(x.args) + [kw.value for kw in x.keywords]:
                            if isinstance(a, ast.Constant):
                                out['ctor_consts'][repr(a.value)] += 1
                    else:
                        out['callees'][nm(o.qualname)] += 1
                elif k == 'func' and isinstance(o, FuncInfo):
                    if '.backend.' in o.qualname:      # transport implementations (CHA fan-out of the abstract _request)
                        continue
                    out['callees'][nm(o.qualname)] += 1
                elif k == 'ext':
                    name = nm(str(o))
                    if name not in ASYNC_ONLY_EXT and not name.startswith('typing.'):
                        out['ext'][name] += 1
            out['kwnames'][','.join(sorted(kw.arg or '**' for kw in x.keywords))] += 1
        elif isinstance(x, ast.Attribute) and isinstance(x.ctx, ast.Load) and dotted(x.value) == 'self':
            if x.attr not in ASYNC_ONLY_ATTRS:
                out['self_attrs'][nm(x.attr)] += 1
        elif isinstance(x, (ast.If, ast.While, ast.IfExp)):
            for c in _atoms(x.test):
                ckd = classify_cond(prog, f, c)
                if ckd.subject and ckd.subject.replace('self.', '') in ASYNC_ONLY_ATTRS:
                    continue
                if isinstance(c, ast.Call) and dotted(c.func) == 'asyncio.iscoroutine':
                    continue
                out['conds'][nm(f'{"not " if ckd.negated else ""}{ckd.kind}({ckd.subject}){":" + ckd.detail if ckd.kind in ("eq", "len-cmp", "isinstance") else ""}')] += 1
        elif isinstance(x, ast.Return):
            pass        # see below: compared through value flow
        elif isinstance(x, ast.Assert):
            out['asserts'][nm(norm(x.test))] += 1
    # returns: the SET of leaf expressions a return can produce (conditional expressions, temporaries and awaits of a local
    # are looked through), so `return a if c else b` and `if c: return a` + `return b` give the same record
    from ..cfg import CFG
    from ..flow import Flow
    try:
        cfg = CFG(f, prog)
        fl = Flow(cfg)
        for n in cfg.stmt_nodes():
            if n.kind == 'stmt' and isinstance(n.ast, ast.Return):
                if n.ast.value is None:
                    out['returns']['None'] = 1
                    continue
                for al in fl.alts(n, n.ast.value):
                    v = al.expr
                    while isinstance(v, ast.Await):
                        v = v.value
                    out['returns'][nm(_shape(v, f))] = 1
    except AnalysisError:
        for x in walk_own(f.node):
            if isinstance(x, ast.Return):
                out['returns'][nm(_shape(x.value, f) if x.value is not None else 'None')] = 1
    return out


class _Anon(ast.NodeTransformer):
    def __init__(self, locals_: set):
        self.locals = locals_

    def visit_Name(self, node: ast.Name) -> ast.AST:
        return ast.copy_location(ast.Name(id='_', ctx=node.ctx), node) if node.id in self.locals else node

    def visit_Await(self, node: ast.Await) -> ast.AST:
        return self.visit(node.value)

    def visit_Call(self, node: ast.Call) -> ast.AST:
        if dotted(node.func) in ('cast', 'typing.cast') and len(node.args) == 2:
            return self.visit(node.args[1])       # typing.cast is the identity
        self.generic_visit(node)
        node.keywords = sorted(node.keywords, key=lambda kw: kw.arg or '~')
        return node


def _shape(v: ast.expr, f: FuncInfo) -> str:
    """Expression text with local variable names anonymised and awaits erased (attribute and callee names kept)."""
    import copy
    locals_ = {p.arg for p in f.params} | {x.id for x in ast.walk(f.node) if isinstance(x, ast.Name) and isinstance(x.ctx, ast.Store)}
    locals_.discard('self')
    t = _Anon(locals_).visit(copy.deepcopy(v))
    ast.fix_missing_locations(t)
    return norm(t)[:120]


def _atoms(e: ast.expr) -> List[ast.expr]:
    if isinstance(e, ast.BoolOp):
        out = []
        for v in e.values:
            out += _atoms(v)
        return out
    return [e]


# facets compared as bags; 'conds', 'ext' and 'kwnames' are collected for the evidence but not compared: they are purely
# syntactic and differ under behaviour-preserving one-sided refactors (an `if` statement instead of a conditional expression,
# len(x) > 0 instead of truthiness); the semantic content of conditions is compared through the TWIN-FACTS records instead
COMPARED = ('raises', 'catches', 'error_ctors', 'ctor_consts', 'callees', 'self_attrs', 'returns', 'asserts')


def diff_bags(a: Dict[str, Counter], b: Dict[str, Counter], allow: Dict[str, Counter]) -> List[str]:
    out = []
    for k in COMPARED:
        da = a[k] - b[k]
        db = b[k] - a[k] - allow.get(k, Counter())
        da = da - allow.get(k, Counter())
        if da or db:
            out.append(f'{k}: only sync {dict(da)} / only async {dict(db)}')
    return out


def compare_facts(name: str, fa: Any, fb: Any, allow_keys: Tuple[str, ...] = ()) -> List[str]:
    ja = json.loads(nm(json.dumps(fa, sort_keys=True, default=str)))
    jb = json.loads(nm(json.dumps(fb, sort_keys=True, default=str)))
    out = []
    if isinstance(ja, dict) and isinstance(jb, dict):
        for k in sorted(set(ja) | set(jb)):
            if k in allow_keys:
                continue
            if ja.get(k) != jb.get(k):
                out.append(f'{name}.{k}: sync={ja.get(k)!r} async={jb.get(k)!r}')
    elif ja != jb:
        out.append(f'{name}: sync={ja!r} async={jb!r}')
    return out


def run(ck: Check, prog: Program) -> None:
    ck.explain('For each of the hand-copied twin pairs (dispatchers: __init__, dispatch and the three per-element handlers; clients: '
               'notify, call, send, traced wrapper, retried wrapper, _send; Batch/AsyncBatch call, send, proxy; retry/retry_async) the '
               'semantic fact records extracted by the rules of C01–C03, C07–C09, C12 and C19 are computed per half and must be equal '
               'after await erasure and the declared name map; on top, per pair, the multisets of raised classes, caught classes, '
               'constructed error classes with their keyword sets, constants passed to error constructors, resolved callees, self '
               'attributes read, classified conditions, return shapes and assertions are compared. Behaviourally neutral differences '
               '(isinstance(UnsetType) vs truthiness of a MaybeSet[Response] filter; generator vs gather; the iscoroutine/await step; '
               'the async-only concurrent_batch option) are recognised by the extractors or declared, not whitelisted by text.')
    ck.not_decided.append('behavioural equality on facets no fact covers (e.g. an extra pure helper call in one half): the facets compared are listed in the evidence')
    from .common import dispatcher_program
    prog = dispatcher_program(prog)
    roles = dispatchers(prog)
    sync = [r for r in roles if not r.dispatch.is_async]
    asyn = [r for r in roles if r.dispatch.is_async]
    if len(sync) != 1 or len(asyn) != 1:
        raise AnalysisError('expected one sync and one async dispatcher')
    rs, ra = sync[0], asyn[0]
    interp = c01.make_interp(prog, roles)
    pairs: List[Tuple[str, FuncInfo, FuncInfo, Dict[str, Counter]]] = []
    allow_dispatch = {'callees': Counter(), 'ext': Counter(), 'returns': Counter(), 'kwnames': Counter()}
    for name, fs, fa in (('__init__', rs.init, ra.init), ('dispatch', rs.dispatch, ra.dispatch), ('handle_request', rs.handle_request, ra.handle_request),
                         ('handle_rpc_request', rs.handle_rpc_request, ra.handle_rpc_request), ('handle_rpc_method', rs.handle_rpc_method, ra.handle_rpc_method)):
        allow: Dict[str, Counter] = {}
        if name == 'dispatch':
            # the async half has two element call sites (gather / sequential) and filters by truthiness
            allow = {'callees': Counter({nm(ra.handle_request.qualname): 1}), 'conds': Counter({'truthy(resp)': 1, 'not is-unset(resp):isinstance': 1}),
                     'ext': Counter({'isinstance': 1}), 'kwnames': Counter({'': 3}), 'self_attrs': Counter({nm(ra.slot): 1})}
        if name == 'handle_rpc_method':
            allow = {'returns': Counter({'_()': 1, '_': 1}), 'kwnames': Counter({'': 1})}
        if name == '__init__':
            allow = {}
        pairs.append((f'dispatcher.{name}', fs, fa, allow))
    # fact records
    diffs: List[Tuple[str, str]] = []
    for title, ex in (('notif', lambda r: notif_facts(prog, interp, r)[0]), ('method_call', lambda r: method_call_facts(prog, interp, r)[0]),
                      ('errmap', lambda r: errmap_facts(prog, interp, r)[0]), ('mw_fold', lambda r: mw_fold_facts(prog, r)[0]),
                      ('eh_fold', lambda r: eh_fold_facts(prog, interp, r)[0])):
        d = compare_facts(title, ex(rs), ex(ra), allow_keys=('lookup',) if False else ())
        ck.ob('TWIN-FACTS', f'dispatchers: {title} facts equal', not d, sample={'facts_sync': ex(rs)} if title in ('errmap',) else None)
        diffs += [(f'dispatcher {title}', x) for x in d]
    # both halves hand the same constructor options to the shared base class (an option one half drops is configured in vain there)
    from .common import ctor_forwarding
    fw_s, pr_s = ctor_forwarding(prog, rs.cls)
    fw_a, pr_a = ctor_forwarding(prog, ra.cls)
    d = compare_facts('ctor', {'forwarded': fw_s, 'problems': [m for _, m in pr_s]}, {'forwarded': fw_a, 'problems': [m for _, m in pr_a]})
    ck.ob('TWIN-FACTS', 'dispatchers: the same constructor options are forwarded to the base class', not d,
          sample={'forwarded_sync': fw_s, 'forwarded_async': fw_a})
    diffs += [('dispatcher constructor', x) for x in d]
    d = compare_facts('batch', batch_facts(prog, rs)[0], batch_facts(prog, ra)[0], allow_keys=('joins', 'batch_call_sites', 'slot_call_sites'))
    ck.ob('TWIN-FACTS', 'dispatchers: batch facts equal (join kind and number of element call sites are declared asymmetries)', not d)
    diffs += [('dispatcher batch', x) for x in d]
    # escaping exception classes of dispatch
    from ..absint import EMPTY_ENV
    es = {c for c, _ in interp.analyze(rs.dispatch, {EMPTY_ENV}, recv=rs.cls.qualname).raises}
    ea = {c for c, _ in interp.analyze(ra.dispatch, {EMPTY_ENV}, recv=ra.cls.qualname).raises}
    ck.ob('TWIN-FACTS', 'dispatchers: the same exception classes can escape dispatch', es == ea, sample={'sync': sorted(es), 'async': sorted(ea)})
    if es != ea:
        diffs.append(('dispatcher escape', f'sync {sorted(es)} / async {sorted(ea)}'))
    # clients
    from .cfacts import client_program
    n_server_pairs = len(pairs)
    sprog = prog
    prog = client_program(prog)
    crs = clients(prog)
    cs = [c for c in crs if not c.is_async][0]
    ca = [c for c in crs if c.is_async][0]
    ti = tracer_interp(prog)
    for title, ex in (('traced', lambda c: traced_facts(prog, ti, c)[0]), ('decorators', lambda c: decor_order_facts(prog, c)[0]),
                      ('retried', lambda c: retried_facts(prog, c)[0]), ('send', lambda c: send_facts(prog, c)[0])):
        d = compare_facts(title, ex(cs), ex(ca))
        ck.ob('TWIN-FACTS', f'clients: {title} facts equal', not d, sample={'facts_sync': ex(cs)} if title == 'send' else None)
        diffs += [(f'client {title}', x) for x in d]
    for name, fs, fa in (('notify', cs.notify, ca.notify), ('call', cs.call, ca.call), ('send', cs.send, ca.send),
                         ('traced.wrapper', cs.traced_wrapper, ca.traced_wrapper), ('retried.wrapper', cs.retried_wrapper, ca.retried_wrapper),
                         ('_send', cs.send_impl, ca.send_impl)):
        pairs.append((f'client.{name}', fs, fa, {}))
    bs, ba = prog.cls('pjrpc.client.client.Batch'), prog.cls('pjrpc.client.client.AsyncBatch')
    for name in ('call', 'send'):
        pairs.append((f'batch.{name}', bs.methods[name], ba.methods[name], {}))
    for name in ('__call__', 'call'):
        pairs.append((f'batch.Proxy.{name}', bs.nested['Proxy'].methods[name], ba.nested['Proxy'].methods[name], {}))
    loops = retry_loops(prog)
    ls = [l for l in loops if not l[1].is_async][0]
    la = [l for l in loops if l[1].is_async][0]
    ret = send_return_kinds(prog, crs)
    d = compare_facts('retry_loop', retry_loop_facts(prog, ls[0], ls[1], ret)[0], retry_loop_facts(prog, la[0], la[1], ret)[0])
    ck.ob('TWIN-FACTS', 'retry / retry_async: loop facts equal', not d)
    diffs += [('retry loop', x) for x in d]
    pairs.append(('retry.wrapped', ls[1], la[1], {}))
    # TWIN-BAGS
    for i_, (name, fs, fa, allow) in enumerate(pairs):
        ck.functions |= {fs.qualname, fa.qualname}
        bp = sprog if i_ < n_server_pairs else prog
        bd = diff_bags(bag(bp, fs), bag(bp, fa), allow)
        ck.ob('TWIN-BAGS', f'{name}: raised / caught / constructed-error / callee / condition bags equal', not bd,
              sample={'sync': short(fs.qualname), 'async': short(fa.qualname)})
        for x in bd:
            ck.finding('TWIN-BAGS', fa.qualname, f'{name}: {x[:90]}', fa.module.rel, fa.node.lineno,
                       f'the synchronous and asynchronous versions of {name} differ: {x}: for the same input the two halves can behave differently')
    ck.require('TWIN-BAGS', 'twin pairs', len(pairs), 16)
    # SIZED-TRUTH: in either half, "is there a response?" must be an identity test: the response classes define __len__, so a
    # truthiness test also rejects an empty / error-only batch response and the halves stop agreeing
    from .sentinel import sized_truth_tests
    for i_, (name, fs, fa, allow) in enumerate(pairs):
        bp = sprog if i_ < n_server_pairs else prog
        for g_ in (fs, fa):
            for line, txt, why in sized_truth_tests(bp, g_):
                ck.finding('TWIN-BAGS', g_.qualname, f'{name}: truthiness of a sized optional value: {txt[:40]}', g_.module.rel, line,
                           f'`{txt}` tests truthiness where None-ness is meant: {why}; the twin uses an identity test, so the two halves differ '
                           f'for such a value (one returns None, the other raises / returns the data)')
    for where, x in diffs:
        ck.finding('TWIN-FACTS', f'pjrpc.<{where}>', x[:100], 'pjrpc', 0, f'the synchronous and asynchronous halves differ in {where}: {x}')


def _one_sided(base: Dict[str, Any], **kw: Any) -> Dict[str, Any]:
    d = dict(base)
    d.update(kw)
    return d


MUTANTS = [
    dict(name='async-only-internal-vs-server', file='pjrpc/server/dispatcher.py', nth=1,
         find='raise pjrpc.exceptions.ServerError() from e', replace='raise pjrpc.exceptions.InternalError() from e', expect=['TWIN-BAGS', 'TWIN-FACTS']),
    dict(name='async-only-notification-answered', file='pjrpc/server/dispatcher.py', nth=3,
         find='        if request.id is None:\n            return UNSET\n', replace='', expect=['TWIN-BAGS', 'TWIN-FACTS']),
    dict(name='sync-only-drop-identity-handler', file='pjrpc/server/dispatcher.py', nth=0,
         find='except (pjrpc.exceptions.DeserializationError, pjrpc.exceptions.IdentityError) as e:', replace='except pjrpc.exceptions.DeserializationError as e:',
         expect=['TWIN-BAGS', 'TWIN-FACTS']),
    dict(name='async-client-notify-gets-id', file='pjrpc/client/client.py', nth=1, find='        request = self.request_class(\n            id=None,\n',
         replace='        request = self.request_class(\n            id=0,\n', expect=['TWIN-BAGS']),
    dict(name='async-retry-skips-sleep', file='pjrpc/client/retry.py', nth=0,
         find='                        await asyncio.sleep(delay)\n                        continue', replace='                        continue', expect=['TWIN-FACTS', 'TWIN-BAGS']),
    dict(name='async-send-non-strict-notification', file='pjrpc/client/client.py', nth=1, find='            if self.strict and response_text:\n',
         replace='            if response_text and False:\n', expect=['TWIN-FACTS', 'TWIN-BAGS']),
    dict(name='async-batch-call-returns-response', file='pjrpc/client/client.py', nth=1,
         find='        return response.result if response is not None else None', replace='        return response if response is not None else None',
         expect=['TWIN-BAGS']),
    dict(name='sync-traced-except-exception', file='pjrpc/client/client.py', nth=0, find='            except BaseException as e:', replace='            except Exception as e:',
         expect=['TWIN-BAGS', 'TWIN-FACTS']),
    dict(name='async-size-guard-geq', file='pjrpc/server/dispatcher.py', nth=1, find='len(request) > self._max_batch_size', replace='len(request) >= self._max_batch_size',
         expect=['TWIN-FACTS', 'TWIN-BAGS']),
]
