"""C15 — methods are reachable under exactly their registered names, private ones never."""
from __future__ import annotations

import ast
from typing import List, Optional, Tuple

from ..cfg import CFG
from ..model import AnalysisError, ClassInfo, FuncInfo, Program, dotted, norm
from ..report import Check
from ..types import walk_own
from ..util import calls_in, classify_cond, guard_edges, short
from . import c01
from .common import dispatchers
from .dfacts import method_call_facts

REG = 'pjrpc.server.dispatcher.MethodRegistry'
VIEW = 'pjrpc.server.dispatcher.ViewMixin'


def name_expr(e: ast.expr, f: FuncInfo) -> Optional[List[str]]:
    """Normalise a name-composing expression to the ordered list of its non-empty dot-joined parts, or None.
    Recognised: '.'.join(filter(None, (a, b, c))) ; '.'.join(p for p in (a, b) if p) ; f'{a}.{b}' guarded by `if a:`."""
    if isinstance(e, ast.Call) and isinstance(e.func, ast.Attribute) and e.func.attr == 'join' and \
            isinstance(e.func.value, ast.Constant) and e.func.value.value == '.' and len(e.args) == 1:
        a = e.args[0]
        if isinstance(a, ast.Call) and dotted(a.func) == 'filter' and len(a.args) == 2 and \
                isinstance(a.args[0], ast.Constant) and a.args[0].value is None and isinstance(a.args[1], (ast.Tuple, ast.List)):
            return [_part(x) for x in a.args[1].elts]
        if isinstance(a, (ast.GeneratorExp, ast.ListComp)) and len(a.generators) == 1 and isinstance(a.generators[0].iter, (ast.Tuple, ast.List)) \
                and len(a.generators[0].ifs) == 1 and dotted(a.generators[0].ifs[0]) == dotted(a.generators[0].target) == dotted(a.elt):
            return [_part(x) for x in a.generators[0].iter.elts]
    return None


def _part(x: ast.expr) -> str:
    if isinstance(x, ast.BoolOp) and isinstance(x.op, ast.Or) and len(x.values) == 2:
        return f'{_part(x.values[0])}|{_part(x.values[1])}'
    d = dotted(x)
    return d or norm(x)


def _copy_applies_kwargs(prog: Program, cp: FuncInfo) -> Tuple[bool, str]:
    """copy(**kwargs): the constructor receives name=self.name (and context / positional) as defaults that the keyword
    arguments given to copy() override."""
    from ..flow import Flow
    cfg = CFG(cp, prog)
    fl = Flow(cfg)
    kwp = cp.node.args.kwarg.arg if cp.node.args.kwarg else None
    if kwp is None:
        return False, 'copy() takes no **kwargs'
    for n in cfg.stmt_nodes():
        if n.kind != 'stmt' or not isinstance(n.ast, ast.Return) or not isinstance(n.ast.value, ast.Call):
            continue
        call = n.ast.value
        splats = [k.value for k in call.keywords if k.arg is None]
        if any(k.arg == 'name' for k in call.keywords):
            return False, f'`{norm(call)[:80]}` passes name= explicitly: the override given to copy() is ignored or collides'
        if len(splats) != 1:
            return False, f'`{norm(call)[:80]}` does not splat the merged keyword arguments'
        for al in fl.alts(n, splats[0]):
            v = al.expr
            keys: List[Optional[str]] = []
            vals: List[ast.expr] = []
            if isinstance(v, ast.Dict):
                # flatten `**part` entries whose value is itself a known mapping construction (dict(k=v), a display)
                flat_k: List[Optional[ast.expr]] = []
                flat_v: List[ast.expr] = []

                def flatten(d: ast.Dict, node, depth: int = 0) -> None:
                    for k_, v_ in zip(d.keys, d.values):
                        if k_ is None and depth < 3:
                            parts = fl.alts(node, v_)
                            if len(parts) == 1 and isinstance(parts[0].expr, ast.Dict):
                                flatten(parts[0].expr, parts[0].node or node, depth + 1)
                                continue
                            if len(parts) == 1 and isinstance(parts[0].expr, ast.Call) and dotted(parts[0].expr.func) == 'dict' and \
                                    not parts[0].expr.args and all(kw.arg is not None for kw in parts[0].expr.keywords):
                                for kw in parts[0].expr.keywords:
                                    flat_k.append(ast.Constant(value=kw.arg))
                                    flat_v.append(kw.value)
                                continue
                        flat_k.append(k_)
                        flat_v.append(v_)
                flatten(v, al.node or n)
                v = ast.copy_location(ast.Dict(keys=flat_k, values=flat_v), v)
                keys = [k.value if isinstance(k, ast.Constant) else None for k in v.keys]
                vals = list(v.values)
                if 'name' not in keys or dotted(vals[keys.index('name')]) != 'self.name':
                    return False, f'`{norm(v)[:80]}` does not default name to self.name'
                for opt in ('context', 'positional'):
                    if opt not in keys or dotted(vals[keys.index(opt)]) != f'self.{opt}':
                        return False, (f'`{norm(v)[:80]}` does not carry {opt}=self.{opt}: the copy is built with the default {opt}, so a method merged '
                                       f'into another registry loses its {opt} setting')
                later = [dotted(vals[i]) for i in range(keys.index('name') + 1, len(keys)) if v.keys[i] is None]
                if kwp not in later:
                    return False, f'`{norm(v)[:80]}`: the keyword arguments of copy() do not override the defaults'
            elif isinstance(v, ast.Call) and dotted(v.func) == 'dict' or isinstance(v, ast.Name):
                # dict(name=self.name, ...) followed by .update(kwargs) before the constructor call
                var = splats[0].id if isinstance(splats[0], ast.Name) else None
                base_ = v if isinstance(v, ast.Call) else None
                if base_ is None or var is None:
                    return False, f'keyword arguments `{norm(v)[:60]}` not recognised'
                if not any(k.arg == 'name' and dotted(k.value) == 'self.name' for k in base_.keywords):
                    return False, f'`{norm(base_)[:80]}` does not default name to self.name'
                for opt in ('context', 'positional'):
                    if not any(k.arg == opt and dotted(k.value) == f'self.{opt}' for k in base_.keywords):
                        return False, (f'`{norm(base_)[:80]}` does not carry {opt}=self.{opt}: the copy is built with the default {opt}, so a method '
                                       f'merged into another registry loses its {opt} setting')
                upd = [m for m in cfg.stmt_nodes() for c in calls_in(m) if isinstance(c.func, ast.Attribute) and c.func.attr == 'update'
                       and dotted(c.func.value) == var and c.args and dotted(c.args[0]) == kwp]
                if not upd or not all(n.id in cfg.reachable(m) for m in upd) or not cfg.dominated_by(n, upd):
                    return False, 'the keyword arguments of copy() are not merged over the defaults on every path'
            else:
                return False, f'keyword arguments `{norm(v)[:60]}` not recognised'
        # what the constructor cannot do without is given: every parameter of the rebuilt class' constructor that has no default is
        # supplied explicitly from the same attribute of the method copied (`method=self.method`, `view_cls=self.view_cls`, …)
        ent = prog.resolve(cp.module, call.func, cp.cls)
        ctor = prog.find_method(ent, '__init__') if isinstance(ent, ClassInfo) else None
        if ctor is not None:
            a_ = ctor.node.args
            pos_ = [x.arg for x in a_.posonlyargs + a_.args][1:]
            n_def = len(a_.defaults)
            required = pos_[:len(pos_) - n_def] + [x.arg for x, d_ in zip(a_.kwonlyargs, a_.kw_defaults) if d_ is None]
            given = set(pos_[:len(call.args)]) | {k.arg for k in call.keywords if k.arg}
            for al in fl.alts(n, splats[0]):
                if isinstance(al.expr, ast.Dict):
                    given |= {k.value for k in al.expr.keys if isinstance(k, ast.Constant)}
                elif isinstance(al.expr, ast.Call) and dotted(al.expr.func) == 'dict':
                    given |= {k.arg for k in al.expr.keywords if k.arg}
            missing = [r for r in required if r not in given]
            if missing:
                return False, (f'`{norm(call)[:90]}` does not pass `{missing[0]}`, which {ent.name}.__init__ requires: every copy() raises TypeError, '
                               f'so a registry holding such a method can no longer be merged into another one')
            for k in call.keywords:
                if k.arg in required and dotted(k.value) != f'self.{k.arg}' and not (isinstance(k.value, ast.Attribute) and dotted(k.value.value) == 'self'):
                    return False, f'`{norm(call)[:90]}` passes {k.arg}={norm(k.value)} instead of the copied method\'s own {k.arg}'
        return True, 'defaults (name=self.name, …) overridden by the keyword arguments of copy()'
    return False, 'no constructor call returned'


def _add_methods_delegates(prog: Program, f: FuncInfo) -> bool:
    """BaseDispatcher.add_methods: a registry is merged, a Method is added as such, anything else goes through add()."""
    from ..flow import Flow
    cfg = CFG(f, prog)
    fl = Flow(cfg)
    heads = [n for n in cfg.nodes if n.kind == 'next']
    if len(heads) != 1 or dotted(heads[0].ast.iter) != f.params[1].arg:
        return False
    tv = dotted(heads[0].ast.target)
    seen = {}
    for n in cfg.stmt_nodes():
        for c in calls_in(n):
            if not (isinstance(c.func, ast.Attribute) and c.func.attr in ('merge', 'add_methods', 'add')):
                continue
            if [dotted(al.expr) for al in fl.alts(n, c.func.value)] != ['self._registry']:
                continue
            if len(c.args) != 1 or dotted(c.args[0]) != tv or c.keywords:
                return False
            st = {}
            for g in guard_edges(cfg, n):
                k = classify_cond(prog, f, g.src.ast)
                if k.kind == 'isinstance' and k.subject == tv:
                    for cls in k.detail.split(','):
                        st[cls.rsplit('.', 1)[-1]] = (g.label == 'T') != k.negated
            if c.func.attr in seen:
                return False
            seen[c.func.attr] = st
    return set(seen) == {'merge', 'add_methods', 'add'} and seen['merge'].get('MethodRegistry') is True and \
        seen['add_methods'].get('Method') is True and seen['add_methods'].get('MethodRegistry') is not True and \
        seen['add'].get('Method') is False and seen['add'].get('MethodRegistry') is False


def run(ck: Check, prog: Program) -> None:
    ck.explain('Symbolic evaluation of each registration operation of MethodRegistry: the key stored is Join(".", nonempty[registry '
               'prefix, (view prefix,) explicit name or __name__]); merge re-prefixes a copy of each method with the own prefix; the '
               'store is an unconditional assignment (later registration replaces); views register exactly what __methods__ yields '
               '(public callables only); the dispatcher delegates to an un-prefixed registry; the lookup uses the unmodified request '
               'method name with an exact mapping get and a miss raises MethodNotFoundError. By induction over registration '
               'histories these per-operation forms give the stated key set.')
    ck.not_decided.append('raw Method(...) instances added through add_methods keep their given name (outside the property\'s operation alphabet)')
    reg = prog.cls(REG)
    for need in ('add', 'view', 'merge', '_add_method', 'add_methods', 'get'):
        if need not in reg.methods:
            raise AnalysisError(f'MethodRegistry.{need} not found')
    # name-composing helpers extracted from the registration operations are looked at as part of them
    from ..inline import inlined_program
    prog = inlined_program(prog, [f'{REG}.add', f'{REG}.view', f'{REG}.merge'],
                           keep=[f'{REG}._add_method', f'{REG}.add_methods', f'{REG}.get'])
    reg = prog.cls(REG)
    init = reg.methods['__init__']
    prefix_attr = None
    store_attr = None
    for st in walk_own(init.node):
        if isinstance(st, (ast.Assign, ast.AnnAssign)):
            tg = st.targets[0] if isinstance(st, ast.Assign) else st.target
            if isinstance(tg, ast.Attribute) and dotted(tg.value) == 'self':
                if dotted(st.value) == 'prefix':
                    prefix_attr = tg.attr
                if isinstance(st.value, ast.Dict) and not st.value.keys:
                    store_attr = tg.attr
    if prefix_attr is None or store_attr is None:
        raise AnalysisError('MethodRegistry.__init__: prefix / registry attributes not recognised')
    P = f'self.{prefix_attr}'
    # ---- add / view: the name handed to the Method / ViewMethod constructor, followed through locals ---------------------------
    from ..flow import Flow
    from ..util import canon_dotted, stmt_node_of

    def composed_name(f: FuncInfo, cfg_: CFG, ctor: ast.Call, pos: int) -> Optional[List[str]]:
        """Parts of the dot-joined name passed as positional argument `pos` (or name=) of the constructor call, or None."""
        fl_ = Flow(cfg_)
        n_ = stmt_node_of(cfg_, ctor)
        arg = ctor.args[pos] if len(ctor.args) > pos else next((kw.value for kw in ctor.keywords if kw.arg == 'name'), None)
        if n_ is None or arg is None:
            return None
        alts = fl_.alts(n_, arg)
        if len(alts) != 1:
            return None
        v = alts[0].expr
        at = alts[0].node or n_
        if isinstance(v, ast.Call) and isinstance(v.func, ast.Attribute) and v.func.attr == 'join' and len(v.args) == 1 and isinstance(v.args[0], ast.Name):
            inner = fl_.alts(at, v.args[0])
            if len(inner) == 1:
                v = ast.Call(func=v.func, args=[inner[0].expr], keywords=[])
        parts = name_expr(v, f)
        if parts is None:
            return None
        out = []
        for p_ in parts:
            # aliases of attribute reads (`method_name = method.__name__`) stand for what they alias
            try:
                tree = ast.parse(p_, mode='eval').body if '|' not in p_ else None
            except SyntaxError:
                tree = None
            out.append(canon_dotted(f, tree) or p_ if tree is not None else p_)
        return out
    add = reg.methods['add']
    ck.functions.add(add.qualname)
    found = None
    for f in add.nested.values():
        cfg_ = CFG(f, prog)
        for x in walk_own(f.node):
            if isinstance(x, ast.Call) and dotted(x.func) == 'Method':
                found = (f, x, composed_name(f, cfg_, x, 1))
    if found is None or found[2] is None:
        raise AnalysisError('MethodRegistry.add: name-composition form not recognised (recognised: ".".join(filter(None, (...))) or a '
                            'filtered comprehension over a tuple, directly or through locals)')
    ok = found[2] == [P, 'name|method.__name__']
    ck.ob('NAME-COMPOSE', 'add: key = Join(".", nonempty[registry prefix, explicit name or __name__])', ok, sample={'parts': found[2]})
    if not ok:
        ck.finding('NAME-COMPOSE', add.qualname, 'add name composition', add.module.rel, add.node.lineno,
                   f'add must register the method under prefix + "." + (name or __name__) (empty parts dropped); found parts {found[2]}')
    # ---- view -------------------------------------------------------------------------------------
    view = reg.methods['view']
    ck.functions.add(view.qualname)
    found = None
    for f in view.nested.values():
        cfg = CFG(f, prog)
        for x in walk_own(f.node):
            if isinstance(x, ast.Call) and dotted(x.func) == 'ViewMethod':
                found = (f, x, composed_name(f, cfg, x, 2), cfg)
    okv = False
    loop_ok = False
    if found is None or found[2] is None:
        raise AnalysisError('MethodRegistry.view: name-composition form not recognised')
    f, vmc, parts, cfg = found
    heads = [n for n in cfg.nodes if n.kind == 'next']
    if len(heads) == 1:
        mv = dotted(heads[0].ast.target)
        it = heads[0].ast.iter
        loop_ok = isinstance(it, ast.Call) and isinstance(it.func, ast.Attribute) and it.func.attr == '__methods__' and not it.args
        okv = parts == [P, 'prefix', f'{mv}.__name__']
        # registered through ViewMethod(view, <member name>, full_name, …)
        vm_ok = len(vmc.args) >= 3 and canon_dotted(f, vmc.args[1]) == f'{mv}.__name__'
        okv = okv and vm_ok
        # no filter / continue in the loop
        if any(isinstance(x, (ast.Continue, ast.Break, ast.If)) for x in walk_own(f.node)):
            loop_ok = False
    ck.ob('NAME-COMPOSE', 'view: key = Join(".", nonempty[registry prefix, view prefix, member name]) for every member __methods__ yields',
          okv and loop_ok, sample={'parts': parts})
    if not (okv and loop_ok):
        ck.finding('NAME-COMPOSE', view.qualname, 'view name composition', view.module.rel, view.node.lineno,
                   f'view must register every member yielded by __methods__ under registry prefix + view prefix + member name; found {parts}')
    # ---- the registration decorators hand back what they decorate -----------------------------------
    # `@registry.add` / `@registry.view` (with or without arguments) leave the decorated function / class bound to its name: the inner
    # decorator returns its argument, the outer returns the decorator when called without a subject and the decorated subject otherwise
    for reg_m in (reg.methods['add'], reg.methods['view']):
        from .common import decorator_protocol_problems
        probs_d = decorator_protocol_problems(prog, reg_m)
        ck.ob('NAME-COMPOSE', f'{short(reg_m.qualname)}: usable as `@{reg_m.name}` and `@{reg_m.name}(...)`, handing back what it decorates', not probs_d)
        for pd in probs_d:
            ck.finding('NAME-COMPOSE', reg_m.qualname, f'decorator protocol: {pd[:50]}', reg_m.module.rel, reg_m.node.lineno,
                       f'{short(reg_m.qualname)}: {pd}: after `@registry.{reg_m.name}` the decorated name is bound to None (or decoration fails), so the '
                       f'function / view the application defined is lost although a method was registered')
    # ---- merge ------------------------------------------------------------------------------------
    from ..flow import Flow
    merge = reg.methods['merge']
    ck.functions.add(merge.qualname)
    cfg = CFG(merge, prog)
    fl = Flow(cfg)
    heads = [n for n in cfg.nodes if n.kind == 'next']
    okm = False
    why = 'loop over other.items() not recognised'
    if len(heads) == 1:
        h = heads[0]
        other = merge.params[1].arg
        tg = h.ast.target
        nv = mv = None
        if norm(h.ast.iter) in (f'{other}.items()', f'list({other}.items())', f'tuple({other}.items())') and isinstance(tg, ast.Tuple) and len(tg.elts) == 2:
            nv, mv = dotted(tg.elts[0]), dotted(tg.elts[1])
        elif norm(h.ast.iter) in (f'{other}.values()', f'list({other}.values())', f'tuple({other}.values())') and isinstance(tg, ast.Name):
            # the key a method is stored under is its own name (see _add_method), so `for method in other.values()` with
            # method.name as the name is the same enumeration
            mv = tg.id
            nv = f'{mv}.name'
        if nv is not None and mv is not None:
            # the methods of the other registry are shared with it: they are copied, never modified
            for n_ in cfg.stmt_nodes():
                for x_ in ast.walk(n_.ast) if n_.ast is not None and n_.kind == 'stmt' else []:
                    if isinstance(x_, ast.Attribute) and isinstance(x_.ctx, (ast.Store, ast.Del)) and dotted(x_.value) == mv:
                        ck.finding('NAME-COMPOSE', merge.qualname, f'source method modified in place: {norm(n_.ast)[:50]}', merge.module.rel, n_.line,
                                   f'`{norm(n_.ast)[:80]}` modifies a Method object that still belongs to the other registry (its key there no longer '
                                   f'matches its name, and a second merge of that registry starts from the already prefixed name): merge must '
                                   f'store a copy under the new name')
            stores = [(n, c) for n in cfg.stmt_nodes() for c in calls_in(n) if dotted(c.func) == 'self._add_method']
            why = 'the stored value is not a copy of the method under a new name'
            if len(stores) == 1 and stores[0][1].args and isinstance(stores[0][1].args[0], ast.Call):
                sn, sc_ = stores[0]
                cp = sc_.args[0]
                namev = None
                if isinstance(cp.func, ast.Attribute) and cp.func.attr == 'copy' and dotted(cp.func.value) == mv and not cp.args:
                    for kw in cp.keywords:
                        if kw.arg == 'name':
                            namev = kw.value
                if namev is None:
                    why = f'stored value `{norm(cp)}` is not `{mv}.copy(name=…)`'
                else:
                    seen_forms = set()
                    bad = []
                    for al in fl.alts(sn, namev):
                        v = al.expr

                        def p_state() -> Optional[bool]:
                            for c, pol in al.guards:
                                k = classify_cond(prog, merge, c)
                                if k.subject == P and k.kind == 'truthy':
                                    return (not k.negated) == pol
                                if k.subject == P and k.kind == 'is-none':
                                    return k.negated == pol
                            return None
                        if isinstance(v, ast.JoinedStr):
                            parts = [dotted(x.value) if isinstance(x, ast.FormattedValue) else x.value for x in v.values]
                            if parts == [P, '.', nv] and p_state() is True:
                                seen_forms.add('prefixed')
                            else:
                                bad.append(f'{norm(v)} under {[("" if pol else "not ") + norm(c) for c, pol in al.guards]}')
                        elif name_expr(v, merge) == [P, nv]:
                            seen_forms |= {'prefixed', 'bare'}
                        elif dotted(v) == nv:
                            if p_state() is False:
                                seen_forms.add('bare')
                            else:
                                bad.append(f'the bare name `{nv}` is used although the own prefix may be set')
                        else:
                            bad.append(f'{norm(v)[:60]}')
                    if bad:
                        why = 'name = ' + '; '.join(bad)
                    elif seen_forms == {'bare'}:
                        why = 'names are not re-prefixed with the own prefix'
                    elif seen_forms != {'prefixed', 'bare'}:
                        why = f'only the forms {sorted(seen_forms)} are produced'
                    else:
                        okm = True
                        why = 'own prefix + "." + name when the prefix is set, the name itself otherwise'
            elif len(stores) != 1:
                why = f'expected one self._add_method call in the loop, found {len(stores)}'
    if not okm and 'not recognised' in why:
        raise AnalysisError(f'MethodRegistry.merge: {why}')
    ck.ob('NAME-COMPOSE', 'merge: every method of the other registry is copied under own prefix + "." + its name', okm, sample={'form': why})
    if not okm:
        ck.finding('NAME-COMPOSE', merge.qualname, 'merge name composition', merge.module.rel, merge.node.lineno,
                   f'merge must store method.copy(name=<own prefix>.<name>) for every (name, method) of the other registry; {why}')
    # the registry owns its table: it is never rebound (two registries sharing one table see each other's later registrations), and
    # merge has no path that skips the copying loop
    rebinds = []
    for m_ in reg.methods.values():
        if m_.name == '__init__':
            continue
        for x in walk_own(m_.node):
            tg_ = x.targets if isinstance(x, ast.Assign) else [x.target] if isinstance(x, (ast.AnnAssign, ast.AugAssign)) else []
            for t_ in tg_:
                if dotted(t_) == f'self.{store_attr}':
                    rebinds.append((m_, x))
    early = [n for n in cfg.stmt_nodes() if n.kind == 'stmt' and isinstance(n.ast, ast.Return)] if len(heads) == 1 else []
    early = [n for n in early if n.id in cfg.reachable(cfg.entry, avoid_nodes=[heads[0]])] if early else []
    ok_own = not rebinds and not early
    ck.ob('NAME-COMPOSE', 'a registry never shares or replaces its table; merge always copies', ok_own)
    for m_, x in rebinds:
        ck.finding('NAME-COMPOSE', m_.qualname, f'registry table rebound: {norm(x)[:50]}', m_.module.rel, x.lineno,
                   f'`{norm(x)[:80]}` replaces the registry\'s own table: afterwards two registries share one mapping, so a method registered later on '
                   f'one of them becomes callable through the other although it was never registered there')
    for n in early:
        ck.finding('NAME-COMPOSE', merge.qualname, 'merge returns without copying', merge.module.rel, n.line,
                   'merge has a path that returns before the methods of the other registry were copied under their new names')
    # copy(): the name kwarg replaces the stored name
    from ..inline import inlined_program as _inl
    cprog = _inl(prog, ['pjrpc.server.dispatcher.Method.copy', 'pjrpc.server.dispatcher.ViewMethod.copy'])
    for cq in ('pjrpc.server.dispatcher.Method', 'pjrpc.server.dispatcher.ViewMethod'):
        cp = cprog.cls(cq).methods.get('copy')
        okc = False
        whyc = 'copy() not found'
        if cp is not None:
            okc, whyc = _copy_applies_kwargs(cprog, cp)
        ck.ob('NAME-COMPOSE', f'{cq.rsplit(".", 1)[-1]}.copy(name=…) builds the same kind of method under the given name', okc, sample={'form': whyc})
        if not okc:
            ck.finding('NAME-COMPOSE', cq + '.copy', 'copy does not apply the new name', 'pjrpc/server/dispatcher.py', cp.node.lineno if cp else 0,
                       f'copy(**kwargs) must rebuild the method with name/context/positional overridden by kwargs: {whyc}')
    # ---- REPLACE-LATER ------------------------------------------------------------------------------
    am = reg.methods['_add_method']
    ck.functions.add(am.qualname)
    cfg = CFG(am, prog)
    stores = [n for n in cfg.stmt_nodes() if isinstance(n.ast, ast.Assign) and isinstance(n.ast.targets[0], ast.Subscript)
              and dotted(n.ast.targets[0].value) == f'self.{store_attr}']
    p = am.params[1].arg
    from ..flow import Flow as _Flow
    fl_am = _Flow(cfg)
    key_ok = len(stores) == 1 and [dotted(al.expr) for al in fl_am.alts(stores[0], stores[0].ast.targets[0].slice)] == [f'{p}.name']
    okr = len(stores) == 1 and key_ok and dotted(stores[0].ast.value) == p and \
        not guard_edges(cfg, stores[0]) and cfg.exit.id not in cfg.reachable(cfg.entry, avoid_nodes=stores)
    ck.ob('REPLACE-LATER', '_add_method: registry[method.name] = method, unconditionally', okr)
    if not okr:
        ck.finding('REPLACE-LATER', am.qualname, 'store is not an unconditional assignment', am.module.rel, am.node.lineno,
                   'a later registration under an existing name must replace the earlier one: registry[method.name] = method on every path')
    # ---- VIEW-PUBLIC --------------------------------------------------------------------------------
    vmix = prog.cls(VIEW)
    ms = vmix.methods.get('__methods__')
    okp = False
    why = '__methods__ not recognised'
    if ms is not None:
        ck.functions.add(ms.qualname)
        from ..flow import Flow as _FlowV
        cfg = CFG(ms, prog)
        flv = _FlowV(cfg)
        heads = [n for n in cfg.nodes if n.kind == 'next']
        ys = [n for n in cfg.stmt_nodes() if isinstance(n.ast, ast.Expr) and isinstance(n.ast.value, ast.Yield)]
        if len(heads) == 1 and len(ys) == 1 and isinstance(heads[0].ast.target, ast.Name):
            # the enumeration is read as a pipeline of stages from dir(cls) to the yield; each stage filters its input element and
            # maps it to its output element, whatever mixture of loops, comprehensions, filter() and map() spells it
            stages = []         # outermost first: (target name, [(cond, polarity)], [element expressions])
            nv = heads[0].ast.target.id
            loop_guards = [(g.src.ast, g.label == 'T') for g in guard_edges(cfg, ys[0])
                           if g.src.id in cfg.reachable(heads[0], edge_ok=lambda e: e.label != 'exhausted')]
            yv = ys[0].ast.value.value
            y_alts = [al.expr for al in flv.alts(ys[0], yv)] if yv is not None else []
            stages.append((nv, loop_guards, y_alts))
            it_nodes = [m_ for m_ in cfg.nodes if m_.kind == 'iter' and m_.ast is heads[0].ast.iter]
            cur_n, cur_e = (it_nodes[0] if it_nodes else heads[0]), heads[0].ast.iter
            source = None
            for _ in range(6):
                leafs = [al for al in flv.alts(cur_n, cur_e)]
                if len(leafs) == 1 and norm(leafs[0].expr) == 'dir(cls)':
                    source = 'dir(cls)'
                    break
                sqs = flv.seq(cur_n, cur_e)
                if len(sqs) != 1 or sqs[0].kind != 'iter' or sqs[0].target is None or not isinstance(sqs[0].target, ast.Name):
                    if len(leafs) == 1 and isinstance(leafs[0].expr, ast.Call) and [dotted(a) for a in leafs[0].expr.args] == ['cls']:
                        why = f'members are enumerated from `{norm(leafs[0].expr)}`, not from dir(cls) (inherited members are part of a view)'
                    break
                sq = sqs[0]
                stages.append((sq.target.id, list(sq.filters), [x.expr for x in sq.elt]))
                cur_n, cur_e = sq.node or cur_n, sq.iter
            if source is not None:
                kind = 'name'
                under = callable_ok = False
                bad = []
                for tname, filters, elts in reversed(stages):
                    attr_locals = {tname}
                    for cond, pol in filters:
                        txt = norm(cond)
                        m_under = [v for v in attr_locals if txt == f"{v}.startswith('_')"]
                        if kind == 'name' and m_under and pol is False:
                            under = True
                        elif kind == 'name' and txt == f"not {tname}.startswith('_')" and pol is True:
                            under = True
                        elif isinstance(cond, ast.Call) and dotted(cond.func) == 'callable' and len(cond.args) == 1 and pol is True:
                            arg_alts = [norm(cond.args[0])]
                            if kind == 'attr' and arg_alts[0] == tname or norm(cond.args[0]) in [f'getattr(cls, {tname})'] or \
                                    (kind == 'name' and any(norm(x) == f'getattr(cls, {tname})' for x in elts)):
                                callable_ok = True
                            else:
                                bad.append(txt)
                        elif isinstance(cond, ast.Name) and dotted(cond) == 'callable':
                            # filter(callable, X): the predicate applied to the element
                            if kind == 'attr':
                                callable_ok = True
                            else:
                                bad.append('callable(<name>)')
                        else:
                            bad.append(('' if pol else 'not ') + txt)
                    new_kind = None
                    for x in elts:
                        if isinstance(x, ast.Name) and x.id == tname:
                            k2 = kind
                        elif norm(x) == f'getattr(cls, {tname})' and kind == 'name':
                            k2 = 'attr'
                        else:
                            k2 = '?'
                        new_kind = k2 if new_kind in (None, k2) else '?'
                    kind = new_kind or kind
                val_ok = kind == 'attr'
                okp = under and callable_ok and val_ok and not bad
                why = f'underscore filter={under} callable test={callable_ok} yields getattr(cls, name)={val_ok}' + (f' other filters={bad}' if bad else '')
    if not okp and 'not recognised' in why and ms is not None:
        # another enumeration than dir(cls) + callable(): say what it leaves out, where that is known
        src_calls = [x for x in walk_own(ms.node) if isinstance(x, ast.Call) and (dotted(x.func) or '').rsplit('.', 1)[-1] in ('getmembers', 'vars', 'getmembers_static')]
        src_attrs = [x for x in walk_own(ms.node) if isinstance(x, ast.Attribute) and x.attr == '__dict__']
        if src_calls or src_attrs:
            sc_ = src_calls[0] if src_calls else src_attrs[0]
            pred = norm(sc_.args[1]) if isinstance(sc_, ast.Call) and len(sc_.args) > 1 else None
            if pred != 'callable':
                what = (f'`{norm(sc_)[:60]}` keeps only the members for which `{pred}` holds — a public callable of another kind (a functools.lru_cache '
                        f'wrapper, a callable object, a nested class, a staticmethod over such a thing) is not exposed') if pred else \
                       (f'`{norm(sc_)[:60]}` lists only what the class itself defines — public callables inherited from a base view are not exposed')
                ck.ob('VIEW-PUBLIC', '__methods__ yields exactly the callables whose name does not start with an underscore', False)
                ck.finding('VIEW-PUBLIC', ms.qualname, 'public callables enumerated by something narrower than dir() + callable()', ms.module.rel, sc_.lineno,
                           f'{what}: views must expose exactly their public callables, and such a member answers -32601')
                why = 'narrower enumeration'
    if not okp and 'not recognised' in why:
        raise AnalysisError(f'ViewMixin.__methods__: loop-and-yield form not recognised')
    if why != 'narrower enumeration':
        ck.ob('VIEW-PUBLIC', '__methods__ yields exactly the callables whose name does not start with an underscore', okp, sample={'form': why})
    # ... every time it is asked: the member enumeration is a fresh iterator per registration, never a memoised (shared, one-shot) one
    if ms is not None:
        from ..effects import memoised_one_shot
        shared = memoised_one_shot(prog, ms)
        ck.ob('VIEW-PUBLIC', '__methods__ hands a fresh enumeration to every registration (not a cached iterator)', shared is None)
        if shared:
            ck.finding('VIEW-PUBLIC', ms.qualname, 'member enumeration is a cached one-shot iterator', ms.module.rel, ms.node.lineno,
                       shared + ': the second registration of the same view class (another registry, prefix or dispatcher) finds it '
                       'exhausted and registers nothing')
    if not okp:
        ck.finding('VIEW-PUBLIC', VIEW + '.__methods__', 'public-callable filter', vmix.module.rel, ms.node.lineno if ms else vmix.node.lineno,
                   f'class-based views must expose exactly their public callables (names not starting with "_", callable): {why}')
    # ---- dispatcher delegation ------------------------------------------------------------------------
    base = prog.cls('pjrpc.server.dispatcher.BaseDispatcher')
    binit = base.methods['__init__']
    unpref = any(isinstance(x, ast.Assign) and dotted(x.targets[0]) == 'self._registry' and norm(x.value) == 'MethodRegistry()'
                 for x in walk_own(binit.node))
    deleg = {}
    for mname, target in (('add', 'self._registry.add'), ('view', 'self._registry.view')):
        m = base.methods.get(mname)
        calls = [x for x in walk_own(m.node) if isinstance(x, ast.Call) and dotted(x.func) == target] if m else []
        pn_ = [p.arg for p in m.params[1:]]
        ok_d = False
        if len(calls) == 1:
            c0 = calls[0]
            got_ = [dotted(a) for a in c0.args] + [None] * (len(pn_) - len(c0.args))
            for kw in c0.keywords:
                if kw.arg in pn_ and dotted(kw.value) == kw.arg:
                    got_[pn_.index(kw.arg)] = kw.arg
            ok_d = got_ == pn_ and len(c0.args) <= len(pn_)
        deleg[mname] = ok_d
    dprog = _inl(prog, ['pjrpc.server.dispatcher.BaseDispatcher.add_methods'])
    am_ = dprog.cls('pjrpc.server.dispatcher.BaseDispatcher').methods.get('add_methods')
    deleg['add_methods'] = _add_methods_delegates(dprog, am_) if am_ else False
    okd = unpref and all(deleg.values())
    ck.ob('NAME-COMPOSE', 'dispatcher add / add_methods / view delegate unchanged to an un-prefixed registry', okd, sample={'delegation': deleg})
    if not okd:
        ck.finding('NAME-COMPOSE', base.qualname, 'dispatcher registration delegation', base.module.rel, base.node.lineno,
                   f'the dispatcher must hand registrations unchanged to its own un-prefixed MethodRegistry: {deleg}, un-prefixed={unpref}')
    # ---- LOOKUP-EXACT ------------------------------------------------------------------------------
    get = reg.methods['get']
    okg = any(isinstance(x, ast.Return) and norm(x.value) == f'self.{store_attr}.get({get.params[1].arg})' for x in walk_own(get.node))
    ck.ob('LOOKUP-EXACT', 'MethodRegistry.get is an exact mapping lookup', okg)
    if not okg:
        ck.finding('LOOKUP-EXACT', get.qualname, 'lookup is not exact', get.module.rel, get.node.lineno,
                   'MethodRegistry.get must be `registry.get(name)` with the name unmodified')
    from .common import dispatcher_program
    prog = dispatcher_program(prog)
    roles = dispatchers(prog)
    interp = c01.make_interp(prog, roles)
    for r in roles:
        _, problems = method_call_facts(prog, interp, r)
        bad = [p for p in problems if p[0] == 'LOOKUP-EXACT']
        from .dfacts import errmap_facts
        _, ep = errmap_facts(prog, interp, r)
        bad += [p for p in ep if 'unknown method' in p[1] or 'registry miss' in p[1]]
        ck.ob('LOOKUP-EXACT', f'{r.cls.name}: the request method name is looked up unmodified; a miss is -32601', not bad)
        for rule, construct, line, msg in bad:
            ck.finding('LOOKUP-EXACT', r.handle_rpc_method.qualname, construct, r.dispatch.module.rel, line, msg)


def TOTAL_SCOPE(prog: Program) -> List[str]:
    """The registry's read API and the dispatcher's registry accessors are how the registered names are observed."""
    return [q for q in prog.funcs if q.startswith('pjrpc.server.dispatcher.MethodRegistry.') or q.startswith('pjrpc.server.dispatcher.BaseDispatcher.')
            or q.startswith('pjrpc.server.dispatcher.ViewMethod.') or q.startswith('pjrpc.server.dispatcher.Method.')]


MUTANTS = [
    dict(name='memoised-view-member-enumeration', file='pjrpc/server/dispatcher.py',
         find='    @classmethod\n    def __methods__(cls)', replace='    @classmethod\n    @ft.lru_cache(maxsize=None)\n    def __methods__(cls)',
         expect='VIEW-PUBLIC'),
    dict(name='merge-renames-the-shared-method', file='pjrpc/server/dispatcher.py',
         find='            self._add_method(method.copy(name=name))', replace='            method.name = name\n            self._add_method(method)',
         expect='NAME-COMPOSE'),
    dict(name='wrong-join-order', file='pjrpc/server/dispatcher.py', find="'.'.join(filter(None, (self._prefix, prefix, method.__name__)))",
         replace="'.'.join(filter(None, (prefix, self._prefix, method.__name__)))", expect='NAME-COMPOSE'),
    dict(name='merge-prefix-twice', file='pjrpc/server/dispatcher.py', find="                name = f'{self._prefix}.{name}'",
         replace="                name = f'{self._prefix}.{self._prefix}.{name}'", expect='NAME-COMPOSE'),
    dict(name='drop-underscore-filter', file='pjrpc/server/dispatcher.py', find="filter(lambda name: not name.startswith('_'), dir(cls))",
         replace="filter(lambda name: not name.startswith('__'), dir(cls))", expect='VIEW-PUBLIC'),
    dict(name='lookup-lowercased', file='pjrpc/server/dispatcher.py', nth=0, find='method = self._registry.get(method_name)',
         replace='method = self._registry.get(method_name.lower())', expect='LOOKUP-EXACT'),
    dict(name='setdefault-store', file='pjrpc/server/dispatcher.py', find='        self._registry[method.name] = method\n',
         replace='        self._registry.setdefault(method.name, method)\n', expect='REPLACE-LATER'),
    dict(name='add-ignores-explicit-name-with-prefix', file='pjrpc/server/dispatcher.py',
         find="full_name = '.'.join(filter(None, (self._prefix, name or method.__name__)))",
         replace="full_name = name or '.'.join(filter(None, (self._prefix, method.__name__)))", expect='NAME-COMPOSE',
         accept_analysis_error=True),   # an unrecognised composition form is reported as ANALYSIS-ERROR (exit 2), never as a pass
    dict(name='merge-without-copy', file='pjrpc/server/dispatcher.py', find='            self._add_method(method.copy(name=name))',
         replace='            self._add_method(method)', expect='NAME-COMPOSE'),
    dict(name='view-skips-callable-check', file='pjrpc/server/dispatcher.py', find='            if callable(attr):\n                yield attr',
         replace='            yield attr', expect='VIEW-PUBLIC'),
    dict(name='dispatcher-registry-prefixed', file='pjrpc/server/dispatcher.py', find='        self._registry = MethodRegistry()',
         replace="        self._registry = MethodRegistry(prefix='rpc')", expect='NAME-COMPOSE'),
    dict(name='lookup-strips-prefix', file='pjrpc/server/dispatcher.py', find='        return self._registry.get(item)',
         replace="        return self._registry.get(item) or self._registry.get(item.split('.')[-1])", expect='LOOKUP-EXACT'),
]
