"""C04 — methods receive exactly the caller's arguments plus the server-side context."""
from __future__ import annotations

import ast
from typing import Dict, List, Optional, Set, Tuple

from ..absint import _is_abstract
from ..cfg import CFG
from ..model import AnalysisError, ClassInfo, FuncInfo, Program, dotted, norm
from ..report import Check
from ..types import FuncScope, members, types_of, walk_own
from ..util import assigned_names, calls_in, classify_cond, guard_edges, short
from . import c01
from .common import V20, dispatchers, kwarg, response_ctor_calls
from .dfacts import method_call_facts, strip_await

ARGMAP = 'inspect.BoundArguments().arguments'
METHOD = 'pjrpc.server.dispatcher.Method'
BASEVAL = 'pjrpc.server.validators.base.BaseValidator'


def returns_argmap(prog: Program, f: FuncInfo, _seen: Optional[Set[str]] = None) -> Optional[ast.AST]:
    """Does f return the name->value mapping `BoundArguments.arguments` (directly, through a local, or through
    another function that does)?  Returns the originating expression or None."""
    seen = _seen or set()
    if f.qualname in seen:
        return None
    seen.add(f.qualname)
    ty = types_of(prog)
    sc = FuncScope(f, ty)
    tainted: Dict[str, ast.AST] = {}

    def expr_taint(e: ast.expr) -> Optional[ast.AST]:
        e = strip_await(e)  # type: ignore[assignment]
        if isinstance(e, ast.Attribute) and e.attr == 'arguments':
            t = ty.expr(e, sc)
            if any(m == ('ext', ARGMAP) for m in members(t)):
                return e
        if isinstance(e, ast.Name) and e.id in tainted:
            return tainted[e.id]
        if isinstance(e, ast.Call):
            if isinstance(e.func, ast.Name) and e.func.id == 'dict' and e.args:
                return expr_taint(e.args[0])
            for k, o in ty.callees(e, sc):
                if k == 'func' and isinstance(o, FuncInfo):
                    r = returns_argmap(prog, o, seen)
                    if r is not None:
                        return r
        if isinstance(e, ast.IfExp):
            return expr_taint(e.body) or expr_taint(e.orelse)
        return None
    for _ in range(3):
        for st in walk_own(f.node):
            if isinstance(st, ast.Assign) and len(st.targets) == 1 and isinstance(st.targets[0], ast.Name):
                t = expr_taint(st.value)
                if t is not None:
                    tainted[st.targets[0].id] = t
    for st in walk_own(f.node):
        if isinstance(st, ast.Return) and st.value is not None:
            t = expr_taint(st.value)
            if t is not None:
                return t
    return None


def bind_methods(prog: Program) -> List[FuncInfo]:
    base = prog.cls(METHOD)
    out = []
    for ci in prog.subclasses(base):
        b = ci.methods.get('bind')
        if b is not None:
            out.append(b)
    return out


def run(ck: Check, prog: Program) -> None:
    ck.explain('API-misuse dataflow: the name→value mapping inspect.BoundArguments.arguments (in which a *args parameter maps '
               'to a tuple and **kwargs to a dict under their own names, and positional-only parameters appear by name) must not '
               'reach a ** splat of the call of the user method; context exclusion and injection order in Method.bind / '
               'ViewMethod.bind; copy-only flow of the method\'s return value into Response(result=…); the binder is '
               'Signature.bind over the filtered signature with TypeError converted to ValidationError.')
    ck.not_decided.append('the cross product of signatures × argument lists is inspect\'s semantics; the rules decide that pjrpc hands '
                          'inspect\'s answer to the call unmodified')
    ty = types_of(prog)
    binds = bind_methods(prog)
    ck.require('BIND-SPLAT', 'bind methods', len(binds), 2)
    for b in binds:
        ck.functions.add(b.qualname)
        sc = FuncScope(b, ty)
        # ---- BIND-SPLAT --------------------------------------------------------------------------
        tainted: Dict[str, Tuple[ast.AST, FuncInfo]] = {}
        for st in walk_own(b.node):
            if isinstance(st, ast.Assign) and len(st.targets) == 1 and isinstance(st.targets[0], ast.Name) and isinstance(st.value, ast.Call):
                cands = sorted((o for k, o in ty.callees(st.value, sc) if k == 'func' and isinstance(o, FuncInfo)),
                               key=lambda o: (o.cls is None or o.cls.qualname != BASEVAL, o.qualname))
                for o in cands:
                    r = returns_argmap(prog, o)
                    if r is not None and st.targets[0].id not in tainted:
                        tainted[st.targets[0].id] = (r, o)
        splats = []
        for x in walk_own(b.node):
            if isinstance(x, ast.Call):
                for kw in x.keywords:
                    if kw.arg is None and isinstance(kw.value, ast.Name) and kw.value.id in tainted:
                        splats.append((x, kw.value.id))
        ok = not splats
        ck.ob('BIND-SPLAT', f'{short(b.qualname)}: BoundArguments.arguments does not reach a ** splat of the method call', ok,
              sample={'tainted_locals': sorted(tainted), 'validators_returning_the_mapping': sorted({short(o.qualname) for _, o in tainted.values()})})
        for call, var in splats:
            src, via = tainted[var]
            ck.finding('BIND-SPLAT', b.qualname, 'BoundArguments.arguments → ** splat of the user method call', b.module.rel, call.lineno,
                       f'`{norm(call)[:90]}` double-splats `{var}`, which is inspect.BoundArguments.arguments (returned by '
                       f'{short(via.qualname)}): a variadic parameter is passed as one keyword argument named after it '
                       f'(def f(a, **kw) gets kw={{\'kw\': {{…}}}}, def g(*args) gets a keyword `args`), and positional-only parameters '
                       f'are passed by keyword (TypeError → the call fails although a direct call would bind); `.args` / `.kwargs` must be used',
                       [f'{b.module.rel}:{call.lineno} {norm(call)}', f'mapping produced at {via.module.rel}:{getattr(src, "lineno", 0)} {norm(src)}'])
        # ---- CTX-EXCLUDED / CTX-WINS -------------------------------------------------------------
        _ctx_rules(ck, prog, b)
    _bind_strict(ck, prog)
    from . import borrow
    borrow(ck, prog, 'C14', {'VALID-ORDER', 'EXCL-AGREE'}, 'the arguments the method receives are the bound ones of this call: binding happens on every path, '
           'against the signature filtered by name wherever the context parameter stands')
    # ---- CTX-SOURCE: the context / positional settings bind() reads are those of THIS registration (instance attributes written by
    #      the constructor from its own arguments), not state shared between registrations of the same function
    from .wire import ctor_field_of_param
    mci = prog.cls('pjrpc.server.dispatcher.Method')
    fields = ctor_field_of_param(prog, mci)
    for pname in ('context', 'positional', 'method'):
        attr = fields.get(pname)
        shadow = prog.find_method(mci, pname)
        ok_src = attr == pname and shadow is None
        ck.ob('CTX-SOURCE', f'Method.{pname} is the constructor argument of this registration', ok_src)
        if not ok_src:
            where = shadow.node.lineno if shadow is not None else mci.node.lineno
            ck.finding('CTX-SOURCE', mci.qualname + '.__init__', f'Method.{pname} is not stored from the constructor argument', mci.module.rel, where,
                       f'Method.{pname} is {"computed by a property/method" if shadow is not None else "not assigned from the constructor argument"}: bind() must use the '
                       f'setting given when THIS method was registered; metadata kept on the function object is shared by every registration of '
                       f'that function (the last one wins), so the context would be excluded/injected under another registration\'s name')
    # ... and they travel with the method when a registry is merged into another: copy() rebuilds it with context= and positional=
    from ..inline import inlined_program as _inl
    from .c15 import _copy_applies_kwargs
    cprog = _inl(prog, ['pjrpc.server.dispatcher.Method.copy', 'pjrpc.server.dispatcher.ViewMethod.copy'])
    for cq in ('pjrpc.server.dispatcher.Method', 'pjrpc.server.dispatcher.ViewMethod'):
        cp = cprog.cls(cq).methods.get('copy')
        okc, whyc = _copy_applies_kwargs(cprog, cp) if cp is not None else (False, 'copy() not found')
        ck.ob('CTX-SOURCE', f'{cq.rsplit(".", 1)[-1]}.copy keeps the context / positional setting of the registration', okc, sample={'form': whyc})
        if not okc:
            ck.finding('CTX-SOURCE', cq + '.copy', 'copy drops a registration setting', 'pjrpc/server/dispatcher.py', cp.node.lineno if cp else 0,
                       f'a merged method must inject the context exactly as the original registration asked: {whyc}')
    # ---- the context the application gets is the transport's request object: every integration handler that is handed the framework's
    #      request / message object passes it to dispatch as `context` (a handler without such a parameter — flask's, which reads a
    #      global proxy — has nothing to pass)
    n_h = 0
    for f_ in prog.iter_funcs():
        if not f_.module.name.startswith('pjrpc.server.integration') or not isinstance(f_.node, (ast.FunctionDef, ast.AsyncFunctionDef)):
            continue
        dcalls = [x for x in walk_own(f_.node) if isinstance(x, ast.Call) and isinstance(x.func, ast.Attribute) and x.func.attr == 'dispatch'
                  and 'dispatcher' in norm(x.func.value)]
        if not dcalls:
            continue
        subjects = [p_.arg for p_ in f_.params if p_.arg not in ('self', 'cls', 'dispatcher') and not p_.arg.startswith('_')]
        if not subjects:
            continue
        for dc in dcalls:
            n_h += 1
            cv = kwarg(dc, 'context', 1)
            ok_c = cv is not None and dotted(cv) in subjects
            ck.functions.add(f_.qualname)
            ck.ob('CTX-SOURCE', f'{short(f_.qualname)}: the transport\'s request object is handed to dispatch as context', ok_c)
            if not ok_c:
                ck.finding('CTX-SOURCE', f_.qualname, 'dispatch called without the transport context', f_.module.rel, dc.lineno,
                           f'`{norm(dc)[:80]}` does not pass {subjects} as `context`: methods registered with a context parameter receive None '
                           f'instead of the request object of this integration')
    ck.require('CTX-SOURCE', 'integration handlers that are given the transport request', n_h, 3)
    # ---- RESULT-PASSTHRU ------------------------------------------------------------------------
    from .common import dispatcher_program
    prog = dispatcher_program(prog)
    roles = dispatchers(prog)
    interp = c01.make_interp(prog, roles)
    for r in roles:
        f3, f2 = r.handle_rpc_method, r.handle_rpc_request
        ck.functions |= {f3.qualname, f2.qualname}
        problems = []
        # H3: returns the invocation result unchanged
        mf, mprob = method_call_facts(prog, interp, r)
        # … which includes that a coroutine the method returned is awaited whenever the call produced one (decided on the value
        # returned, not on how the method was registered): otherwise the "result" is a coroutine object and the body never ran
        for rule_, construct_, line_, msg_ in mprob:
            if rule_ == 'ONCE-INVOKE':
                problems.append((line_, msg_))
        from ..flow import Flow
        cfg = CFG(f3, prog)
        fl3 = Flow(cfg)
        bound_vars: Set[str] = set()
        for st in walk_own(f3.node):
            if isinstance(st, ast.Assign) and isinstance(strip_await(st.value), ast.Call) and \
                    isinstance(strip_await(st.value).func, ast.Attribute) and strip_await(st.value).func.attr == 'bind':
                bound_vars |= {t.id for t in st.targets if isinstance(t, ast.Name)}
        for n3 in cfg.stmt_nodes():
            st = n3.ast
            if n3.kind == 'stmt' and isinstance(st, ast.Return) and st.value is not None:
                for al in fl3.alts(n3, st.value):
                    v = strip_await(al.expr)
                    if not (isinstance(v, ast.Call) and isinstance(v.func, ast.Name) and v.func.id in bound_vars and not v.args and not v.keywords):
                        problems.append((st.lineno, f'`{norm(st)}` can return `{norm(al.expr)[:60]}`, which is not the value of the invoked method unchanged'))
        # H2: the value handed to Response(result=…) is the return value of the method handler, through copies only
        cfg2 = CFG(f2, prog)
        fl2 = Flow(cfg2)
        req, ctx = f2.params[1].arg, f2.params[2].arg
        for c in response_ctor_calls(prog, f2):
            rv = kwarg(c, 'result', 1)
            from ..util import stmt_node_of
            cn = stmt_node_of(cfg2, c)
            if rv is None or cn is None:
                problems.append((c.lineno, f'`{norm(c)}` does not carry the method\'s return value as result'))
                continue
            for al in fl2.alts(cn, rv):
                v = strip_await(al.expr)
                if not (isinstance(v, ast.Call) and dotted(v.func) == f'self.{f3.name}'):
                    problems.append((c.lineno, f'`{norm(c)}` carries `{norm(al.expr)[:60]}` as result, not the method\'s return value'))
                    continue
                got = [dotted(a) for a in v.args]
                if got != [f'{req}.method', f'{req}.params', ctx]:
                    problems.append((v.lineno, f'`{norm(v)}` does not hand the request\'s own method name, params and the context to the method handler'))
        ck.ob('RESULT-PASSTHRU', f'{r.cls.name}: the method\'s return value reaches Response(result=…) through copies only', not problems)
        for line, msg in problems:
            ck.finding('RESULT-PASSTHRU', f'{r.cls.qualname}.<rpc chain>', msg[:60], f2.module.rel, line, msg)


def validate_always(ck: Check, prog: Program, b: FuncInfo, cfg: Optional[CFG] = None) -> None:
    """VALIDATE-ALWAYS: every return of bind is preceded by the validation (no fast path that skips it)."""
    cfg = cfg or CFG(b, prog)
    val_calls = [(n, c) for n in cfg.stmt_nodes() for c in calls_in(n)
                 if isinstance(c.func, ast.Attribute) and c.func.attr == 'validate_method']
    if len(val_calls) != 1:
        raise AnalysisError(f'{b.qualname}: expected one validate_method call, found {len(val_calls)}')
    vn, vc = val_calls[0]
    rets = [n for n in cfg.stmt_nodes() if isinstance(n.ast, ast.Return)]
    skipping = [r_ for r_ in rets if not cfg.dominated_by(r_, [vn])]
    # ... and inside its own statement the call is evaluated unconditionally (not an arm of a conditional expression / short-circuit)
    parents = {}
    for x in ast.walk(vn.ast):
        for ch in ast.iter_child_nodes(x):
            parents[id(ch)] = x
    cur, cond_in_stmt = vc, None
    while id(cur) in parents:
        par = parents[id(cur)]
        if isinstance(par, ast.IfExp) and par.test is not cur:
            cond_in_stmt = par.test
        if isinstance(par, ast.BoolOp) and par.values[0] is not cur:
            cond_in_stmt = par.values[0]
        cur = par
    if cond_in_stmt is not None and not skipping:
        skipping = rets[:1]
    ck.ob('VALIDATE-ALWAYS', f'{short(b.qualname)}: parameters are bound/validated on every path before the call is prepared', not skipping)
    for r_ in skipping:
        gs = [norm(g.src.ast) + ':' + g.label for g in guard_edges(cfg, vn)] + ([norm(cond_in_stmt)] if cond_in_stmt is not None else [])
        ck.finding('VALIDATE-ALWAYS', b.qualname, 'validation skipped on some path', b.module.rel, vn.line,
                   f'`{norm(vc)[:70]}` only runs under {gs}: on the other path the method is called without binding its parameters, so a call '
                   f'that a direct Python call could not bind (e.g. a missing required argument with empty params) runs the body / is reported '
                   f'as -32000 instead of -32602')


def _ctx_rules(ck: Check, prog: Program, b: FuncInfo) -> None:
    is_view = b.cls is not None and b.cls.name != 'Method'
    ctx_param = b.params[2].arg if len(b.params) > 2 else 'context'
    cfg = CFG(b, prog)
    val_calls = [(n, c) for n in cfg.stmt_nodes() for c in calls_in(n)
                 if isinstance(c.func, ast.Attribute) and c.func.attr == 'validate_method']
    if len(val_calls) != 1:
        raise AnalysisError(f'{b.qualname}: expected one validate_method call, found {len(val_calls)}')
    vn, vc = val_calls[0]
    validate_always(ck, prog, b, cfg)
    # PARAMS-UNMODIFIED: the client's params reach the validator exactly as received
    pparam = b.params[1].arg
    passed = dotted(vc.args[1]) if len(vc.args) > 1 else (dotted(kwarg(vc, 'params')) if kwarg(vc, 'params') is not None else None)
    touched = []
    for n in cfg.stmt_nodes():
        if pparam in assigned_names(n) or any(d_ and d_.startswith(pparam + '[') for d_ in []):
            touched.append((n.line, norm(n.ast)[:70]))
        for c in calls_in(n):
            if isinstance(c.func, ast.Attribute) and dotted(c.func.value) == pparam and c.func.attr in ('pop', 'update', 'clear', 'setdefault', 'popitem', 'remove', 'append', 'insert', 'extend'):
                touched.append((n.line, norm(c)[:70]))
        if isinstance(n.ast, ast.Delete) and any((dotted(getattr(t, 'value', t)) or '') == pparam for t in n.ast.targets):
            touched.append((n.line, norm(n.ast)[:70]))
        if isinstance(n.ast, ast.Assign) and any(isinstance(t, ast.Subscript) and dotted(t.value) == pparam for t in n.ast.targets):
            touched.append((n.line, norm(n.ast)[:70]))
    okp = passed == pparam and not touched
    ck.ob('PARAMS-UNMODIFIED', f'{short(b.qualname)}: the request params reach validate_method exactly as received', okp)
    if not okp:
        ck.finding('PARAMS-UNMODIFIED', b.qualname, 'request params altered before binding', b.module.rel, touched[0][0] if touched else vc.lineno,
                   f'the params handed to validate_method are `{passed}` after {touched or "a rewrite"}: members the client sent are dropped or '
                   f'changed before binding, so a call that a direct Python call could not bind (an unknown / the context name supplied by the '
                   f'client, an explicit null) is accepted, or a bindable one is refused')
    partials = [(n, c) for n in cfg.stmt_nodes() for c in calls_in(n) if dotted(c.func) in ('ft.partial', 'functools.partial', 'partial')]
    if not partials:
        raise AnalysisError(f'{b.qualname}: no functools.partial call found (the prepared call is not recognised)')
    # BOUND-UNMODIFIED: the mapping validate_method returned is what the call is prepared with; after validation it may only
    # receive the server context under the context name
    from ..util import canon_dotted as _cd
    vvar = list(assigned_names(vn))[0] if assigned_names(vn) else None
    altered = []
    if vvar is not None:
        for n in cfg.stmt_nodes():
            if n is vn or n.id not in cfg.reachable(vn):
                continue
            a = n.ast
            if vvar in assigned_names(n):
                altered.append((n.line, f'`{norm(a)[:80]}` rebuilds the validated arguments'))
            if n.kind == 'stmt' and isinstance(a, ast.Assign) and isinstance(a.targets[0], ast.Subscript) and dotted(a.targets[0].value) == vvar and \
                    _cd(b, a.targets[0].slice) != 'self.context':
                altered.append((n.line, f'`{norm(a)[:80]}` writes another member into the validated arguments'))
            if isinstance(a, ast.Delete) and any(dotted(getattr(t, 'value', t)) == vvar for t in a.targets):
                altered.append((n.line, f'`{norm(a)[:80]}` removes a validated argument'))
            for c in calls_in(n):
                if isinstance(c.func, ast.Attribute) and dotted(c.func.value) == vvar and c.func.attr in ('pop', 'update', 'clear', 'setdefault', 'popitem'):
                    altered.append((n.line, f'`{norm(c)[:80]}` alters the validated arguments'))
    ck.ob('PARAMS-UNMODIFIED', f'{short(b.qualname)}: the validated arguments reach the prepared call unchanged (apart from the injected context)', not altered)
    for line, why in altered:
        ck.finding('PARAMS-UNMODIFIED', b.qualname, why[:70], b.module.rel, line,
                   f'{why}: what the method receives is no longer what was validated (an explicit null is dropped and a default applies, a '
                   f'required argument disappears, ...), so a conforming call is not executed with exactly its arguments')
    m_arg = dotted(vc.args[0]) if vc.args else None
    if not is_view:
        from .c17 import exclude_expr
        ex = kwarg(vc, 'exclude', 2)
        form = exclude_expr(vc, 2, prog, b)
        ok = form == '{<method>.context} iff set'
        ck.ob('CTX-EXCLUDED', f'{short(b.qualname)}: the context name is excluded from client-bindable parameters', ok, sample={'exclude': form})
        if not ok:
            if ex is None or 'self.context' not in norm(ex):
                ck.finding('CTX-EXCLUDED', b.qualname, 'context parameter not excluded from binding', b.module.rel, vc.lineno,
                           f'`{norm(vc)[:90]}` does not pass exclude=(self.context,): the client could supply or override the context parameter, '
                           f'and a call that omits it would be refused')
            else:
                ck.finding('CTX-EXCLUDED', b.qualname, 'exclusion condition', b.module.rel, vc.lineno,
                           f'exclude is `{norm(ex)}`: it must be a one-element collection holding the context name when a context is configured '
                           f'and an empty collection otherwise (a bare string makes the membership test a substring test: parameters whose names '
                           f'are substrings of the context name are refused; an unconditional collection excludes a parameter literally named None)')
        # method validated and method called are the same object (every prepared call)
        bad_sig = [(pn, pc) for pn, pc in partials if (dotted(pc.args[0]) if pc.args else None) != m_arg or m_arg is None]
        ck.ob('SIG-SAME', f'{short(b.qualname)}: the validated callable is the callable that is invoked', not bad_sig)
        for pn, pc in bad_sig:
            ck.finding('SIG-SAME', b.qualname, 'validated and invoked callables differ', b.module.rel, pc.lineno,
                       f'validate_method is given `{m_arg}` but `{dotted(pc.args[0]) if pc.args else None}` is what gets called')
        # CTX-WINS: the server context is injected after validation, into the validated mapping by name or as the first positional
        # argument, exactly when a context is configured: positional iff self.positional.  Decided on injection EVENTS and the
        # conditions (guards) under which each happens, whatever statement or expression form carries them.
        from ..flow import Flow, expand_flag_guards
        from ..util import canon_dotted
        fl = Flow(cfg)
        val_var = list(assigned_names(vn))[0] if assigned_names(vn) else None

        def gstate(guards):
            """(configured?, positional?, other guards) established by a guard list."""
            conf = pos = None
            extra = []
            for c, pol in expand_flag_guards(b, guards):
                k = classify_cond(prog, b, c)
                if k.subject == 'self.context' and k.kind in ('truthy', 'is-none'):
                    v = ((not k.negated) == pol) if k.kind == 'truthy' else (k.negated == pol)
                    conf = v if conf is None else (conf and v)
                elif k.subject == 'self.positional' and k.kind == 'truthy':
                    pos = (not k.negated) == pol
                else:
                    extra.append(('' if pol else 'not ') + norm(c))
            return conf, pos, extra
        events = []       # (kind, node, guards, detail)
        for n in cfg.stmt_nodes():
            a = n.ast
            g_n = [(g.src.ast, g.label == 'T') for g in guard_edges(cfg, n)]
            if n.kind == 'stmt' and isinstance(a, ast.Assign) and isinstance(a.targets[0], ast.Subscript) and \
                    canon_dotted(b, a.targets[0].slice) == 'self.context' and dotted(a.value) == ctx_param:
                events.append(('by-name', n, g_n, dotted(a.targets[0].value)))
            for c in calls_in(n):
                if isinstance(c.func, ast.Attribute) and c.func.attr in ('append', 'insert') and c.args and dotted(c.args[-1]) == ctx_param:
                    events.append(('positional', n, g_n, dotted(c.func.value)))
        first_pos_ok = True
        for pn, pc in partials:
            g_p = [(g.src.ast, g.label == 'T') for g in guard_edges(cfg, pn)]
            for i, a_ in enumerate(pc.args):
                if dotted(a_) == ctx_param:
                    events.append(('positional', pn, g_p, f'<arg {i}>'))
                    if i != 1:
                        first_pos_ok = False
                elif isinstance(a_, ast.Starred):
                    for al in fl.alts(pn, a_.value):
                        v = al.expr
                        if isinstance(v, (ast.Tuple, ast.List)) and any(dotted(x) == ctx_param for x in v.elts):
                            events.append(('positional', pn, al.guards, norm(v)))
                            if i != 1 or dotted(v.elts[0]) != ctx_param:
                                first_pos_ok = False
                    if i != 1 and any(k == 'positional' and d == dotted(a_.value) for k, _, _, d in events):
                        first_pos_ok = False
        kinds = {k for k, _, _, _ in events}
        ok = kinds == {'by-name', 'positional'}
        order_ok = all(n.id in cfg.reachable(vn) or any(n is pn for pn, _ in partials) for _, n, _, _ in events) and \
            all(any(pn.id in cfg.reachable(n) or pn is n for pn, _ in partials) for _, n, _, _ in events)
        target_ok = all((d == val_var) for k, _, _, d in events if k == 'by-name')
        cond_problems = []
        for k, n, gs, d in events:
            conf, pos, extra = gstate(gs)
            want_pos = (k == 'positional')
            if conf is not True:
                cond_problems.append((n, f'the {k} injection is not conditional on a configured context (self.context)'))
            elif pos is not want_pos:
                cond_problems.append((n, f'the {k} injection happens when self.positional is {pos}'))
            elif extra:
                cond_problems.append((n, f'the {k} injection additionally depends on {extra}: with a configured context the server context '
                                         f'must always be injected'))
        # every prepared call splats the validated mapping
        kw_ok = all(any(k_.arg is None and dotted(k_.value) == val_var for k_ in pc.keywords) for _, pc in partials)
        ck.ob('CTX-WINS', f'{short(b.qualname)}: the server context is injected after the client mapping is built (by name or first positional)',
              ok and order_ok and target_ok and not cond_problems and first_pos_ok and kw_ok,
              sample={'injections': sorted(kinds), 'prepared_calls': len(partials)})
        if not ok:
            ck.finding('CTX-WINS', b.qualname, f'context injection modes {sorted(kinds)}', b.module.rel, b.node.lineno,
                       'Method.bind must inject the server context by name (kwargs[self.context] = context) or as first positional argument')
        elif not order_ok or not target_ok or not kw_ok:
            ck.finding('CTX-WINS', b.qualname, 'context injected before the client arguments are merged', b.module.rel, events[0][1].line,
                       'the server context must be written after (over) the client-derived mapping, otherwise a client-supplied value wins')
        else:
            for n, why in cond_problems:
                ck.finding('CTX-WINS', b.qualname, why[:70], b.module.rel, n.line,
                           f'{why}; required: by name iff a context is configured and not positional, as first positional argument iff configured and positional')
            if not first_pos_ok:
                ck.finding('CTX-WINS', b.qualname, 'positional context not first', b.module.rel, partials[0][1].lineno,
                           'the positional context must be the first positional argument of the prepared call')
    else:
        # ViewMethod: context goes to the view constructor; the bound method of that instance is validated and called
        ctor = [c for n in cfg.stmt_nodes() for c in calls_in(n) if dotted(c.func) == 'self.view_cls']
        with_ctx = [c for c in ctor if c.args and dotted(c.args[0]) == ctx_param]
        ok = bool(with_ctx)
        ck.ob('CTX-WINS', f'{short(b.qualname)}: the context reaches the view constructor', ok)
        if not ok:
            ck.finding('CTX-WINS', b.qualname, 'context not passed to the view constructor', b.module.rel, b.node.lineno,
                       'a class-based view configured with a context must receive it through its constructor')
        bad_sig = [(pn, pc) for pn, pc in partials if (dotted(pc.args[0]) if pc.args else None) != m_arg or m_arg is None]
        ck.ob('SIG-SAME', f'{short(b.qualname)}: the validated callable is the callable that is invoked', not bad_sig)
        for pn, pc in bad_sig:
            ck.finding('SIG-SAME', b.qualname, 'validated and invoked callables differ', b.module.rel, pc.lineno,
                       f'validate_method is given `{m_arg}` but `{dotted(pc.args[0]) if pc.args else None}` is what gets called')


def bind_result_untouched(prog: Program, b: FuncInfo, cfg: CFG, bind_call: ast.Call) -> List[Tuple[int, str]]:
    """BaseValidator.bind returns exactly what inspect.Signature.bind produced: every return value is that call (through
    locals), and the object (or its .arguments mapping) is not written to."""
    from ..flow import Flow
    fl = Flow(cfg)
    out: List[Tuple[int, str]] = []
    holders: Set[str] = set()
    for n in cfg.stmt_nodes():
        a = n.ast
        if n.kind == 'stmt' and isinstance(a, ast.Return) and a.value is not None:
            for al in fl.alts(n, a.value):
                if al.expr is not bind_call:
                    out.append((n.line, f'bind() can return `{norm(al.expr)[:60]}`, which is not the result of Signature.bind'))
                holders |= set(al.names)
    for n in cfg.stmt_nodes():
        for frag in ([n.ast] if n.kind == 'stmt' and n.ast is not None else []):
            for x in ast.walk(frag):
                tgt = None
                what = ''
                if isinstance(x, (ast.Subscript, ast.Attribute)) and isinstance(x.ctx, (ast.Store, ast.Del)):
                    tgt, what = x.value, 'store'
                elif isinstance(x, ast.Call) and isinstance(x.func, ast.Attribute) and x.func.attr in (
                        'apply_defaults', 'update', 'setdefault', 'pop', 'clear', 'popitem', '__setitem__', '__delitem__'):
                    tgt, what = x.func.value, f'.{x.func.attr}()'
                if tgt is None:
                    continue
                root = tgt
                while isinstance(root, (ast.Attribute, ast.Subscript)):
                    root = root.value
                if isinstance(root, ast.Name) and root.id in holders:
                    out.append((getattr(x, 'lineno', n.line), f'`{norm(x)[:70]}` modifies the bound arguments after binding ({what}): values the client never '
                                f'sent (e.g. defaults of omitted parameters) are then validated and passed on, so a conforming call can be refused '
                                f'and the method does not receive exactly the caller\'s arguments'))
    return out


def _bind_strict(ck: Check, prog: Program) -> None:
    bv = prog.cls(BASEVAL)
    b = bv.methods.get('bind')
    vm = bv.methods.get('validate_method')
    if b is None or vm is None:
        raise AnalysisError('BaseValidator.bind / validate_method not found')
    ck.functions |= {b.qualname, vm.qualname}
    cfg = CFG(b, prog)
    sig_param = b.params[1].arg
    par_param = b.params[2].arg
    calls = [(n, c) for n in cfg.stmt_nodes() for c in calls_in(n) if isinstance(c.func, ast.Attribute) and dotted(c.func.value) == sig_param]
    problems = []
    if len(calls) != 1 or calls[0][1].func.attr != 'bind':
        problems.append((b.node.lineno, f'the binder must be inspect.Signature.bind on the filtered signature; found '
                         f'{[norm(c)[:50] for _, c in calls]} (bind_partial would accept missing arguments)'))
    else:
        n, c = calls[0]
        stars = [a.value for a in c.args if isinstance(a, ast.Starred)]
        dstars = [kw.value for kw in c.keywords if kw.arg is None]
        if len(stars) != 1 or len(dstars) != 1 or len(c.args) != 1 or len(c.keywords) != 1:
            problems.append((c.lineno, f'`{norm(c)}` must star-splat the positional list and double-splat the named mapping, nothing else'))
        else:
            # value flow: what is splatted is the client's params on the paths where it has the matching container type,
            # an empty container otherwise (conditional expression or default + override alike)
            from ..flow import Flow
            fl = Flow(cfg)

            def shape(e: ast.expr, kinds: Set[str]) -> Tuple[bool, str]:
                alts = fl.alts(n, e)
                seen_param = seen_empty = False
                for al in alts:
                    v = al.expr
                    tests = []
                    for c_, pol in al.guards:
                        if isinstance(c_, ast.Call) and dotted(c_.func) == 'isinstance' and len(c_.args) == 2 and dotted(c_.args[0]) == par_param:
                            tp = c_.args[1]
                            tests.append(({dotted(x) for x in (tp.elts if isinstance(tp, ast.Tuple) else [tp])}, pol))
                    if dotted(v) == par_param:
                        if not any(names and names <= kinds and pol for names, pol in tests):
                            return False, f'`{par_param}` is splatted without having been tested to be {sorted(kinds)}'
                        seen_param = True
                    elif isinstance(v, (ast.Tuple, ast.List, ast.Dict)) and not getattr(v, 'elts', getattr(v, 'keys', [])):
                        disjoint_builtin = {'list', 'tuple', 'dict', 'str', 'bytes', 'set', 'frozenset', 'float'}
                        # ... or `params` was positively tested to be of another builtin container type (these have no common instances)
                        excluded_by_other = any(names and pol and names <= disjoint_builtin and kinds <= disjoint_builtin and not (names & kinds)
                                                for names, pol in tests)
                        if not excluded_by_other and not any(names and names <= kinds and not pol for names, pol in tests):
                            return False, f'the empty default `{norm(v)}` is used although `{par_param}` may be {sorted(kinds)}'
                        seen_empty = True
                    else:
                        return False, f'`{norm(v)[:60]}` is neither `{par_param}` nor an empty container'
                return (seen_param and seen_empty), ' | '.join(al.text()[:60] for al in alts)
            def shape_by_type(e: ast.expr, kinds: Set[str]) -> Optional[bool]:
                """Second reading, for `default; if isinstance(...): override` forms: per container type of the params, resolve every
                type test on them and see which assignment of the splatted local reaches the bind call on the remaining paths."""
                if not isinstance(e, ast.Name):
                    return None
                var = e.id
                defs = [m for m in cfg.stmt_nodes() if m.kind == 'stmt' and isinstance(m.ast, (ast.Assign, ast.AnnAssign)) and
                        var in assigned_names(m)]
                if not defs:
                    return None

                def value_of(m) -> Optional[ast.expr]:
                    a = m.ast
                    if isinstance(a, ast.AnnAssign):
                        return a.value
                    tg = a.targets[0]
                    if isinstance(tg, ast.Name):
                        return a.value
                    if isinstance(tg, (ast.Tuple, ast.List)) and isinstance(a.value, (ast.Tuple, ast.List)) and len(tg.elts) == len(a.value.elts):
                        for t_, v_ in zip(tg.elts, a.value.elts):
                            if isinstance(t_, ast.Name) and t_.id == var:
                                return v_
                    return None
                for tag in ('list', 'tuple', 'dict', 'NoneType', 'str'):
                    avoid = []
                    for c_ in cfg.nodes:
                        if c_.kind != 'cond':
                            continue
                        t_, neg = c_.ast, False
                        while isinstance(t_, ast.UnaryOp) and isinstance(t_.op, ast.Not):
                            t_, neg = t_.operand, not neg
                        truth = None
                        if isinstance(t_, ast.Call) and dotted(t_.func) == 'isinstance' and len(t_.args) == 2 and dotted(t_.args[0]) == par_param:
                            tp = t_.args[1]
                            names = {dotted(x) for x in (tp.elts if isinstance(tp, ast.Tuple) else [tp])}
                            if names <= {'list', 'tuple', 'dict', 'str', 'bytes', 'set', 'frozenset', 'float', 'int'}:
                                truth = tag in names
                        elif isinstance(t_, ast.Compare) and len(t_.ops) == 1 and isinstance(t_.ops[0], (ast.Is, ast.IsNot)) and \
                                dotted(t_.left) == par_param and isinstance(t_.comparators[0], ast.Constant) and t_.comparators[0].value is None:
                            truth = (tag == 'NoneType') == isinstance(t_.ops[0], ast.Is)
                        if truth is None:
                            continue
                        taken = truth != neg
                        avoid += [ed for ed in cfg.succ[c_.id] if ed.label in ('T', 'F') and (ed.label == 'T') != taken]
                    feasible = cfg.reachable(cfg.entry, avoid_edges=avoid)
                    if n.id not in feasible:
                        continue
                    reaching = [d for d in defs if d.id in feasible and
                                (n.id in cfg.reachable(d, avoid_nodes=[x for x in defs if x is not d], avoid_edges=avoid))]
                    for d in reaching:
                        v = value_of(d)
                        is_param = v is not None and dotted(v) == par_param
                        is_empty = isinstance(v, (ast.Tuple, ast.List, ast.Dict)) and not getattr(v, 'elts', getattr(v, 'keys', []))
                        if tag in kinds and not is_param or tag not in kinds and not is_empty:
                            return False
                    if not reaching:
                        return False
                return True
            okp, whyp = shape(stars[0], {'list', 'tuple'})
            if not okp and shape_by_type(stars[0], {'list', 'tuple'}):
                okp = True
            if not okp:
                problems.append((c.lineno, f'positional arguments must be `params if isinstance(params, (list, tuple)) else ()`, found {whyp}'))
            okk, whyk = shape(dstars[0], {'dict'})
            if not okk and shape_by_type(dstars[0], {'dict'}):
                okk = True
            if not okk:
                problems.append((c.lineno, f'named arguments must be `params if isinstance(params, dict) else {{}}`, found {whyk}'))
        # the BoundArguments object is handed back as Signature.bind made it: no defaults filled in, nothing added or removed
        problems += bind_result_untouched(prog, b, cfg, c)
        # nothing else in bind() may rewrite the params (e.g. dropping null members)
        for st in walk_own(b.node):
            if isinstance(st, (ast.DictComp, ast.ListComp)) and par_param in {y.id for y in ast.walk(st) if isinstance(y, ast.Name)}:
                problems.append((st.lineno, f'`{norm(st)[:70]}` rebuilds the params before binding: members can be dropped or changed (e.g. explicit null '
                                 f'treated as absent), so the method does not receive exactly the caller\'s arguments'))
        # TypeError -> ValidationError
        from ..absint import EMPTY_ENV, Interp
        it = Interp(prog)
        res = it.analyze(b, {EMPTY_ENV}, recv=BASEVAL)
        esc = res.raised_classes()
        if 'TypeError' in esc or not any(x.endswith('ValidationError') for x in esc):
            problems.append((b.node.lineno, f'a binding failure (TypeError of Signature.bind) must be converted to ValidationError; escaping classes: {sorted(esc)}'))
    # validate_method binds against the filtered signature
    sig_calls = [x for x in walk_own(vm.node) if isinstance(x, ast.Call) and dotted(x.func) == 'self.signature']
    bind_calls = [x for x in walk_own(vm.node) if isinstance(x, ast.Call) and dotted(x.func) == 'self.bind']
    if len(sig_calls) != 1 or len(bind_calls) != 1:
        problems.append((vm.node.lineno, 'validate_method must bind the parameters against self.signature(method, exclude)'))
    else:
        sv = None
        for st in walk_own(vm.node):
            if isinstance(st, ast.Assign) and st.value is sig_calls[0] and isinstance(st.targets[0], ast.Name):
                sv = st.targets[0].id
        if not bind_calls[0].args or dotted(bind_calls[0].args[0]) != sv:
            problems.append((vm.node.lineno, 'the signature handed to bind() is not the filtered signature'))
    # the filtered signature keeps the remaining parameters AS THEY ARE (kind, default, annotation): only then does binding accept
    # exactly what a direct Python call accepts
    from .c17 import keep_formula
    sgf = bv.methods.get('signature')
    if sgf is not None:
        forms = keep_formula(prog, sgf) or set()
        for fm in sorted(x for x in forms if x.startswith('parameter-rewritten:')):
            problems.append((sgf.node.lineno, f'signature() rewrites a kept parameter (`{fm.split(":", 1)[1]}`): the binder then accepts calls a direct Python call '
                             f'cannot make (e.g. a keyword-only parameter filled from a positional list) or refuses ones it can'))
    if sgf is not None:
        from .c17 import exclusion_source_problems
        for line_, txt_ in exclusion_source_problems(prog, sgf):
            problems.append((line_, txt_ + ': a parameter can then be stripped from (or left in) the signature because of another registration '
                             'of the same function, so a call that binds is refused with -32602 or the context name becomes settable'))
    if sgf is not None:
        from .c17 import rewritten_parameters
        for line_, txt_ in rewritten_parameters(prog, sgf):
            problems.append((line_, f'signature() rewrites a kept parameter (`{txt_}`): the binder then accepts calls a direct Python call '
                             f'cannot make (e.g. a keyword-only parameter filled from a positional list) or refuses ones it can'))
    # the filtered signature is a pure function of (method, exclude): a hand-rolled cache must key on both
    for sig in [m_ for m_ in (bv.methods.get('signature'), bv.methods.get('validate_method')) if m_ is not None]:
        ck.functions.add(sig.qualname)
        pnames = [p_.arg for p_ in sig.params[1:] if p_.arg in ('method', 'exclude')]
        local_defs = {}
        for st in walk_own(sig.node):
            if isinstance(st, ast.Assign) and len(st.targets) == 1 and isinstance(st.targets[0], ast.Name):
                local_defs[st.targets[0].id] = st.value
        for x in walk_own(sig.node):
            key = None
            if isinstance(x, ast.Subscript) and dotted(x.value) and dotted(x.value).startswith('self.'):
                key = x.slice
            elif isinstance(x, ast.Call) and isinstance(x.func, ast.Attribute) and x.func.attr in ('get', 'setdefault', 'pop') and \
                    dotted(x.func.value) and dotted(x.func.value).startswith('self.') and x.args:
                key = x.args[0]
            if key is not None and isinstance(key, ast.Name) and key.id in local_defs:
                key = local_defs[key.id]
            if key is not None:
                # a parameter counts only when it is part of the key as a whole object (bare name, tuple(name), frozenset(name)):
                # attributes of it (method.__qualname__, method.__name__) identify it only up to collisions
                attr_bases = {id(y.value) for y in ast.walk(key) if isinstance(y, ast.Attribute)}
                for y in ast.walk(key):     # getattr(method, '__qualname__', method) is attribute access as well
                    if isinstance(y, ast.Call) and dotted(y.func) == 'getattr':
                        attr_bases |= {id(a_) for a_ in y.args}
                used = {y.id for y in ast.walk(key) if isinstance(y, ast.Name) and id(y) not in attr_bases}
                missing = [p_ for p_ in pnames if p_ not in used]
                if missing:
                    problems.append((x.lineno, f'`{norm(x)[:60]}` caches the filtered signature under a key that does not contain {missing} itself: '
                                     f'two different functions (same qualified name) or two exclusion sets share one cached signature, so '
                                     f'parameters that do not bind are accepted (the body runs / -32000 instead of -32602), the context parameter stops '
                                     f'being excluded, or a bindable call is refused'))
    ck.ob('BIND-STRICT', 'BaseValidator binds with Signature.bind over the filtered signature; TypeError → ValidationError', not problems)
    for line, msg in problems:
        ck.finding('BIND-STRICT', b.qualname, msg[:60], b.module.rel, line, msg)


MUTANTS = [
    dict(name='copy-drops-positional', file='pjrpc/server/dispatcher.py', nth=0,
         find='cls_kwargs = dict(name=self.name, context=self.context, positional=self.positional)',
         replace='cls_kwargs = dict(name=self.name, context=self.context)', expect='CTX-SOURCE'),
    dict(name='exclusion-extended-from-function-metadata', file='pjrpc/server/validators/base.py',
         find='        signature = inspect.signature(method)\n',
         replace="        signature = inspect.signature(method)\n        exclude = (*exclude, utils.get_meta(method).get('context_name'))\n", expect='BIND-STRICT'),
    dict(name='drop-exclude', file='pjrpc/server/dispatcher.py', find='self.method, params, exclude=(self.context,) if self.context else (), **self.validator_args,',
         replace='self.method, params, **self.validator_args,', expect='CTX-EXCLUDED'),
    dict(name='context-before-merge', file='pjrpc/server/dispatcher.py',
         find='''        method_kwargs = self.validator.validate_method(
            self.method, params, exclude=(self.context,) if self.context else (), **self.validator_args,
        )

        if self.context is not None:
            if self.positional:
                method_args.append(context)
            else:
                method_kwargs[self.context] = context
''',
         replace='''        injected = {}
        if self.context is not None:
            if self.positional:
                method_args.append(context)
            else:
                injected[self.context] = context
        method_kwargs = self.validator.validate_method(
            self.method, params, exclude=(self.context,) if self.context else (), **self.validator_args,
        )
        method_kwargs = {**injected, **method_kwargs}
''', expect='CTX-WINS'),
    dict(name='post-process-result', file='pjrpc/server/dispatcher.py', nth=0,
         find='        return self._response_class(id=request.id, result=result)', replace='        return self._response_class(id=request.id, result=result or None)',
         expect='RESULT-PASSTHRU'),
    dict(name='bind_partial', file='pjrpc/server/validators/base.py', find='return signature.bind(*method_args, **method_kwargs)',
         replace='return signature.bind_partial(*method_args, **method_kwargs)', expect='BIND-STRICT'),
    dict(name='typeerror-escapes', file='pjrpc/server/validators/base.py', find='        except TypeError as e:\n            raise ValidationError(str(e)) from e',
         replace='        except AttributeError as e:\n            raise ValidationError(str(e)) from e', expect='BIND-STRICT'),
    dict(name='view-without-context', file='pjrpc/server/dispatcher.py', find='view = self.view_cls(context) if self.context else self.view_cls()',
         replace='view = self.view_cls()', expect='CTX-WINS'),
    dict(name='validate-class-attr-call-instance', file='pjrpc/server/dispatcher.py',
         find='        method_params = self.validator.validate_method(method, params, **self.validator_args)',
         replace='        method_params = self.validator.validate_method(self.method, params, **self.validator_args)', expect='SIG-SAME'),
    dict(name='params-swapped-method-name', file='pjrpc/server/dispatcher.py', nth=1,
         find='self._handle_rpc_method(request.method, request.params, context)', replace='self._handle_rpc_method(request.method, request.params or [], context)',
         expect='RESULT-PASSTHRU'),
]
