"""C18 — HTTP integrations relay the dispatcher's verdict unchanged."""
from __future__ import annotations

import ast
from typing import Any, Dict, List, Optional, Tuple

from ..absint import EMPTY_ENV, Config, Interp
from ..cfg import CFG, Node
from ..model import AnalysisError, ClassInfo, FuncInfo, Program, dotted, norm
from ..report import Check
from ..types import FuncScope, members, types_of, walk_own
from ..util import assigned_names, calls_in, classify_cond, const_value, guard_edges, short

INTEGRATIONS = {
    'aiohttp': ('pjrpc.server.integration.aiohttp.Application', None),
    'flask': ('pjrpc.server.integration.flask.JsonRPC', None),
    'werkzeug': ('pjrpc.server.integration.werkzeug.JsonRPC', 'wsgi_app'),
    # not installed in the sandbox: nothing can be run against them, but their handlers are read like the others
    'django': ('pjrpc.server.integration.django.sites.JsonRPCSite', None),
    'starlette': ('pjrpc.server.integration.starlette.Application', None),
}

# framework accessor table (trusted base; re-derived from the installed framework sources in the thorough tier)
ACCESSORS = {
    ('aiohttp', 'content_type'): 'media-type',       # aiohttp.web.BaseRequest.content_type: parsed, parameter-free
    ('werkzeug', 'mimetype'): 'media-type',          # werkzeug.sansio.Request.mimetype: parameter-free, lower-cased
    ('werkzeug', 'content_type'): 'raw-header',      # werkzeug: the header as sent, including "; charset=…"
    ('flask', 'mimetype'): 'media-type',
    ('flask', 'content_type'): 'raw-header',
    ('flask', 'is_json'): 'json-predicate',          # only application/json and application/*+json
    ('werkzeug', 'is_json'): 'json-predicate',
    ('django', 'content_type'): 'media-type',        # django.http.HttpRequest.content_type: parse_header_parameters(): parameter-free, lower-cased
}
REFUSALS = {'aiohttp.web.HTTPUnsupportedMediaType': 415, 'werkzeug.exceptions.UnsupportedMediaType': 415}
BADREQ = {'aiohttp.web.HTTPBadRequest': 400, 'werkzeug.exceptions.BadRequest': 400, 'django.http.HttpResponseBadRequest': 400,
          'django.http.response.HttpResponseBadRequest': 400}
# reply constructors: which keyword carries the body / the status / the content type (a keyword the constructor does not have is a TypeError)
REPLY_KW = {
    'aiohttp': (('text', 'body'), ('status',), ('content_type',)),
    'flask': (('response',), ('status',), ('mimetype', 'content_type')),
    'werkzeug': (('response',), ('status',), ('mimetype', 'content_type')),
    'django': (('content',), ('status',), ('content_type',)),
    'starlette': (('content',), ('status_code',), ('media_type',)),
}
# status-carrying generic classes: the code is the first argument / the status keyword
GENERIC_STATUS = {'starlette.exceptions.HTTPException': ('status_code', 0), 'django.http.HttpResponse': ('status', None),
                  'django.http.response.HttpResponse': ('status', None), 'starlette.responses.Response': ('status_code', None)}


def status_of(prog: Program, f: FuncInfo, st: ast.AST) -> Optional[int]:
    """The HTTP status a `raise X(...)` / `return X(...)` statement answers with, when it can be read off the statement."""
    e = st.exc if isinstance(st, ast.Raise) else st.value if isinstance(st, ast.Return) else None
    if e is None:
        return None
    ent = prog.resolve(f.module, e.func if isinstance(e, ast.Call) else e)
    name = prog.exc_name(ent) or (ent if isinstance(ent, str) else None)
    if name in REFUSALS:
        return REFUSALS[name]
    if name in BADREQ:
        return BADREQ[name]
    if name in GENERIC_STATUS and isinstance(e, ast.Call):
        kw, pos = GENERIC_STATUS[name]
        v = next((k.value for k in e.keywords if k.arg == kw), None)
        if v is None and pos is not None and len(e.args) > pos:
            v = e.args[pos]
        code = _int_const(v)
        if code is not None:
            return code
        return 200 if v is None and isinstance(st, ast.Return) else None
    return None


def _int_const(v: Optional[ast.expr]) -> Optional[int]:
    """an integer literal, or a member of http.HTTPStatus (with or without `.value`) — the standard library's names for the codes"""
    if isinstance(v, ast.Constant) and isinstance(v.value, int) and not isinstance(v.value, bool):
        return v.value
    d = dotted(v) if v is not None else None
    if d:
        parts = d.split('.')
        if parts[-1] == 'value':
            parts = parts[:-1]
        if len(parts) >= 2 and parts[-2] == 'HTTPStatus':
            import http
            m = getattr(http.HTTPStatus, parts[-1], None)
            return int(m) if m is not None else None
    return None


def handler_of(prog: Program, ci: ClassInfo) -> FuncInfo:
    ty = types_of(prog)
    cands = []
    for m in ci.methods.values():
        for x in walk_own(m.node):
            if isinstance(x, ast.Call) and isinstance(x.func, ast.Attribute) and x.func.attr == 'dispatch':
                cands.append(m)
                break
    if len(cands) != 1:
        raise AnalysisError(f'{ci.qualname}: expected one request handler calling dispatch(), found {[c.name for c in cands]}')
    return cands[0]


def _strip_not(e: ast.expr) -> ast.expr:
    while isinstance(e, ast.UnaryOp) and isinstance(e.op, ast.Not):
        e = e.operand
    return e


def late_bound_closures(prog: Program, ci: ClassInfo) -> List[Tuple[FuncInfo, ast.AST, str]]:
    """Lambdas / nested functions created inside a loop that read the loop variable when CALLED (late binding): every
    closure created by the loop ends up using the value of the last iteration."""
    out = []
    for m in ci.methods.values():
        for loop in [x for x in walk_own(m.node) if isinstance(x, (ast.For, ast.AsyncFor))]:
            targets = {y.id for y in ast.walk(loop.target) if isinstance(y, ast.Name)}
            # variables assigned in the loop body are rebound every iteration as well
            for st in loop.body:
                for y in ast.walk(st):
                    if isinstance(y, ast.Name) and isinstance(y.ctx, ast.Store):
                        targets.add(y.id)
            for st in loop.body:
                for y in ast.walk(st):
                    if isinstance(y, ast.Lambda):
                        bound = {a.arg for a in y.args.args + y.args.kwonlyargs} | ({y.args.vararg.arg} if y.args.vararg else set()) | \
                            ({y.args.kwarg.arg} if y.args.kwarg else set())
                        free = {z.id for z in ast.walk(y.body) if isinstance(z, ast.Name) and isinstance(z.ctx, ast.Load)} - bound
                        # default-argument capture (lambda d=dispatcher: …) is early binding and fine
                        hit = sorted(free & targets)
                        if hit:
                            out.append((m, y, ', '.join(hit)))
                    elif isinstance(y, (ast.FunctionDef, ast.AsyncFunctionDef)) and y is not m.node:
                        bound = {a.arg for a in y.args.args + y.args.kwonlyargs}
                        stores = {z.id for z in ast.walk(y) if isinstance(z, ast.Name) and isinstance(z.ctx, ast.Store)}
                        free = {z.id for b_ in y.body for z in ast.walk(b_) if isinstance(z, ast.Name) and isinstance(z.ctx, ast.Load)} - bound - stores
                        hit = sorted(free & targets)
                        if hit:
                            out.append((m, y, ', '.join(hit)))
    return out


def request_accessor(e: ast.expr, fw: str) -> Optional[str]:
    """`<request object>.<attr>` -> attr"""
    if isinstance(e, ast.Attribute):
        return e.attr
    return None


def integration_facts(prog: Program, fw: str, ci: ClassInfo) -> Tuple[Dict[str, Any], List[Tuple[str, str, int, str]]]:
    f = handler_of(prog, ci)
    cfg = CFG(f, prog)
    ty = types_of(prog)
    sc = FuncScope(f, ty)
    facts: Dict[str, Any] = {}
    problems: List[Tuple[str, str, int, str]] = []
    # dispatch call
    dnodes = [(n, c) for n in cfg.stmt_nodes() for c in calls_in(n) if isinstance(c.func, ast.Attribute) and c.func.attr == 'dispatch']
    dn, dc = dnodes[0]
    # ---- gate -------------------------------------------------------------------------------------
    gates = []
    for c in cfg.nodes:
        if c.kind != 'cond':
            continue
        for e in cfg.succ[c.id]:
            if e.label in ('T', 'F') and isinstance(e.dst.ast, (ast.Raise, ast.Return)) and status_of(prog, f, e.dst.ast) == 415:
                v_ = e.dst.ast.exc if isinstance(e.dst.ast, ast.Raise) else e.dst.ast.value
                gates.append((c, e, norm(v_.func if isinstance(v_, ast.Call) else v_) + ('(415)' if isinstance(v_, ast.Call) and (v_.args or v_.keywords) else '')))
    facts['refusal'] = sorted({g[2].rsplit('.', 1)[-1] for g in gates})
    if not gates:
        problems.append(('GATE-MEDIA', 'no media-type gate', f.node.lineno,
                         f'{fw}: no branch refuses a request with 415 Unsupported Media Type before dispatching'))
    for c, e, name in gates:
        cond = c.ast
        kind = 'unrecognised'
        acc = None
        if isinstance(cond, ast.Compare) and isinstance(cond.ops[0], (ast.NotIn, ast.In)) and len(cond.ops) == 1:
            acc = request_accessor(cond.left, fw)
            from ..util import canon_dotted as _cd
            tbl_e = cond.comparators[0]
            tbl_txt = _cd(f, tbl_e) or norm(tbl_e)     # a local alias of the package (`common = pjrpc.common`) is looked through
            try:
                tbl_e2 = ast.parse(tbl_txt, mode='eval').body
            except SyntaxError:
                tbl_e2 = tbl_e
            known, val = const_value(prog, f, tbl_e2)
            table_ok = known and isinstance(val, tuple) and 'application/json' in val and tbl_txt.endswith('REQUEST_CONTENT_TYPES')
            refuse_when_not_in = (e.label == 'T') == isinstance(cond.ops[0], ast.NotIn)
            k = ACCESSORS.get((fw, acc or ''), 'unknown-accessor')
            if k == 'unknown-accessor' and not isinstance(cond.left, ast.Attribute):
                # not a framework accessor at all: where does the compared value come from?
                srcs = [cond.left]
                if isinstance(cond.left, ast.Name):
                    srcs += [st.value for st in walk_own(f.node) if isinstance(st, ast.Assign) and any(isinstance(t, ast.Name) and t.id == cond.left.id for t in st.targets)]
                for _ in range(3):
                    more = []
                    for sx in srcs:
                        for y in ast.walk(sx):
                            if isinstance(y, ast.Name):
                                more += [st.value for st in walk_own(f.node) if isinstance(st, ast.Assign) and any(isinstance(t, ast.Name) and t.id == y.id for t in st.targets)]
                    srcs += [m for m in more if m not in srcs]
                txt = ' '.join(norm(x) for x in srcs)
                hdr = [y for sx in srcs for y in ast.walk(sx) if isinstance(y, ast.Constant) and isinstance(y.value, str) and
                       ('headers' in norm(sx))]
                wrong = [y.value for y in hdr if y.value.lower().replace('_', '-') not in ('content-type', 'http-content-type', '')]
                if 'headers' in txt and wrong and not any(y.value.lower().replace('_', '-') in ('content-type', 'http-content-type') for y in hdr):
                    problems.append(('GATE-MEDIA', f'gate reads the header {wrong[0]!r}', c.line,
                                     f'{fw}: `{norm(cond)}` reads the request header {wrong[0]!r}, not Content-Type: the media type of the request '
                                     f'is never looked at (a missing header raises KeyError -> 500, anything else is refused or admitted by accident)'))
                if 'headers' in txt or 'content_type' in txt or 'CONTENT_TYPE' in txt:
                    k = 'hand-parsed-header'
                    facts['gate'] = 'hand-parsed header'
                    problems.append(('GATE-MEDIA', 'gate compares a hand-parsed Content-Type header', c.line,
                                     f'{fw}: `{norm(cond)}` compares a value derived from the raw header (`{txt[:80]}`): unlike the framework\'s media-type '
                                     f'accessor it is not normalised (case, whitespace around ";"), so documented types such as "Application/JSON" or '
                                     f'"application/json ; charset=utf-8" — with the header compared as sent, every documented type that carries a '
                                     f'parameter ("application/json; charset=utf-8") — are refused with 415'
                                     + ('; a request without the header raises KeyError (500) instead of being refused with 415'
                                        if isinstance(cond.left, ast.Subscript) else '')))
            kind = f'{k} {"not in" if refuse_when_not_in else "in"} {"REQUEST_CONTENT_TYPES" if table_ok else norm(cond.comparators[0])}'
            facts['gate'] = kind
            if k == 'hand-parsed-header':
                pass
            elif k == 'unknown-accessor':
                raise AnalysisError(f'{f.qualname}: request accessor `{norm(cond.left)}` is not in the framework accessor table')
            if k not in ('media-type', 'hand-parsed-header'):
                problems.append(('GATE-MEDIA', f'gate compares the {k} `{norm(cond.left)}`', c.line,
                                 f'{fw}: `{norm(cond)}` compares the raw Content-Type header with the documented types: a documented type '
                                 f'sent with a parameter ("application/json; charset=utf-8") is refused with 415; the parameter-free media type must be compared'))
            if not table_ok or not refuse_when_not_in:
                problems.append(('GATE-MEDIA', 'gate does not test membership in REQUEST_CONTENT_TYPES', c.line,
                                 f'{fw}: `{norm(cond)}` must refuse exactly the media types outside pjrpc.common.REQUEST_CONTENT_TYPES'))
        elif isinstance(_strip_not(cond), ast.Call) and isinstance(_strip_not(cond).func, ast.Attribute) and \
                _strip_not(cond).func.attr in ('startswith', 'endswith', 'find', 'index', '__contains__'):
            call = _strip_not(cond)
            facts['gate'] = f'{call.func.attr}() test'
            problems.append(('GATE-MEDIA', f'gate is a {call.func.attr}() test', c.line,
                             f'{fw}: `{norm(cond)}` accepts every media type that merely {call.func.attr} one of the documented types '
                             f'(application/json-patch+json, application/json5, application/json-rpc2, …): such requests are dispatched and '
                             f'executed instead of being refused with 415; the gate must be exact membership in REQUEST_CONTENT_TYPES'))
        else:
            ckd = classify_cond(prog, f, cond)
            acc = (ckd.subject or '').rsplit('.', 1)[-1]
            k = ACCESSORS.get((fw, acc), None)
            if k is None:
                raise AnalysisError(f'{f.qualname}: gate `{norm(cond)}` not recognised')
            facts['gate'] = f'{k} `{acc}`'
            problems.append(('GATE-MEDIA', f'gate uses the {k} `{acc}`', c.line,
                             f'{fw}: `{norm(cond)}` accepts only application/json and application/*+json: the documented request types '
                             f'application/json-rpc and application/jsonrequest are refused with 415; the gate must be '
                             f'`<media type> in pjrpc.common.REQUEST_CONTENT_TYPES`'))
        # GATE-DOM: dispatch only on the passing edge
        passing = [x for x in cfg.succ[c.id] if x.label in ('T', 'F') and x is not e]
        if dn.id in cfg.reachable(cfg.entry, avoid_edges=passing):
            problems.append(('GATE-DOM', 'dispatch reachable without passing the gate', dn.line,
                             f'{fw}: the dispatcher can be called for a request that did not pass the media-type gate'))
    # nothing that can answer the request in another way runs before the gate: the body is read and decoded (and an undecodable one
    # answered with 400) only for a request that passed it — otherwise "any other media type is refused with 415" fails for an
    # unsupported type whose body happens not to decode
    for c, e, name in gates:
        passing = [x for x in cfg.succ[c.id] if x.label in ('T', 'F') and x is not e]
        before = cfg.reachable(cfg.entry, avoid_edges=passing)
        early = [m_ for m_ in cfg.stmt_nodes() if m_.id in before and m_ is not c and
                 (isinstance(m_.ast, (ast.Raise, ast.Return)) and status_of(prog, f, m_.ast) == 400 or
                  any(isinstance(y, ast.Call) and isinstance(y.func, ast.Attribute) and y.func.attr in ('text', 'get_data', 'decode', 'body', 'read')
                      for y in ast.walk(m_.ast) if not isinstance(m_.ast, (ast.FunctionDef, ast.AsyncFunctionDef))))]
        if early:
            m_ = early[0]
            problems.append(('GATE-DOM', 'the body is read / decoded before the media-type gate', m_.line,
                             f'{fw}: `{norm(m_.ast)[:80]}` runs for a request that has not passed the media-type gate: a request of an unsupported '
                             f'media type whose body does not decode is answered 400 (or fails on an unknown charset) instead of 415'))
    # anything executed before the gate that dispatches?
    # ---- decode error → 400 ---------------------------------------------------------------------------
    bad = [n for n in cfg.stmt_nodes() if isinstance(n.ast, (ast.Raise, ast.Return)) and n.handler is not None]
    badnames = []
    for n in bad:
        code = status_of(prog, f, n.ast)
        v_ = n.ast.exc if isinstance(n.ast, ast.Raise) else n.ast.value
        badnames.append((norm(v_.func if isinstance(v_, ast.Call) else v_) if v_ is not None else '?', code, n.handler.caught))
    facts['undecodable_body'] = sorted(f'{"|".join(c)}->{nm.rsplit(".", 1)[-1]}' for nm, code, c in badnames)
    if not any(code == 400 and 'UnicodeDecodeError' in c for nm, code, c in badnames):
        problems.append(('RELAY', 'non-UTF-8 body is not answered with 400', f.node.lineno,
                         f'{fw}: a body that cannot be decoded must be refused with 400 Bad Request'))
    # ---- relay ------------------------------------------------------------------------------------------
    resp_var = list(assigned_names(dn))[0] if assigned_names(dn) else None
    text_arg = dotted(dc.args[0]) if dc.args else None
    text_defs = [n for n in cfg.stmt_nodes() if text_arg in assigned_names(n)]
    facts['dispatch_input'] = [norm(n.ast.value)[:60].replace('await ', '') for n in text_defs if isinstance(n.ast, ast.Assign)]
    # the dispatcher receives the request body decoded to text by the framework (so that an undecodable body is a 400 at the HTTP
    # layer): aiohttp `await request.text()`, werkzeug / flask `request.get_data(as_text=True)`
    from ..flow import Flow
    fl_ = Flow(cfg)
    body_kinds = set()
    for al in (fl_.alts(dn, dc.args[0]) if dc.args else []):
        v_ = al.expr
        while isinstance(v_, ast.Await):
            v_ = v_.value
        if isinstance(v_, ast.Call) and isinstance(v_.func, ast.Attribute) and v_.func.attr == 'text' and not v_.args:
            body_kinds.add('text')
        elif isinstance(v_, ast.Call) and isinstance(v_.func, ast.Attribute) and v_.func.attr == 'get_data':
            as_text = [kw.value for kw in v_.keywords if kw.arg == 'as_text']
            body_kinds.add('text' if as_text and isinstance(as_text[0], ast.Constant) and as_text[0].value is True else 'bytes')
        elif isinstance(v_, ast.Call) and isinstance(v_.func, ast.Attribute) and v_.func.attr == 'decode':
            # decoded by hand (django / starlette give bytes): the decode sits where its UnicodeDecodeError is answered with 400, and
            # the codec it is given is never a falsy value of the request (`request.encoding and 'utf8'` passes None on)
            dn_ = al.node if al.node is not None and getattr(al.node, 'ast', None) is not None else None
            guarded = False
            for n_ in cfg.stmt_nodes():
                if any(y is v_ for y in ast.walk(n_.ast)):
                    dn_ = n_
            if dn_ is not None:
                for e_ in cfg.succ[dn_.id]:
                    if e_.dst.kind == 'handler' and 'UnicodeDecodeError' in (e_.dst.caught or ()):
                        guarded = True
                if not guarded:
                    # without an exception oracle the CFG has no exception edges: fall back to the enclosing try statements
                    for t_ in [x for x in walk_own(f.node) if isinstance(x, ast.Try)]:
                        if any(y is v_ for b_ in t_.body for y in ast.walk(b_)):
                            for h_ in t_.handlers:
                                names_ = [dotted(x) for x in (h_.type.elts if isinstance(h_.type, ast.Tuple) else [h_.type])] if h_.type is not None else ['BaseException']
                                if any((nm or '').rsplit('.', 1)[-1] in ('UnicodeDecodeError', 'UnicodeError', 'ValueError', 'Exception', 'BaseException') for nm in names_):
                                    guarded = True
            body_kinds.add('text' if guarded else 'decoded outside the 400 guard')
            codec = v_.args[0] if v_.args else next((k.value for k in v_.keywords if k.arg == 'encoding'), None)
            if codec is not None:
                def may_be_falsy(x: ast.expr) -> bool:
                    if isinstance(x, ast.Constant):
                        return not x.value
                    if isinstance(x, ast.BoolOp) and isinstance(x.op, ast.Or):
                        return all(may_be_falsy(y) for y in x.values)
                    if isinstance(x, ast.BoolOp) and isinstance(x.op, ast.And):
                        return any(may_be_falsy(y) for y in x.values)
                    if isinstance(x, ast.IfExp):
                        return may_be_falsy(x.body) or may_be_falsy(x.orelse)
                    return True
                facts['codec'] = norm(codec)
                if may_be_falsy(codec) and not isinstance(codec, (ast.Name, ast.Attribute)):
                    problems.append(('RELAY', f'body decoded with `{norm(codec)}`', dn.line,
                                     f'{fw}: `{norm(v_)}`: the codec expression can evaluate to a falsy value of the request (no charset '
                                     f'declared -> None): bytes.decode(None) raises TypeError, which no handler turns into a reply — an ordinary '
                                     f'`Content-Type: application/json` POST gets 500 and nothing is dispatched; the declared charset must fall '
                                     f'back to a fixed codec (`request.encoding or \'utf8\'`)'))
        elif isinstance(v_, ast.Attribute) and v_.attr == 'data':
            body_kinds.add('bytes')
        else:
            body_kinds.add('other:' + norm(v_)[:40])
    facts['body'] = sorted(body_kinds)
    if body_kinds != {'text'}:
        problems.append(('RELAY', f'request body handed to the dispatcher as {sorted(body_kinds)}', dn.line,
                         f'{fw}: the dispatcher must receive the body decoded to text by the framework (aiohttp `await request.text()`, '
                         f'werkzeug/flask `get_data(as_text=True)`); with raw bytes an undecodable body is no longer refused with 400 at the HTTP '
                         f'layer and the integrations stop agreeing on the same request'))
    none_edges = []
    for c in cfg.nodes:
        if c.kind == 'cond':
            ckd = classify_cond(prog, f, c.ast)
            if ckd.kind == 'is-none' and ckd.subject == resp_var:
                for e in cfg.succ[c.id]:
                    if e.label in ('T', 'F'):
                        none_edges.append((e, (e.label == 'T') != ckd.negated))
    if not none_edges:
        problems.append(('RELAY', 'a None verdict (notification) is not distinguished', dn.line,
                         f'{fw}: when the dispatcher returns nothing the reply must be an empty 200'))
    rets = [n for n in cfg.stmt_nodes() if isinstance(n.ast, ast.Return) and n.ast.value is not None]
    relay = {}

    def none_state(n_: Node) -> Optional[bool]:
        """True: reached only when the verdict is None; False: only when it is not; None: on both kinds of path"""
        t_ = any(isn and (n_.id in cfg.reachable(e.dst) or n_ is e.dst) for e, isn in none_edges)
        f_ = any((not isn) and (n_.id in cfg.reachable(e.dst) or n_ is e.dst) for e, isn in none_edges)
        return True if t_ and not f_ else False if f_ and not t_ else None

    def spread_variants(n_: Node, call: ast.Call) -> Optional[List[Tuple[ast.Call, bool]]]:
        """`R(*A, **K)` with A / K locals that start empty and are filled (`A += (x,)`, `A.append(x)`, `K.update(k=v)`, `K[k] = v`)
        under the verdict test: the call as it is made when the verdict is None and when it is not."""
        names = [a.value.id for a in call.args if isinstance(a, ast.Starred) and isinstance(a.value, ast.Name)] + \
                [k.value.id for k in call.keywords if k.arg is None and isinstance(k.value, ast.Name)]
        n_spreads = sum(1 for a in call.args if isinstance(a, ast.Starred)) + sum(1 for k in call.keywords if k.arg is None)
        if not names or len(names) != n_spreads:
            return None
        out_ = []
        for want_none in (True, False):
            pos_: List[ast.expr] = [a for a in call.args if not isinstance(a, ast.Starred)]
            kws_: List[ast.keyword] = [k for k in call.keywords if k.arg is not None]
            for nm in names:
                inits = 0
                for m_ in cfg.stmt_nodes():
                    a_ = m_.ast
                    if m_.kind != 'stmt' or n_.id not in cfg.reachable(m_):
                        continue
                    tg_ = a_.targets[0] if isinstance(a_, ast.Assign) and len(a_.targets) == 1 else a_.target if isinstance(a_, (ast.AnnAssign, ast.AugAssign)) else None
                    st_ = none_state(m_)
                    live = st_ is None or st_ == want_none
                    if isinstance(tg_, ast.Name) and tg_.id == nm and not isinstance(a_, ast.AugAssign):
                        val_ = a_.value
                        empty_ = isinstance(val_, (ast.Tuple, ast.List, ast.Dict)) and not (getattr(val_, 'elts', None) or getattr(val_, 'keys', None)) or \
                            isinstance(val_, ast.Call) and dotted(val_.func) in ('dict', 'list', 'tuple') and not val_.args and not val_.keywords
                        if not empty_ or st_ is not None:
                            return None
                        inits += 1
                    elif isinstance(a_, ast.AugAssign) and isinstance(tg_, ast.Name) and tg_.id == nm and isinstance(a_.op, ast.Add) and \
                            isinstance(a_.value, (ast.Tuple, ast.List)):
                        if live:
                            pos_ += list(a_.value.elts)
                    elif isinstance(a_, ast.Assign) and isinstance(tg_, ast.Subscript) and dotted(tg_.value) == nm and isinstance(tg_.slice, ast.Constant):
                        if live:
                            kws_.append(ast.keyword(arg=str(tg_.slice.value), value=a_.value))
                    elif isinstance(a_, ast.Expr) and isinstance(a_.value, ast.Call) and isinstance(a_.value.func, ast.Attribute) and \
                            dotted(a_.value.func.value) == nm:
                        c2 = a_.value
                        if c2.func.attr == 'update' and not c2.args and all(k.arg for k in c2.keywords):
                            if live:
                                kws_ += list(c2.keywords)
                        elif c2.func.attr == 'update' and len(c2.args) == 1 and isinstance(c2.args[0], ast.Dict) and not c2.keywords and \
                                all(isinstance(k, ast.Constant) for k in c2.args[0].keys):
                            if live:
                                kws_ += [ast.keyword(arg=str(k.value), value=v_) for k, v_ in zip(c2.args[0].keys, c2.args[0].values)]
                        elif c2.func.attr == 'append' and len(c2.args) == 1:
                            if live:
                                pos_.append(c2.args[0])
                        else:
                            return None
                    elif any(isinstance(y, ast.Name) and y.id == nm and isinstance(y.ctx, ast.Store) for y in ast.walk(a_)):
                        return None
                if inits != 1:
                    return None
            out_.append((ast.copy_location(ast.Call(func=call.func, args=pos_, keywords=kws_), call), want_none))
        return out_
    work: List[Tuple[Node, ast.expr, Optional[bool]]] = []
    for n in rets:
        v0 = n.ast.value
        sv = spread_variants(n, v0) if isinstance(v0, ast.Call) and none_state(n) is None else None
        if sv:
            work += [(n, c_, wn_) for c_, wn_ in sv]
        else:
            work.append((n, v0, None))
    for n, v, forced in work:
        on_none = forced if forced is not None else any(
            is_none and (n.id in cfg.reachable(e.dst) or n is e.dst) and
            not any((n.id in cfg.reachable(e2.dst) or n is e2.dst) for e2, isn2 in none_edges if not isn2)
            for e, is_none in none_edges)
        if not isinstance(v, ast.Call):
            # a reply object is built for the request it answers: one kept on the application / module and handed out again cannot be
            # sent twice by the frameworks (aiohttp: a Response is bound to the request that first sent it) and would carry state over
            d_ = dotted(v)
            if d_ and (d_.startswith('self.') or d_.split('.')[0] in f.module.ns) and (on_none or n.id in cfg.reachable(dn)):
                problems.append(('RELAY', f'shared reply object `{d_}`', n.line,
                                 f'{fw}: `{norm(n.ast)}` hands out the stored object `{d_}` as the reply: the first request gets it, later ones '
                                 f'get an object that was already sent (no reply, or the previous reply\'s state)'))
            continue
        kws = {kw.arg: kw.value for kw in v.keywords if kw.arg}
        if on_none:
            empty = not v.args and not kws
            relay['none'] = 'empty response' if empty else norm(v)[:60]
            if not empty:
                problems.append(('RELAY', 'nothing-to-send is not an empty 200 reply', n.line, f'{fw}: `{norm(v)}` must be an empty response'))
        elif n.id in cfg.reachable(dn):
            # unpacked (text, codes)
            unpack = [m for m in cfg.stmt_nodes() if isinstance(m.ast, ast.Assign) and isinstance(m.ast.targets[0], ast.Tuple)
                      and dotted(m.ast.value) == resp_var]
            tvar = cvar = None
            if unpack:
                els = unpack[0].ast.targets[0].elts
                tvar, cvar = dotted(els[0]), dotted(els[1])
            bkw, skw, ckw = REPLY_KW[fw]
            body = v.args[0] if v.args else next((kws[k] for k in bkw if k in kws), None)
            body_ok = body is not None and dotted(body) == tvar
            st = next((kws[k] for k in skw if k in kws), None)
            if isinstance(st, ast.Name):
                # the status computed into a local first (`http_status = self._status_by_error(error_codes)`)
                st_alts = fl_.alts(n, st)
                if len(st_alts) == 1:
                    st = st_alts[0].expr
            alien = sorted(set(kws) - set(bkw) - set(skw) - set(ckw) - {'headers'})
            if alien and 'json_response' not in norm(v.func):
                problems.append(('RELAY', f'reply built with the keyword `{alien[0]}`', n.line,
                                 f'{fw}: `{norm(v)[:90]}`: the reply constructor of this framework takes {bkw[0]} / {skw[0]} / {ckw[0]}; '
                                 f'`{alien[0]}=` is not one of them (TypeError, or the value is ignored)'))
            status = 'default-200'
            if st is not None:
                if isinstance(st, ast.Call) and 'status_by_error' in norm(st.func) and st.args and dotted(st.args[0]) == cvar:
                    status = 'status_by_error(codes)'
                else:
                    status = norm(st)
            explicit_ct = next((kws[k] for k in ckw if k in kws), None)
            ctype = 'json_response default' if ('json_response' in norm(v.func) and explicit_ct is None) else \
                norm(explicit_ct or ast.Constant(value='?'))
            if 'json_response' in norm(v.func) and explicit_ct is not None and not ctype.endswith('DEFAULT_CONTENT_TYPE') and ctype != "'application/json'":
                problems.append(('RELAY', 'reply content type is not the JSON default', n.line,
                                 f'{fw}: `{norm(v)[:90]}` sets the reply content type to `{ctype}`; the reply must carry the JSON content type '
                                 f'(pjrpc.common.DEFAULT_CONTENT_TYPE) whatever media type the request used'))
            relay['verdict'] = f'body={"dispatcher text" if body_ok else norm(body) if body is not None else "?"} status={status} type={ctype.rsplit(".", 1)[-1]}'
            if not body_ok:
                problems.append(('RELAY', 'reply body is not the dispatcher\'s response text', n.line,
                                 f'{fw}: `{norm(v)[:90]}` must carry exactly the text returned by dispatch()'))
            hook = any('status_by_error' in a for c in [ci] + [x for x in prog.mro(ci) if isinstance(x, ClassInfo)]
                       for m in c.methods.values() for a in [p.arg for p in m.params])
            if hook and status != 'status_by_error(codes)':
                problems.append(('RELAY', 'configured status-by-error function ignored', n.line,
                                 f'{fw}: the reply status must be status_by_error(error_codes); found {status}'))
            if 'json_response' not in norm(v.func) and not ctype.endswith('DEFAULT_CONTENT_TYPE'):
                problems.append(('RELAY', 'reply content type is not the JSON default', n.line,
                                 f'{fw}: `{norm(v)[:90]}` must use the JSON content type (pjrpc.common.DEFAULT_CONTENT_TYPE)'))
    facts['relay'] = relay
    if 'verdict' not in relay:
        problems.append(('RELAY', 'dispatcher verdict is never relayed', f.node.lineno, f'{fw}: no reply is built from the dispatcher\'s response'))
    return facts, problems


def media_type_tables(ck: Check, prog: Program) -> None:
    """GATE-MEDIA (the table the gates compare with): REQUEST_CONTENT_TYPES / RESPONSE_CONTENT_TYPES are tuples of well-formed media
    types (`type/subtype`, one slash, no blanks), the response types are request types too, and the default content type is one of
    them — a missing comma between two adjacent string literals silently fuses two entries into one malformed type."""
    import re
    cm = prog.modules.get('pjrpc.common')
    if cm is None:
        raise AnalysisError('module pjrpc.common not found')
    vals = {}
    for st in cm.tree.body:
        tg = st.targets[0] if isinstance(st, ast.Assign) and len(st.targets) == 1 else getattr(st, 'target', None) if isinstance(st, ast.AnnAssign) else None
        if isinstance(tg, ast.Name) and tg.id in ('REQUEST_CONTENT_TYPES', 'RESPONSE_CONTENT_TYPES', 'DEFAULT_CONTENT_TYPE') and st.value is not None:
            vals[tg.id] = (st.value, st.lineno)
    if set(vals) != {'REQUEST_CONTENT_TYPES', 'RESPONSE_CONTENT_TYPES', 'DEFAULT_CONTENT_TYPE'}:
        raise AnalysisError(f'pjrpc.common: content type tables not found ({sorted(vals)})')
    tok = re.compile(r"^[A-Za-z0-9!#$&^_.+-]+/[A-Za-z0-9!#$&^_.+-]+$")
    tables = {}
    for name in ('REQUEST_CONTENT_TYPES', 'RESPONSE_CONTENT_TYPES'):
        v, line = vals[name]
        if not isinstance(v, (ast.Tuple, ast.List, ast.Set)) or not all(isinstance(e, ast.Constant) and isinstance(e.value, str) for e in v.elts):
            raise AnalysisError(f'pjrpc.common.{name} is not a display of string literals')
        items = [e.value for e in v.elts]
        tables[name] = items
        bad = [i for i in items if not tok.match(i)]
        ck.ob('GATE-MEDIA', f'pjrpc.common.{name}: {len(items)} well-formed media types', not bad and bool(items), sample={'types': items})
        for i in bad:
            ck.finding('GATE-MEDIA', f'pjrpc.common.{name}', f'malformed media type {i!r}', cm.rel, line,
                       f'{name} contains {i!r}, which is not a media type (`type/subtype`): two adjacent string literals without a comma are '
                       f'concatenated, so the documented types it was meant to list are refused with 415')
    d, dline = vals['DEFAULT_CONTENT_TYPE']
    ok_d = isinstance(d, ast.Constant) and d.value in tables['REQUEST_CONTENT_TYPES'] and d.value in tables['RESPONSE_CONTENT_TYPES']
    ok_sub = set(tables['RESPONSE_CONTENT_TYPES']) <= set(tables['REQUEST_CONTENT_TYPES'])
    ck.ob('GATE-MEDIA', 'the default content type is an accepted request and response type; response types are request types', ok_d and ok_sub)
    if not (ok_d and ok_sub):
        ck.finding('GATE-MEDIA', 'pjrpc.common', 'content type tables disagree', cm.rel, dline,
                   f'DEFAULT_CONTENT_TYPE={norm(d)} REQUEST={tables["REQUEST_CONTENT_TYPES"]} RESPONSE={tables["RESPONSE_CONTENT_TYPES"]}: what the '
                   f'library itself sends must be accepted by its own server gates and client checks')


def route_bind(ck: Check, prog: Program) -> None:
    """ROUTE-BIND for every integration: each registered route is bound to its own endpoint's dispatcher at registration time."""
    for fw, (cq, wsgi) in INTEGRATIONS.items():
        ci = prog.cls(cq)
        lb = late_bound_closures(prog, ci)
        ck.ob('ROUTE-BIND', f'{fw}: handlers registered in a loop capture their endpoint\'s dispatcher by value (partial / default argument)', not lb)
        for m, node, names in lb:
            ck.functions.add(m.qualname)
            ck.finding('ROUTE-BIND', m.qualname, f'closure over loop variable {names}', m.module.rel, node.lineno,
                       f'`{norm(node)[:90]}` is created inside a loop and reads the loop variable(s) {names} only when it is called: every '
                       f'route registered by the loop ends up with the LAST endpoint\'s dispatcher, so a request to one endpoint is answered '
                       f'by another endpoint\'s dispatcher (functools.partial(..., dispatcher=dispatcher) binds the value)')


def run(ck: Check, prog: Program) -> None:
    ck.explain('Per integration (aiohttp, flask, werkzeug, django, starlette): the media-type gate compares a parameter-free media-type accessor of the '
               'framework with pjrpc.common.REQUEST_CONTENT_TYPES and dominates the dispatch call; a refusal is answered (an HTTP '
               'exception may only be raised where the framework converts it — a bare WSGI callable must not let it escape: '
               'exception-escape analysis of wsgi_app); the reply body is the dispatcher text copy-only with the JSON content type, '
               'status from status_by_error where configurable, empty 200 for a None verdict; the fact records are compared.')
    ck.trusted.append('framework accessor table: aiohttp Request.content_type and werkzeug/flask Request.mimetype are parameter-free media '
                      'types; werkzeug/flask Request.content_type is the raw header; Request.is_json is true only for application/json and +json')
    ck.not_decided += ['equality of replies on concrete bodies',
                       'the AMQP integrations (aio_pika, kombu): the property is worded for web frameworks',
                       'django and starlette are not installed here: their handlers are read with the same rules, their framework '
                       'tables (accessors, reply keywords) are from the frameworks\' documentation and cannot be re-derived from installed sources']
    media_type_tables(ck, prog)
    records = {}
    gate_clean = {}
    # helpers extracted from the request handlers (reading the body, building the reply) are looked at as part of them
    from ..inline import inlined_program
    prog = inlined_program(prog, [handler_of(prog, prog.cls(cq)).qualname for cq, _ in INTEGRATIONS.values()])
    for fw, (cq, wsgi) in INTEGRATIONS.items():
        ci = prog.cls(cq)
        h = handler_of(prog, ci)
        ck.functions.add(h.qualname)
        facts, problems = integration_facts(prog, fw, ci)
        records[fw] = facts
        gate_clean[fw] = not any(p[0] == 'GATE-MEDIA' for p in problems)
        for rule in ('GATE-MEDIA', 'GATE-DOM', 'RELAY'):
            bad = [p for p in problems if p[0] == rule]
            ck.ob(rule, f'{fw}: {rule}', not bad, sample={'facts': facts} if rule == 'GATE-MEDIA' else None)
        for rule, construct, line, msg in problems:
            ck.finding(rule, h.qualname, construct, h.module.rel, line, msg)
        # ROUTE-BIND: each registered route is bound to its own endpoint's dispatcher at registration time
        lb = late_bound_closures(prog, ci)
        ck.ob('ROUTE-BIND', f'{fw}: handlers registered in a loop capture their endpoint\'s dispatcher by value (partial / default argument)', not lb)
        for m, node, names in lb:
            ck.finding('ROUTE-BIND', m.qualname, f'closure over loop variable {names}', m.module.rel, node.lineno,
                       f'`{norm(node)[:90]}` is created inside a loop and reads the loop variable(s) {names} only when it is called: every '
                       f'route registered by the loop ends up with the LAST endpoint\'s dispatcher, so a request to one endpoint is answered '
                       f'by another endpoint\'s dispatcher (functools.partial(..., dispatcher=dispatcher) binds the value)')
        # ROUTE-BIND (paired tables): where registration fills two tables of the instance (endpoint -> dispatcher, endpoint -> blueprint /
        # sub-application) and the routes are bound by walking one and looking the other up under the same key, both are filled
        # under the same key — a normalised key in one and the raw one in the other loses the pairing
        pairs = set()
        for m in ci.methods.values():
            for loop in [x for x in walk_own(m.node) if isinstance(x, (ast.For, ast.AsyncFor))]:
                it_ = loop.iter
                src_ = it_.func.value if isinstance(it_, ast.Call) and isinstance(it_.func, ast.Attribute) and it_.func.attr in ('items', 'keys') else it_
                a_ = dotted(src_)
                kv = loop.target.elts[0] if isinstance(loop.target, ast.Tuple) and loop.target.elts else loop.target
                if not a_ or not a_.startswith('self.') or not isinstance(kv, ast.Name):
                    continue
                for y in [z for b_ in loop.body for z in ast.walk(b_)]:
                    b_tab = None
                    if isinstance(y, ast.Call) and isinstance(y.func, ast.Attribute) and y.func.attr == 'get' and y.args and dotted(y.args[0]) == kv.id:
                        b_tab = dotted(y.func.value)
                    elif isinstance(y, ast.Subscript) and dotted(y.slice) == kv.id:
                        b_tab = dotted(y.value)
                    if b_tab and b_tab.startswith('self.') and b_tab != a_:
                        pairs.add((a_, b_tab))
        for a_, b_tab in sorted(pairs):
            for m in ci.methods.values():
                ka = [x.slice for x in walk_own(m.node) if isinstance(x, ast.Subscript) and isinstance(x.ctx, ast.Store) and dotted(x.value) == a_]
                kb = [x.slice for x in walk_own(m.node) if isinstance(x, ast.Subscript) and isinstance(x.ctx, ast.Store) and dotted(x.value) == b_tab]
                if ka and kb:
                    same = {norm(k) for k in ka} == {norm(k) for k in kb}
                    ck.ob('ROUTE-BIND', f'{fw}: {short(m.qualname)} fills {a_} and {b_tab} under the same key', same)
                    if not same:
                        ck.finding('ROUTE-BIND', m.qualname, f'{a_} and {b_tab} are filled under different keys', m.module.rel, kb[0].lineno,
                                   f'{short(m.qualname)} stores into {a_}[{norm(ka[0])}] and into {b_tab}[{norm(kb[0])}], while the routes are bound by walking '
                                   f'{a_} and looking {b_tab} up under the same key: an endpoint registered with a prefix the two keys spell differently '
                                   f'(a trailing slash) is bound without its blueprint / sub-application, so it is served at another URL than configured')
        # GATE-ANSWER
        if wsgi is not None:
            w = ci.methods.get(wsgi)
            if w is None:
                raise AnalysisError(f'{cq}.{wsgi} not found')
            ck.functions.add(w.qualname)
            interp = Interp(prog, Config(user_raises=lambda f, c, s: set(), subscript_keyerror=False))
            res = interp.analyze(w, {EMPTY_ENV}, recv=cq)
            esc = {(c, o): wt for (c, o), wt in res.raises.items() if prog.exc_subclass(c, 'werkzeug.exceptions.HTTPException')}
            ck.ob('GATE-ANSWER', f'{fw}: no HTTPException escapes the WSGI callable (a refusal is turned into a response)', not esc,
                  sample={'raised_inside': sorted({c for c, _ in res.raises} | {c for rs in res.node_raises.values() for c, _ in rs})})
            for (c, o), wt in esc.items():
                ck.finding('GATE-ANSWER', w.qualname, f'{c.rsplit(".", 1)[-1]} escapes the WSGI callable', w.module.rel, wt.line,
                           f'{c} is raised out of {short(w.qualname)}: a bare WSGI application has no framework above it that converts '
                           f'the exception, so the client gets a server failure (500 / connection reset) instead of the 415/400 reply',
                           wt.chain())
        else:
            ck.ob('GATE-ANSWER', f'{fw}: refusal raised inside a framework handler (converted to a reply by the framework)', True, nontrivial=False)
    # INTEG-SIBLINGS
    # an integration whose own gate is already reported is not reported a second time for differing from its siblings
    gates = {fw: r.get('gate') for fw, r in records.items() if gate_clean.get(fw)}
    same_gate = len({g for g in gates.values()}) <= 1
    ck.ob('INTEG-SIBLINGS', 'the integrations use the same kind of gate', same_gate, sample={'gates': gates})
    if not same_gate:
        ck.finding('INTEG-SIBLINGS', 'pjrpc.server.integration', f'gate kinds differ: {gates}', 'pjrpc/server/integration', 0,
                   f'the same request is treated differently by the integrations: {gates}')
    nones = {fw: r.get('relay', {}).get('none') for fw, r in records.items()}
    ck.ob('INTEG-SIBLINGS', 'all integrations answer a None verdict with an empty reply', set(nones.values()) == {'empty response'}, sample={'none': nones})
    ck.extra['integration_records'] = records
    ck.extra['declared_differences'] = ['aiohttp relies on web.json_response\'s application/json while flask/werkzeug pass DEFAULT_CONTENT_TYPE',
                                        'werkzeug and django offer no status_by_error hook: their status is always 200',
                                        'django and starlette decode the body themselves (inside the 400 guard); the others ask the framework for text']


MUTANTS = [
    dict(name='shared-empty-reply-object', file='pjrpc/server/integration/aiohttp.py',
         find='            return web.Response()\n', replace='            return self._no_content\n', expect='RELAY'),
    dict(name='media-type-table-missing-comma', file='pjrpc/common/__init__.py',
         find="REQUEST_CONTENT_TYPES = ('application/json', 'application/json-rpc', 'application/jsonrequest')",
         replace="REQUEST_CONTENT_TYPES = ('application/json', 'application/json-rpc' 'application/jsonrequest')", expect='GATE-MEDIA'),
    dict(name='gate-after-dispatch', file='pjrpc/server/integration/aiohttp.py',
         find='''        if http_request.content_type not in pjrpc.common.REQUEST_CONTENT_TYPES:
            raise web.HTTPUnsupportedMediaType()

        try:
            request_text = await http_request.text()
        except UnicodeDecodeError as e:
            raise web.HTTPBadRequest() from e

        response = await dispatcher.dispatch(request_text, context=http_request)
''',
         replace='''        try:
            request_text = await http_request.text()
        except UnicodeDecodeError as e:
            raise web.HTTPBadRequest() from e

        response = await dispatcher.dispatch(request_text, context=http_request)
        if http_request.content_type not in pjrpc.common.REQUEST_CONTENT_TYPES:
            raise web.HTTPUnsupportedMediaType()
''', expect='GATE-DOM'),
    dict(name='body-re-encoded', file='pjrpc/server/integration/aiohttp.py',
         find='return web.json_response(status=self._status_by_error(error_codes), text=response_text)',
         replace='return web.json_response(status=self._status_by_error(error_codes), text=json.dumps(json.loads(response_text)))', expect='RELAY'),
    dict(name='status-constant', file='pjrpc/server/integration/aiohttp.py',
         find='return web.json_response(status=self._status_by_error(error_codes), text=response_text)',
         replace='return web.json_response(status=200, text=response_text)', expect='RELAY'),
    dict(name='startswith-gate', file='pjrpc/server/integration/aiohttp.py',
         find='if http_request.content_type not in pjrpc.common.REQUEST_CONTENT_TYPES:',
         replace="if not http_request.content_type.startswith('application/'):", expect='GATE-MEDIA', accept_analysis_error=True),
    dict(name='flask-text-mimetype', file='pjrpc/server/integration/flask.py',
         find='                status=self._status_by_error(error_codes),\n                mimetype=pjrpc.common.DEFAULT_CONTENT_TYPE,',
         replace="                status=self._status_by_error(error_codes),\n                mimetype='text/plain',", expect='RELAY'),
    dict(name='none-verdict-204', file='pjrpc/server/integration/werkzeug.py', find='            return werkzeug.Response()\n',
         replace='            return werkzeug.Response(status=204)\n', expect='RELAY'),
    dict(name='reintroduce-D18a-raw-header', file='pjrpc/server/integration/werkzeug.py',
         find='if request.mimetype not in pjrpc.common.REQUEST_CONTENT_TYPES:', replace='if request.content_type not in pjrpc.common.REQUEST_CONTENT_TYPES:',
         expect='GATE-MEDIA'),
    dict(name='reintroduce-D18b-is_json', file='pjrpc/server/integration/flask.py',
         find='if flask.request.mimetype not in pjrpc.common.REQUEST_CONTENT_TYPES:', replace='if not flask.request.is_json:', expect='GATE-MEDIA'),
    dict(name='reintroduce-D18c-exception-escapes', file='pjrpc/server/integration/werkzeug.py',
         find='        except exceptions.HTTPException as e:\n            response = e.get_response(environ)\n',
         replace='        except exceptions.NotFound as e:\n            response = e.get_response(environ)\n', expect='GATE-ANSWER'),
    dict(name='werkzeug-body-bytes', file='pjrpc/server/integration/werkzeug.py', find='request_text = request.get_data(as_text=True)',
         replace='request_text = request.get_data()', expect=['RELAY', 'INTEG-SIBLINGS']),
]
